(* C05 — one iteration on the heap is the view-level step of the id-free view
   (under the binding invariant), and an iteration preserves the binding invariant. *)
From QV.lib Require Import Prelude.
From QV.model Require Import C05_Model.
From QV.proof Require Import C05_Proofs_Base.
Set Implicit Arguments.

Section Iter.
  Variables V G M L R C SS : Type.
  Variable Rzero : R.
  Variable forward : list (list (option V) * C) -> L * list (list (option G)).
  Variable opt_update : opt_kind -> R -> V -> G -> option (pstate M) -> V * option (pstate M).
  Variable sched_step : SS -> nat -> L -> R -> SS * R.
  Local Notation iterate := (iterate Rzero forward opt_update sched_step).
  Local Notation step_view := (step_view Rzero forward opt_update sched_step).
  Implicit Types (s : st V M L R C SS) (h : heap V M R SS) (m : mdl C).

  (* ------------------------------------------------------------ one optimiser reference *)
  Lemma opt_step1_spec (gm : id -> option G) (hpv : id -> option V) (ob : optobj M R) a :
    let res := opt_step1 opt_update gm (hpv, ob) a in
    (fst res a, st_lookup (ostate (snd res)) a)
      = vstep_param opt_update (okind ob) (olr ob) (hpv a) (gm a) (st_lookup (ostate ob) a)
    /\ (forall r, r <> a -> fst res r = hpv r /\ st_lookup (ostate (snd res)) r = st_lookup (ostate ob) r)
    /\ okind (snd res) = okind ob /\ oparams (snd res) = oparams ob /\ olr (snd res) = olr ob.
  Proof.
    unfold opt_step1, vstep_param.
    destruct (gm a) as [g|]; [destruct (hpv a) as [v|] eqn:Ev|].
    - destruct (opt_update (okind ob) (olr ob) v g (st_lookup (ostate ob) a)) as [v' ps'].
      cbn. rewrite fupd_eq, st_lookup_put_eq. split; [reflexivity|]. split; [|auto].
      intros r Hr. rewrite fupd_neq by exact Hr. rewrite st_lookup_put_neq by exact Hr. auto.
    - cbn. rewrite Ev. auto.
    - cbn. auto.
  Qed.

  (* optimizer.step() over a duplicate-free list of references, pointwise *)
  Lemma opt_fold_spec (gm : id -> option G) l : NoDup l -> forall (hpv : id -> option V) (ob : optobj M R),
    let res := fold_left (opt_step1 opt_update gm) l (hpv, ob) in
    (forall r, In r l -> (fst res r, st_lookup (ostate (snd res)) r)
                         = vstep_param opt_update (okind ob) (olr ob) (hpv r) (gm r) (st_lookup (ostate ob) r))
    /\ (forall r, ~ In r l -> fst res r = hpv r /\ st_lookup (ostate (snd res)) r = st_lookup (ostate ob) r)
    /\ okind (snd res) = okind ob /\ oparams (snd res) = oparams ob /\ olr (snd res) = olr ob.
  Proof.
    induction 1 as [|a l Hna Hnd IH]; intros hpv ob.
    - cbn. split; [intros r []|]. auto.
    - cbn [fold_left].
      destruct (opt_step1_spec gm hpv ob a) as (Ha & Hother & Hk & Hp & Hlr).
      destruct (opt_step1 opt_update gm (hpv, ob) a) as [hpv1 ob1]. cbn [fst snd] in *.
      specialize (IH hpv1 ob1). cbn zeta in IH. destruct IH as (Hin & Hout & Hk' & Hp' & Hlr').
      split; [|split].
      + intros r [<-|Hr].
        * destruct (Hout a Hna) as (E1 & E2). rewrite E1, E2. exact Ha.
        * assert (r <> a) as Hne by (intros ->; contradiction).
          rewrite (Hin r Hr). destruct (Hother r Hne) as (E1 & E2). now rewrite E1, E2, Hk, Hlr.
      + intros r Hr. assert (r <> a) as Hne by (intros ->; apply Hr; now left).
        assert (~ In r l) as Hnl by (intros Hi; apply Hr; now right).
        destruct (Hout r Hnl) as (E1 & E2). destruct (Hother r Hne) as (E3 & E4).
        split; congruence.
      + repeat split; congruence.
  Qed.

  Lemma grad_map_tail p t (gs : list (option G)) r : r <> p -> grad_map (p :: t) gs r = grad_map t (tl gs) r.
  Proof. intros Hn. cbn. destruct (Nat.eqb_spec r p); [contradiction|reflexivity]. Qed.

  Lemma grad_map_head p t (gs : list (option G)) : grad_map (p :: t) gs p = hd None gs.
  Proof. cbn. now rewrite Nat.eqb_refl. Qed.

  Lemma vstep_params_map k lr (hpv hpv' : id -> option V) (st0 st' : list (id * pstate M)) ps :
    NoDup ps -> forall gs : list (option G),
    (forall r, In r ps -> (hpv' r, st_lookup st' r)
                          = vstep_param opt_update k lr (hpv r) (grad_map ps gs r) (st_lookup st0 r)) ->
    map (fun r => (hpv' r, st_lookup st' r)) ps
    = vstep_params opt_update k lr (map hpv ps) gs (map (st_lookup st0) ps).
  Proof.
    induction 1 as [|p t Hnp Hnd IH]; intros gs H; [reflexivity|].
    cbn [map vstep_params hd tl]. f_equal.
    - rewrite (H p (or_introl eq_refl)). now rewrite grad_map_head.
    - apply IH. intros r Hr. rewrite (H r (or_intror Hr)).
      rewrite grad_map_tail; [reflexivity|]. intros ->. contradiction.
  Qed.

  Lemma opt_fold_meta (gm : id -> option G) l : forall (hpv : id -> option V) (ob : optobj M R),
    let res := fold_left (opt_step1 opt_update gm) l (hpv, ob) in
    okind (snd res) = okind ob /\ oparams (snd res) = oparams ob /\ olr (snd res) = olr ob.
  Proof.
    induction l as [|a l IH]; intros hpv ob; [cbn; auto|].
    cbn [fold_left].
    destruct (opt_step1_spec gm hpv ob a) as (_ & _ & Hk & Hp & Hlr).
    destruct (opt_step1 opt_update gm (hpv, ob) a) as [hpv1 ob1]. cbn [fst snd] in *.
    specialize (IH hpv1 ob1). cbn zeta in IH. destruct IH as (Hk' & Hp' & Hlr').
    repeat split; congruence.
  Qed.

  (* ------------------------------------------------------------ optimiser step of one model *)
  Lemma opt_step_model_shape h (mg : mdl C * list (option G)) :
    heap_shape h (opt_step_model opt_update h mg).
  Proof.
    destruct mg as [m gs]. unfold opt_step_model.
    destruct (mopt m) as [o|]; [|apply heap_shape_refl].
    destruct (ho h o) as [ob|] eqn:Eo; [|apply heap_shape_refl].
    pose proof (opt_fold_meta (grad_map (mparams m) gs) (oparams ob) (hp h) ob) as (Hk & Hp & Hlr).
    destruct (fold_left (opt_step1 opt_update (grad_map (mparams m) gs)) (oparams ob) (hp h, ob)) as [hpv' ob'].
    cbn [fst snd] in *. repeat split; cbn [hnext ho hs]; try reflexivity.
    intros o'. unfold fupd. destruct (Nat.eqb_spec o' o) as [->|]; [|reflexivity].
    rewrite Eo. cbn. congruence.
  Qed.

  Lemma opt_step_model_view h m gs : bound h m ->
    mview_of (opt_step_model opt_update h (m, gs)) m = vstep_model opt_update (mview_of h m) gs.
  Proof.
    intros (Hnd & _ & Ho & _). unfold opt_step_model, vstep_model.
    destruct (mopt m) as [o|] eqn:Em.
    2:{ unfold mview_of; cbn [vopt]. rewrite Em. reflexivity. }
    destruct Ho as (_ & _ & ob & Eo & Ep). rewrite Eo.
    assert (NoDup (oparams ob)) as Hnd' by (rewrite Ep; exact Hnd).
    pose proof (opt_fold_spec (grad_map (mparams m) gs) Hnd' (hp h) ob) as (Hin & _ & Hk & Hp & Hlr).
    destruct (fold_left (opt_step1 opt_update (grad_map (mparams m) gs)) (oparams ob) (hp h, ob)) as [hpv' ob'].
    cbn [fst snd] in *.
    unfold mview_of; cbn [vopt vvals vcons vsched hp ho hs]. rewrite Em, Eo, fupd_eq.
    rewrite Ep in *.
    pose proof (@vstep_params_map (okind ob) (olr ob) (hp h) hpv' (ostate ob) (ostate ob') (mparams m) Hnd gs Hin) as E.
    cbn zeta. rewrite Hp, <- E, !map_map. cbn [fst snd].
    rewrite Hk, Hlr. reflexivity.
  Qed.

  (* a separated model does not see it *)
  Lemma opt_step_model_frame h m gs m' : bound h m -> sep m m' ->
    mview_of (opt_step_model opt_update h (m, gs)) m' = mview_of h m'.
  Proof.
    intros (Hnd & _ & Ho & _) (Sp & So & _). unfold opt_step_model.
    destruct (mopt m) as [o|] eqn:Em; [|reflexivity].
    destruct Ho as (_ & _ & ob & Eo & Ep). rewrite Eo.
    assert (NoDup (oparams ob)) as Hnd' by (rewrite Ep; exact Hnd).
    pose proof (opt_fold_spec (grad_map (mparams m) gs) Hnd' (hp h) ob) as (_ & Hout & _).
    destruct (fold_left (opt_step1 opt_update (grad_map (mparams m) gs)) (oparams ob) (hp h, ob)) as [hpv' ob'].
    cbn [fst snd] in *. rewrite Ep in Hout.
    unfold mview_of; cbn [hp ho hs]. f_equal.
    - apply map_ext_in. intros r Hr. apply Hout. intros Hi. exact (Sp r Hi Hr).
    - destruct (mopt m') as [o'|] eqn:Em'; [|reflexivity].
      rewrite fupd_neq; [reflexivity|]. intros ->. exact (So o eq_refl eq_refl).
  Qed.
  (* ------------------------------------------------------------ optimiser phase *)
  Lemma opt_fold_shape (l : list (mdl C * list (option G))) h :
    heap_shape h (fold_left (opt_step_model opt_update) l h).
  Proof.
    revert h. induction l as [|mg l IH]; intros h; [apply heap_shape_refl|].
    cbn [fold_left]. eapply heap_shape_trans; [apply opt_step_model_shape|apply IH].
  Qed.

  Lemma opt_fold_frame m t : Forall (sep m) t -> forall h (gs : list (list (option G))), Forall (bound h) t ->
    mview_of (fold_left (opt_step_model opt_update) (zipd t gs) h) m = mview_of h m.
  Proof.
    induction 1 as [|m' t Hs Hf IH]; intros h gs Hb; [reflexivity|].
    cbn [zipd fold_left]. inversion Hb as [|? ? Hb1 Hb2]; subst.
    rewrite IH.
    - apply opt_step_model_frame; [exact Hb1|apply sep_sym; exact Hs].
    - eapply Forall_bound_shape; [apply opt_step_model_shape|exact Hb2].
  Qed.

  Lemma opt_phase_view (ms : list (mdl C)) : ForallOrdPairs sep ms ->
    forall h (grads : list (list (option G))), Forall (bound h) ms ->
    map (mview_of (fold_left (opt_step_model opt_update) (zipd ms grads) h)) ms
    = vstep_models opt_update (map (mview_of h) ms) grads.
  Proof.
    induction 1 as [|m t Hs Hf IH]; intros h grads Hb; [reflexivity|].
    inversion Hb as [|? ? Hb1 Hb2]; subst.
    cbn [zipd fold_left map vstep_models].
    assert (Forall (bound (opt_step_model opt_update h (m, hd [] grads))) t) as Hb2'
      by (eapply Forall_bound_shape; [apply opt_step_model_shape|exact Hb2]).
    f_equal.
    - rewrite opt_fold_frame by assumption. apply opt_step_model_view; exact Hb1.
    - rewrite IH by exact Hb2'. f_equal. apply map_ext_in. intros m' Hm'.
      apply opt_step_model_frame; [exact Hb1|]. rewrite Forall_forall in Hs. now apply Hs.
  Qed.

  Lemma cur_lr_view h m : cur_lr h m = vcur_lr (mview_of h m).
  Proof.
    unfold cur_lr, vcur_lr, mview_of; cbn [vopt].
    destruct (mopt m) as [o|]; [destruct (ho h o)|]; reflexivity.
  Qed.

  (* ------------------------------------------------------------ scheduler step of one model *)
  Lemma sched_step_model_shape loss h m : heap_shape h (sched_step_model sched_step loss h m).
  Proof.
    unfold sched_step_model.
    destruct (msched m) as [s|]; [|apply heap_shape_refl].
    destruct (hs h s) as [sb|] eqn:Es; [|apply heap_shape_refl].
    destruct (ho h (sopt sb)) as [ob|] eqn:Eo; [|apply heap_shape_refl].
    destruct (sched_step (sst sb) (slast sb) loss (olr ob)) as [ss' lr'].
    repeat split; cbn [hnext ho hs].
    - intros o. unfold fupd. destruct (Nat.eqb_spec o (sopt sb)) as [->|]; [rewrite Eo|]; reflexivity.
    - intros s'. unfold fupd. destruct (Nat.eqb_spec s' s) as [->|]; [rewrite Es|]; reflexivity.
  Qed.

  Lemma sched_step_model_view loss h m : bound h m ->
    mview_of (sched_step_model sched_step loss h m) m = vsched_model sched_step loss (mview_of h m).
  Proof.
    intros (_ & _ & Ho & Hs). unfold sched_step_model, vsched_model.
    destruct (msched m) as [s|] eqn:Ems.
    2:{ unfold mview_of; cbn [vsched]. rewrite Ems. reflexivity. }
    destruct Hs as (_ & sb & Es & Eb). rewrite <- Eb in Ho. destruct Ho as (_ & _ & ob & Eo & Ep).
    rewrite Es, Eo.
    unfold mview_of at 2 3; cbn [vsched vopt]. rewrite Ems, <- Eb, Es, Eo.
    destruct (sched_step (sst sb) (slast sb) loss (olr ob)) as [ss' lr'].
    unfold mview_of; cbn [hp ho hs vvals vcons]. rewrite Ems, <- Eb, !fupd_eq. reflexivity.
  Qed.

  Lemma sched_step_model_frame loss h m m' : bound h m -> sep m m' ->
    mview_of (sched_step_model sched_step loss h m) m' = mview_of h m'.
  Proof.
    intros (_ & _ & _ & Hs) (_ & So & Ss). unfold sched_step_model.
    destruct (msched m) as [s|] eqn:Ems; [|reflexivity].
    destruct Hs as (_ & sb & Es & Eb). rewrite Es.
    destruct (ho h (sopt sb)) as [ob|] eqn:Eo; [|reflexivity].
    destruct (sched_step (sst sb) (slast sb) loss (olr ob)) as [ss' lr'].
    unfold mview_of; cbn [hp ho hs]. f_equal.
    - destruct (mopt m') as [o'|] eqn:Em'; [|reflexivity].
      rewrite fupd_neq; [reflexivity|]. intros ->. exact (So _ (eq_sym Eb) eq_refl).
    - destruct (msched m') as [s'|] eqn:Ems'; [|reflexivity].
      rewrite fupd_neq; [reflexivity|]. intros ->. exact (Ss _ eq_refl eq_refl).
  Qed.

  (* ------------------------------------------------------------ scheduler phase *)
  Lemma sched_fold_shape loss (l : list (mdl C)) h :
    heap_shape h (fold_left (sched_step_model sched_step loss) l h).
  Proof.
    revert h. induction l as [|m l IH]; intros h; [apply heap_shape_refl|].
    cbn [fold_left]. eapply heap_shape_trans; [apply sched_step_model_shape|apply IH].
  Qed.

  Lemma sched_fold_frame loss m t : Forall (sep m) t -> forall h, Forall (bound h) t ->
    mview_of (fold_left (sched_step_model sched_step loss) t h) m = mview_of h m.
  Proof.
    induction 1 as [|m' t Hs Hf IH]; intros h Hb; [reflexivity|].
    cbn [fold_left]. inversion Hb as [|? ? Hb1 Hb2]; subst.
    rewrite IH.
    - apply sched_step_model_frame; [exact Hb1|apply sep_sym; exact Hs].
    - eapply Forall_bound_shape; [apply sched_step_model_shape|exact Hb2].
  Qed.

  Lemma sched_phase_view loss (ms : list (mdl C)) : ForallOrdPairs sep ms ->
    forall h, Forall (bound h) ms ->
    map (mview_of (fold_left (sched_step_model sched_step loss) ms h)) ms
    = map (vsched_model sched_step loss) (map (mview_of h) ms).
  Proof.
    induction 1 as [|m t Hs Hf IH]; intros h Hb; [reflexivity|].
    inversion Hb as [|? ? Hb1 Hb2]; subst.
    cbn [fold_left map].
    assert (Forall (bound (sched_step_model sched_step loss h m)) t) as Hb2'
      by (eapply Forall_bound_shape; [apply sched_step_model_shape|exact Hb2]).
    f_equal.
    - rewrite sched_fold_frame by assumption. apply sched_step_model_view; exact Hb1.
    - rewrite IH by exact Hb2'. f_equal. apply map_ext_in. intros m' Hm'.
      apply sched_step_model_frame; [exact Hb1|]. rewrite Forall_forall in Hs. now apply Hs.
  Qed.

  (* ------------------------------------------------------------ one iteration *)
  Lemma iterate_models s : models (rc (iterate s)) = models (rc s).
  Proof. unfold C05_Model.iterate. destruct (forward _) as [loss grads]. reflexivity. Qed.

  Lemma iterate_losses s : exists l, losses (rc (iterate s)) = losses (rc s) ++ [l].
  Proof. unfold C05_Model.iterate. destruct (forward _) as [loss grads]. now exists loss. Qed.

  Lemma iterate_shape s : heap_shape (hh s) (hh (iterate s)).
  Proof.
    unfold C05_Model.iterate. destruct (forward _) as [loss grads]. cbn [hh].
    eapply heap_shape_trans; [apply opt_fold_shape|apply sched_fold_shape].
  Qed.

  Lemma iterate_binding_inv s : binding_inv s -> binding_inv (iterate s).
  Proof. apply binding_inv_shape; [apply iterate_models|apply iterate_shape]. Qed.

  Lemma view_iterate s : binding_inv s -> view_of (iterate s) = step_view (view_of s).
  Proof.
    intros (Hsep & Hb). unfold C05_Model.iterate, C05_Model.step_view.
    unfold view_of at 2 3 4 5. cbn [vmodels vlosses vlrs].
    rewrite map_map.
    change (map (fun x => (vvals (mview_of (hh s) x), vcons (mview_of (hh s) x))) (models (rc s)))
      with (map (fun m => (map (hp (hh s)) (mparams m), mcons m)) (models (rc s))).
    destruct (forward _) as [loss grads].
    unfold view_of; cbn [hh rc models losses lrs vmodels vlosses vlrs].
    assert (Forall (bound (fold_left (opt_step_model opt_update) (zipd (models (rc s)) grads) (hh s)))
                   (models (rc s))) as Hb1
      by (eapply Forall_bound_shape; [apply opt_fold_shape|exact Hb]).
    f_equal.
    - rewrite sched_phase_view by assumption. now rewrite opt_phase_view.
    - f_equal. rewrite <- opt_phase_view by assumption. rewrite map_map.
      apply map_ext. intros m. apply cur_lr_view.
  Qed.
End Iter.

Print Assumptions view_iterate.
