(* C10 proofs, part B5 (round 3): requested weights at the edges.  The setter guards only the
   LENGTH of the request.  Closed forms of the resulting mode intensities and of the squared scale
   factors; a real scale factor exists exactly when the relative weight is non-negative (negative
   relative weight: the code takes sqrt of a negative number -> NaN); a zero-sum request is not
   normalisable; zero weights give vanishing modes. *)
From QV.lib Require Import Prelude C10_Cplx.
From QV.model Require Import C10_Model.
From QV.proof Require Import C10_Proofs_W C10_Proofs_Dep.
From Coq Require Import QArith Qcanon Field Lqa.
Local Close Scope Q_scope.
Local Open Scope Qc_scope.

(* the mode intensities of the initial probe do not depend on the input intensities at all *)
Theorem weights_closed_form : forall mean raw I,
  length raw = length I -> mean <> 0 -> qcsum raw <> 0 -> Forall (fun x => 0 < x) I ->
  apply_weights mean (norm_weights raw) I = map (fun w => w / qcsum raw * mean) raw.
Proof.
  intros mean raw I Hl Hm Hr Hp. destruct (pos_hyps raw I Hl Hr Hp) as [Hs Hnz].
  rewrite apply_weights_closed; auto; [| unfold norm_weights; rewrite map_length; exact Hl].
  unfold norm_weights. rewrite map_map. reflexivity.
Qed.

(* squared factor of mode i:  (w_i / sum w) * mean / I_i *)
Theorem weight_scales_closed : forall mean w I,
  length w = length I -> mean <> 0 -> qcsum I <> 0 -> Forall (fun x => x <> 0) I ->
  weight_scales mean w I = map (fun wx => fst wx * mean / snd wx) (combine w I).
Proof.
  intros mean w I Hl Hm Hs Hnz. unfold weight_scales.
  assert (Ht : qcsum (map (fun x => x * (mean / qcsum I)) I) = mean).
  { rewrite qcsum_map_mul. field. exact Hs. }
  rewrite Ht. clear Ht.
  assert (Hk : mean / qcsum I <> 0).
  { intro E. apply Hm. assert (X : mean = mean / qcsum I * qcsum I) by (field; exact Hs).
    rewrite X, E. ring. }
  set (k := mean / qcsum I) in *. clearbody k. clear Hs.
  revert I Hl Hnz. induction w as [|wi w IH]; intros [|x I] Hl Hnz; cbn [combine map length] in *;
    try congruence; try reflexivity.
  inversion Hnz as [|? ? Hx Hnz']; subst. f_equal.
  - cbn [fst snd]. field. repeat split; assumption.
  - apply IH; [congruence | exact Hnz'].
Qed.

Lemma scales_nonneg_aux mean d : 0 < mean -> forall raw I,
  Forall (fun w => 0 <= w / d) raw -> Forall (fun x => 0 < x) I ->
  Forall (fun wx : Qc * Qc => 0 <= fst wx * mean / snd wx) (combine (map (fun w => w / d) raw) I).
Proof.
  intros Hm. induction raw as [|a raw IH]; intros [|b I] Hw Hp; cbn [map combine]; constructor.
  - cbn [fst snd]. inversion Hw; subst. inversion Hp; subst. apply Qc_div_nonneg; [|assumption].
    apply Qc_mul_nonneg; [assumption | apply Qclt_le_weak; exact Hm].
  - inversion Hw; subst. inversion Hp; subst. apply IH; assumption.
Qed.

(* admissible request (non-zero sum, non-negative relative weights): every squared scale factor
   is >= 0, so the real scaling sqrt(scale) exists *)
Theorem weight_scales_nonneg : forall mean raw I,
  length raw = length I -> 0 < mean -> weights_admissible raw -> Forall (fun x => 0 < x) I ->
  Forall (fun s => 0 <= s) (weight_scales mean (norm_weights raw) I).
Proof.
  intros mean raw I Hl Hm [Hr Hw] Hp. destruct (pos_hyps raw I Hl Hr Hp) as [Hs Hnz].
  rewrite weight_scales_closed; auto;
    [| unfold norm_weights; rewrite map_length; exact Hl | apply Qc_pos_neq0; exact Hm].
  unfold norm_weights. apply Forall_map. apply scales_nonneg_aux; assumption.
Qed.

Lemma Qc_mul_neg_pos (a b : Qc) : a < 0 -> 0 < b -> a * b < 0.
Proof. unfold Qclt. rewrite Qc_this_mul. change (this 0) with 0%Q. nra. Qed.

(* a negative relative weight has a NEGATIVE squared scale: no real scaling realises the request *)
Theorem weight_scale_negative : forall mean w I k wk Ik,
  length w = length I -> 0 < mean -> qcsum I <> 0 -> Forall (fun x => 0 < x) I ->
  nth_error w k = Some wk -> nth_error I k = Some Ik -> wk < 0 ->
  exists s, nth_error (weight_scales mean w I) k = Some s /\ s < 0.
Proof.
  intros mean w I k wk Ik Hl Hm Hs Hp Hw HI Hneg.
  assert (Hnz : Forall (fun x => x <> 0) I) by (eapply Forall_impl; [|exact Hp]; apply Qc_pos_neq0).
  rewrite weight_scales_closed; auto; [|apply Qc_pos_neq0; exact Hm].
  exists (wk * mean / Ik). split.
  - rewrite nth_error_map.
    assert (E : nth_error (combine w I) k = Some (wk, Ik)).
    { clear - Hw HI. revert I k Hw HI. induction w as [|a w IH]; intros [|b I] [|k] Hw HI; cbn in *; try congruence.
      apply IH; assumption. }
    rewrite E. reflexivity.
  - rewrite Forall_forall in Hp. pose proof (Hp Ik (nth_error_In _ _ HI)) as HIk.
    unfold Qcdiv. apply Qc_mul_neg_pos; [apply Qc_mul_neg_pos; assumption | apply Qc_inv_pos; exact HIk].
Qed.

(* with the guard the code has (length only) the clause is false: a zero-sum request *)
Definition weights_unguarded_statement : Prop :=
  forall mean raw I, weights_guard_code raw I -> 0 < mean -> Forall (fun x => 0 < x) I ->
    qcsum (apply_weights mean (norm_weights raw) I) = mean.

Theorem weights_unguarded_refuted : ~ weights_unguarded_statement.
Proof.
  intros H. specialize (H 1 [1; - (1)] [1; 1] eq_refl).
  assert (H1 : 0 < (1 : Qc)) by reflexivity.
  assert (H2 : Forall (fun x : Qc => 0 < x) [1; 1]) by (repeat constructor).
  specialize (H H1 H2). apply (f_equal this) in H. vm_compute in H. discriminate H.
Qed.

(* a zero weight extinguishes its mode; the others share the whole mean intensity *)
Lemma weights_zero_weight_mode : forall mean raw I k,
  length raw = length I -> mean <> 0 -> qcsum raw <> 0 -> Forall (fun x => 0 < x) I ->
  nth_error raw k = Some 0 ->
  nth_error (apply_weights mean (norm_weights raw) I) k = Some 0.
Proof.
  intros mean raw I k Hl Hm Hr Hp Hk. rewrite weights_closed_form by assumption.
  rewrite nth_error_map, Hk. cbn [option_map]. f_equal. unfold Qcdiv. ring.
Qed.
