(* C13 — the zero-frequency repair on the concrete 4 x 4 pair of proof/C13_Proofs_Inst.v (Gaussian
   rationals): identical images through the derived theorem + the invariance theorem, on the arrays the
   repaired code forms (bin (0,0) of the cross spectrum zeroed); and the value of the model on the
   rolled pair. *)
From Coq Require Import ZArith Lia Ring QArith Qcanon Qround Psatz.
From QV.lib Require Import Prelude FinSum DFT DFT2 DFT_Inst.
From QV.model Require Import C13_Model.
From QV.proof Require Import C13_Proofs C13_Proofs_Est C13_Proofs_Swap C13_Proofs_DFT C13_Proofs_Inst C13_Proofs_CS
     C13_Proofs_CSInst C13_Proofs_DC.
Local Close Scope Q_scope.
Local Close Scope Qc_scope.

Notation spec4 := cc_spec4.
Notation ccQ04 := (ccQ0 C c0 cadd cmul cconj 4 w4 quarter 4 w4 quarter reC).
Notation np_window04 F := (np_window4 (zero00 C c0 F)).
Notation t_window04 F := (t_window4 (zero00 C c0 F)).

Lemma inst_identical_numpy_dc0 :
  exists a b : Q,
    np_shift 4 4 (Some 1%Q) 2 (ccQ04 ref4 ref4) (np_window04 (spec4 ref4 ref4) 2) = Some (a, b) /\
    (a == 0)%Q /\ (b == 0)%Q.
Proof.
  destruct cs_setting_instance as (Hr & Hc & H1 & H2 & Hre & Ha & Hn & Hd & He & Hec & Hew & Heu).
  destruct inst_identical_numpy_cs as (a & b & Es & Za & Zb).
  pose proof (numpy_zero_frequency_irrelevant C c0 c1 cadd cmul csub copp Hr cconj Hc 4 w4 quarter 4 w4 quarter
                H1 H2 reC Ha E4u He Hew ref4 ref4 (Some 1%Q) 2) as Hinv.
  rewrite Es in Hinv. destruct (res_eq_some_l _ _ _ Hinv) as (a' & b' & Es' & Ea & Eb).
  exists a', b'. split; [exact Es'|]. split; [rewrite <- Ea; exact Za | rewrite <- Eb; exact Zb].
Qed.

Lemma inst_identical_torch_dc0 :
  exists a b : Q,
    torch_shift 4 4 3 (ccQ04 ref4 ref4) (t_window04 (spec4 ref4 ref4) 3) = Some (a, b) /\
    (a == 0)%Q /\ (b == 0)%Q.
Proof.
  destruct cs_setting_instance as (Hr & Hc & H1 & H2 & Hre & Ha & Hn & Hd & He & Hec & Hew & Heu).
  destruct inst_identical_torch_cs as (a & b & Es & Za & Zb).
  pose proof (torch_zero_frequency_irrelevant C c0 c1 cadd cmul csub copp Hr cconj Hc 4 w4 quarter 4 w4 quarter
                H1 H2 reC Ha E4u He Hew Hre ref4 ref4 3) as Hinv.
  rewrite Es in Hinv. destruct (res_eq_some_l _ _ _ Hinv) as (a' & b' & Es' & Ea & Eb).
  exists a', b'. split; [exact Es'|]. split; [rewrite <- Ea; exact Za | rewrite <- Eb; exact Zb].
Qed.

(* the rolled pair (second image = first rolled by (1, 2)), no upsampling: the model on the zeroed-bin
   correlation evaluates to (-1, -2); the bin that was zeroed is not 0 (the images have a mean) *)
Lemma inst_integer_numpy_dc0_value :
  match np_shift 4 4 None 1 (ccQ04 ref4 im4) (fun _ _ _ _ => 0%Q) with
  | Some (a, b) => Qeq_bool a (-1) && Qeq_bool b (-2)
  | None => false
  end = true /\ Qeq_bool (reC (spec4 ref4 im4 0 0)) 0 = false.
Proof. split; vm_compute; reflexivity. Qed.
