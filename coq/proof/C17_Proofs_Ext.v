(* C17 — proofs about model/C17_Model_Ext.v : the reliability sort is a permutation (and
   sorted), the driver in the code's own order, congruence per component, grid edges spelled out *)
From QV.lib Require Import Prelude.
From QV.model Require Import C17_Model C17_Model_Ext.
From QV.proof Require Import C17_Proofs C17_Proofs_Unwrap.
From Coq Require Import QArith Qround Qabs Lqa Sorted.
Local Close Scope Q_scope.
Set Implicit Arguments.

(* ---------------------------------------------------------------- the sort *)
Lemma insert_kv_perm (A : Type) k (a : A) l : Permutation (insert_kv k a l) ((k, a) :: l).
Proof.
  induction l as [|[k' b] r IH]; cbn [insert_kv].
  - apply Permutation_refl.
  - destruct (Qle_bool k k').
    + apply Permutation_refl.
    + eapply perm_trans; [apply perm_skip; exact IH | apply perm_swap].
Qed.

Lemma isort_kv_perm (A : Type) (l : list (Q * A)) : Permutation (isort_kv l) l.
Proof.
  induction l as [|[k a] l IH]; cbn [isort_kv fold_right fst snd].
  - apply Permutation_refl.
  - eapply perm_trans; [apply insert_kv_perm | apply perm_skip; exact IH].
Qed.

Lemma sort_by_perm (A : Type) (key : A -> Q) (l : list A) : Permutation (sort_by key l) l.
Proof.
  unfold sort_by.
  eapply perm_trans; [apply Permutation_map; apply isort_kv_perm|].
  rewrite map_map. cbn [snd]. rewrite map_id. apply Permutation_refl.
Qed.

Definition kle (A : Type) (p q : Q * A) : Prop := (fst p <= fst q)%Q.

Lemma insert_kv_hd (A : Type) (p : Q * A) k a l :
  HdRel (@kle A) p l -> kle p (k, a) -> HdRel (@kle A) p (insert_kv k a l).
Proof.
  intros Hh Hp. destruct l as [|[k' b] r]; cbn [insert_kv].
  - constructor. exact Hp.
  - destruct (Qle_bool k k').
    + constructor. exact Hp.
    + constructor. inversion Hh; subst. assumption.
Qed.

Lemma insert_kv_sorted (A : Type) k (a : A) l :
  Sorted (@kle A) l -> Sorted (@kle A) (insert_kv k a l).
Proof.
  induction l as [|[k' b] r IH]; intros Hs; cbn [insert_kv].
  - constructor; constructor.
  - destruct (Qle_bool k k') eqn:E.
    + constructor; [exact Hs|]. constructor. unfold kle; cbn [fst].
      apply Qle_bool_iff. exact E.
    + inversion Hs as [|? ? Hs' Hh]; subst.
      constructor; [apply IH; exact Hs'|].
      apply insert_kv_hd; [exact Hh|]. unfold kle; cbn [fst].
      apply Qlt_le_weak. apply Qnot_le_lt. intros Hle. apply Qle_bool_iff in Hle. congruence.
Qed.

Lemma isort_kv_sorted (A : Type) (l : list (Q * A)) : Sorted (@kle A) (isort_kv l).
Proof.
  induction l as [|[k a] l IH]; cbn [isort_kv fold_right fst snd].
  - constructor.
  - apply insert_kv_sorted. exact IH.
Qed.

Lemma sorted_map_fst (A : Type) (l : list (Q * A)) : Sorted (@kle A) l -> Sorted Qle (map fst l).
Proof.
  induction 1 as [|p l Hs IH Hh]; cbn [map]; constructor; [exact IH|].
  destruct Hh as [|q l' Hq]; cbn [map]; constructor. exact Hq.
Qed.

(* argsort: the keys of the sorted list are ascending and belong to their elements *)
Lemma sort_keys_sorted (A : Type) (key : A -> Q) (l : list A) :
  Sorted Qle (map fst (isort_kv (map (fun a => (key a, a)) l))).
Proof. apply sorted_map_fst. apply isort_kv_sorted. Qed.

Lemma sort_keys_are_keys (A : Type) (key : A -> Q) (l : list A) :
  map fst (isort_kv (map (fun a => (key a, a)) l)) = map key (sort_by key l).
Proof.
  unfold sort_by. rewrite map_map. apply map_ext_in. intros p Hp.
  apply (Permutation_in _ (isort_kv_perm _)) in Hp.
  apply in_map_iff in Hp. destruct Hp as (a & <- & _). reflexivity.
Qed.

(* ---------------------------------------------------------------- the code's order *)
Lemma code_order_is_sort P H W wrap mask phi :
  code_order P H W wrap mask phi
  = sort_by (edge_key (rel_list P H W phi)) (grid_pairs H W wrap mask).
Proof. reflexivity. Qed.

Lemma code_order_perm P H W wrap mask phi :
  Permutation (code_order P H W wrap mask phi) (grid_pairs H W wrap mask).
Proof. rewrite code_order_is_sort. apply sort_by_perm. Qed.

Lemma code_keys_sorted P H W wrap mask phi :
  Sorted Qle (code_keys P H W wrap mask phi) /\
  code_keys P H W wrap mask phi
  = map (edge_key (rel_list P H W phi)) (code_order P H W wrap mask phi).
Proof.
  split.
  - unfold code_keys, code_sorted. cbv zeta. apply sort_keys_sorted.
  - unfold code_keys, code_sorted. cbv zeta. rewrite code_order_is_sort. apply sort_keys_are_keys.
Qed.

(* the driver in its own order: smooth field recovered per component *)
Theorem unwrap_code_correct P H W wrap mask (phi phiw : nat -> Q) (K : nat -> Z) :
  (0 < P)%Q ->
  (forall x y, In (x, y) (grid_pairs H W wrap mask) -> (Qabs (phi x - phi y) < P)%Q) ->
  (forall x, (phiw x == phi x - 2 * P * inject_Z (K x))%Q) ->
  (forall x y, In (x, y) (grid_pairs H W wrap mask) -> (Qabs (phiw x - phiw y) < 2 * P)%Q) ->
  exists out c,
    unwrap_code P H W wrap mask phiw = Some out /\ length out = H * W /\
    (forall x y, conn (prel (grid_pairs H W wrap mask)) x y -> (c x == c y)%Q) /\
    (forall x, x < H * W -> (nth x out 0 == phi x + c x)%Q).
Proof.
  intros HP Hs Hw Hr. unfold unwrap_code.
  apply (@unwrap_correct_grid P H W wrap mask (code_order P H W wrap mask phiw) phi phiw K HP
           (code_order_perm P H W wrap mask phiw) Hs Hw Hr).
Qed.

Lemma perm_prange n (ps qs : list (nat * nat)) : Permutation ps qs -> prange n qs -> prange n ps.
Proof. intros Hp Hr x y Hxy. apply Hr. eapply Permutation_in; eauto. Qed.

Lemma code_order_range P H W wrap mask phi : prange (H * W) (code_order P H W wrap mask phi).
Proof. eapply perm_prange; [apply code_order_perm | apply grid_pairs_range]. Qed.

Theorem unwrap_code_congruent P H W wrap mask (phiw : nat -> Q) :
  exists out c0,
    unwrap_code P H W wrap mask phiw = Some out /\ length out = H * W /\
    forall x, x < H * W -> exists k : Z, (nth x out 0 - phiw x == 2 * P * inject_Z k + c0)%Q.
Proof. unfold unwrap_code. apply unwrap_congruent. apply code_order_range. Qed.

Theorem unwrap_code_smooth_unchanged P H W wrap mask (phi : nat -> Q) :
  (forall x y, In (x, y) (grid_pairs H W wrap mask) -> (Qabs (phi x - phi y) <= P)%Q) ->
  exists out c0, unwrap_code P H W wrap mask phi = Some out /\ length out = H * W /\
                 forall x, x < H * W -> (nth x out 0 == phi x + c0)%Q.
Proof.
  intros Hs. unfold unwrap_code.
  apply (@smooth_unchanged P (H * W) (code_order P H W wrap mask phi)
           (code_order_range P H W wrap mask phi) phi).
  intros x y Hxy. apply Hs. eapply Permutation_in; [apply code_order_perm | exact Hxy].
Qed.

(* ---------------------------------------------------------------- congruence per component *)
Lemma walk_mono (M M' : list edge) x y s :
  (forall e, In e M -> In e M') -> walk M x y s -> walk M' x y s.
Proof.
  intros Hi Hw. induction Hw as [x | x y z i s Hin _ IH | x y z i s Hin _ IH].
  - apply walk_nil.
  - eapply walk_fwd; [apply Hi; exact Hin | exact IH].
  - eapply walk_bwd; [apply Hi; exact Hin | exact IH].
Qed.

(* for ANY input and several components: out = phiw + 2P * pot + c0 with ONE constant c0; every
   component contains a pixel with multiple 0, and inside a component the multiples differ by the
   signed sum of the _find_wrap increments along a walk through edges of the graph *)
Theorem unwrap_congruent_components P n ps (phiw : nat -> Q) :
  prange n ps ->
  exists out pot c0,
    unwrap P n phiw ps = Some out /\ length out = n /\
    (forall x, x < n -> (nth x out 0 == phiw x + 2 * P * inject_Z (pot x) + c0)%Q) /\
    (forall x, exists r, conn (prel ps) x r /\ pot r = 0%Z) /\
    (forall x y, conn (prel ps) x y ->
       exists s, walk (incs_of P phiw ps) x y s /\ (pot x - pot y)%Z = s).
Proof.
  intros Hrange.
  destruct (@uf_offsets_spec n _ (@incs_inrange P phiw n ps Hrange))
    as (st & rt & pot & _ & O & _ & HI & C1 & C2 & P2).
  destruct (@unwrap_raw_eq P n phiw ps pot O) as (out & R & L & Hout).
  destruct (@unwrap_of_raw P n phiw ps out R L) as (out' & R' & L' & Hout').
  exists out', pot, (- meanQ out)%Q.
  split; [exact R'|]. split; [exact L'|]. split; [|split].
  - intros x Hx. rewrite (Hout' x Hx), (Hout x Hx). ring.
  - intros x. exists (rt x). destruct (root_fixed x HI) as [E1 E2]. split; [|exact E2].
    apply (proj1 (conn_incs P phiw ps x (rt x))). apply (proj1 (C1 x (rt x))). congruence.
  - intros x y Hc. apply (proj2 (conn_incs P phiw ps x y)) in Hc.
    apply (proj1 (C2 x y)) in Hc. apply conn_walk in Hc. destruct Hc as [s Hw].
    exists s. split.
    + eapply walk_mono; [|exact Hw]. intros e He. eapply merged_incl. exact He.
    + eapply walk_pot; eauto.
Qed.

(* a pixel that no edge touches (masked out, or a single-pixel component) is its own component *)
Lemma conn_isolated (E : nat -> nat -> Prop) x :
  (forall y, ~ E x y /\ ~ E y x) -> forall a b, conn E a b -> (a = x <-> b = x).
Proof.
  intros Hiso a b Hc. induction Hc as [p | p q Hpq | p q _ IH | p q r _ IH1 _ IH2].
  - tauto.
  - split; intros ->; exfalso; [apply (proj1 (Hiso q)) | apply (proj2 (Hiso p))]; exact Hpq.
  - tauto.
  - tauto.
Qed.

(* ... so it comes back as its wrapped value plus the global constant *)
Theorem unwrap_isolated_pixel P n ps (phiw : nat -> Q) :
  prange n ps ->
  exists out c0,
    unwrap P n phiw ps = Some out /\
    forall x, x < n -> (forall y, ~ In (x, y) ps /\ ~ In (y, x) ps) ->
              (nth x out 0 == phiw x + c0)%Q.
Proof.
  intros Hrange.
  destruct (@unwrap_congruent_components P n ps phiw Hrange) as (out & pot & c0 & R & _ & Ho & Hr & _).
  exists out, c0. split; [exact R|]. intros x Hx Hiso.
  destruct (Hr x) as (r & Hc & Hz).
  assert (r = x) as -> by (apply (proj1 (@conn_isolated (prel ps) x Hiso x r Hc)); reflexivity).
  rewrite (Ho x Hx), Hz. change (inject_Z 0) with 0%Q. ring.
Qed.

(* ---------------------------------------------------------------- the grid edges spelled out *)
(* bounded grid: right neighbour in the same row, lower neighbour in the same column *)
Lemma grid_pairs_bounded_spec H W mask x y :
  In (x, y) (grid_pairs H W false mask) <->
  x < H * W /\ mask x = true /\ mask y = true /\
  ((y = x + 1 /\ x mod W + 1 < W) \/ (y = x + W /\ x / W + 1 < H)).
Proof.
  unfold grid_pairs. cbv zeta. rewrite filter_In, in_app_iff, !in_map_iff. cbn [fst snd].
  rewrite andb_true_iff. split.
  - intros [[(i & E & Hi) | (i & E & Hi)] [Hx Hy]]; injection E as -> <-;
      apply filter_In in Hi; destruct Hi as [Hi Hc]; apply in_seq in Hi; apply Nat.ltb_lt in Hc.
    + repeat split; auto; try lia.
    + repeat split; auto; try lia.
  - intros (Hx & Mx & My & [[-> Hc] | [-> Hc]]).
    + split; [|auto]. left. exists x. split; [reflexivity|]. apply filter_In. split.
      * apply in_seq. lia.
      * apply Nat.ltb_lt. exact Hc.
    + split; [|auto]. right. exists x. split; [reflexivity|]. apply filter_In. split.
      * apply in_seq. lia.
      * apply Nat.ltb_lt. exact Hc.
Qed.

(* periodic grid: the neighbours are taken modulo the row length / the number of rows *)
Lemma grid_pairs_periodic_spec H W mask x y :
  In (x, y) (grid_pairs H W true mask) <->
  x < H * W /\ mask x = true /\ mask y = true /\
  (y = (x / W) * W + (x mod W + 1) mod W \/ y = ((x / W + 1) mod H) * W + x mod W).
Proof.
  unfold grid_pairs. cbv zeta. rewrite filter_In, in_app_iff, !in_map_iff. cbn [fst snd].
  rewrite andb_true_iff. split.
  - intros [[(i & E & Hi) | (i & E & Hi)] [Hx Hy]]; injection E as -> <-; apply in_seq in Hi.
    + repeat split; auto; try lia.
    + repeat split; auto; try lia.
  - intros (Hx & Mx & My & [-> | ->]).
    + split; [|auto]. left. exists x. split; [reflexivity|]. apply in_seq. lia.
    + split; [|auto]. right. exists x. split; [reflexivity|]. apply in_seq. lia.
Qed.

Lemma grid_pairs_mask H W wrap mask x y :
  In (x, y) (grid_pairs H W wrap mask) -> mask x = true /\ mask y = true.
Proof.
  unfold grid_pairs. cbv zeta. intros Hin. apply filter_In in Hin. destruct Hin as [_ Hm].
  cbn [fst snd] in Hm. apply andb_true_iff in Hm. exact Hm.
Qed.

(* ---------------------------------------------------------------- harness observables *)
(* the combined observable used by the harness is the pair (uf_offsets, uf_state) *)
Lemma uf_run_obs_spec n es :
  option_map fst (uf_run_obs n es) = uf_offsets n es /\
  (forall o s, uf_run_obs n es = Some (o, s) -> uf_state n es = Some s).
Proof.
  unfold uf_run_obs, uf_offsets, uf_state.
  destruct (run (fuel_of es) (uf_init n) es) as [st|]; [|split; [reflexivity | discriminate]].
  destruct (final_offsets (fuel_of es) st n) as [o|]; cbn [option_map fst].
  - split; [reflexivity|]. intros o' s' E. inversion E; subst. reflexivity.
  - split; [reflexivity | discriminate].
Qed.

(* the trace is the sequence of states of the runs on the prefixes *)
Lemma uf_trace_from_spec fuel es : forall st k s,
  nth_error (uf_trace_from fuel st es) k = Some (Some s) ->
  exists st', run fuel st (firstn (S k) es) = Some st' /\ s = st_z st'.
Proof.
  induction es as [|[[x y] i] r IH]; intros st k s Hk.
  - destruct k; discriminate.
  - cbn [uf_trace_from] in Hk. cbn [firstn run].
    destruct (union fuel st x y i) as [st1|] eqn:U.
    + destruct k as [|k]; cbn [nth_error] in Hk.
      * inversion Hk; subst. exists st1. cbn [firstn run]. split; reflexivity.
      * apply IH in Hk. exact Hk.
    + destruct k as [|k]; cbn [nth_error] in Hk; [discriminate|]. destruct k; discriminate.
Qed.

(* ---------------------------------------------------------------- statements as exported *)
Lemma sort_permutation_full :
  forall (A : Type) (key : A -> Q) (l : list A),
    Permutation (sort_by key l) l /\
    Sorted Qle (map fst (isort_kv (map (fun a => (key a, a)) l))) /\
    map fst (isort_kv (map (fun a => (key a, a)) l)) = map key (sort_by key l).
Proof.
  intros A key l. split; [apply sort_by_perm|]. split; [apply sort_keys_sorted | apply sort_keys_are_keys].
Qed.

Lemma code_order_full :
  forall (P : Q) (H W : nat) (wrap : bool) (mask : nat -> bool) (phi : nat -> Q),
    Permutation (code_order P H W wrap mask phi) (grid_pairs H W wrap mask) /\
    Sorted Qle (code_keys P H W wrap mask phi) /\
    code_keys P H W wrap mask phi
    = map (edge_key (rel_list P H W phi)) (code_order P H W wrap mask phi).
Proof.
  intros. split; [apply code_order_perm | apply code_keys_sorted].
Qed.

Lemma grid_edges_full :
  forall (H W : nat) (mask : nat -> bool) (x y : nat),
    (In (x, y) (grid_pairs H W false mask) <->
     x < H * W /\ mask x = true /\ mask y = true /\
     ((y = x + 1 /\ x mod W + 1 < W) \/ (y = x + W /\ x / W + 1 < H))) /\
    (In (x, y) (grid_pairs H W true mask) <->
     x < H * W /\ mask x = true /\ mask y = true /\
     (y = (x / W) * W + (x mod W + 1) mod W \/ y = ((x / W + 1) mod H) * W + x mod W)).
Proof.
  intros. split; [apply grid_pairs_bounded_spec | apply grid_pairs_periodic_spec].
Qed.

Lemma unwrap_congruent_components_full :
  forall (P : Q) (n : nat) (ps : list (nat * nat)) (phiw : nat -> Q),
    prange n ps ->
    exists (out : list Q) (pot : nat -> Z) (c0 : Q),
      unwrap P n phiw ps = Some out /\ length out = n /\
      (forall x, x < n -> (nth x out 0%Q == phiw x + 2 * P * inject_Z (pot x) + c0)%Q) /\
      (forall x, exists r, conn (prel ps) x r /\ pot r = 0%Z) /\
      (forall x y, conn (prel ps) x y ->
         exists s, walk (incs_of P phiw ps) x y s /\ (pot x - pot y)%Z = s).
Proof. intros P n ps phiw. apply unwrap_congruent_components. Qed.

Lemma unwrap_isolated_pixel_full :
  forall (P : Q) (n : nat) (ps : list (nat * nat)) (phiw : nat -> Q),
    prange n ps ->
    exists (out : list Q) (c0 : Q),
      unwrap P n phiw ps = Some out /\
      forall x, x < n -> (forall y, ~ In (x, y) ps /\ ~ In (y, x) ps) ->
                (nth x out 0%Q == phiw x + c0)%Q.
Proof. intros P n ps phiw. apply unwrap_isolated_pixel. Qed.

Lemma harness_observables_full :
  forall (n : nat) (es : list edge),
    option_map fst (uf_run_obs n es) = uf_offsets n es /\
    (forall o s, uf_run_obs n es = Some (o, s) -> uf_state n es = Some s) /\
    (forall k s, nth_error (uf_trace n es) k = Some (Some s) ->
       exists st', run (fuel_of es) (uf_init n) (firstn (S k) es) = Some st' /\ s = st_z st').
Proof.
  intros n es. destruct (uf_run_obs_spec n es) as [A B]. split; [exact A|]. split; [exact B|].
  intros k s Hk. unfold uf_trace in Hk. eapply uf_trace_from_spec. exact Hk.
Qed.
