(* C01 / C14 — the load side, part 2: shape of the group written for each container / object,
   marker dispatch of the two sub-group chains, and decoding of object, sequence and dict groups
   given what their entries decode to. *)
From QV.lib Require Import Prelude.
From QV.model Require Import C01_Model.
From QV.proof Require Import C01_Proofs_Base C01_Proofs_Enc C01_Proofs_Dec.
From Coq Require Import String Ascii.
Local Open Scope string_scope.
Local Open Scope list_scope.

(* ------------------------------------------------------------------ lookups on literal keys *)
Lemma lookup_cons_eq {A} k (x : A) m : lookup k ((k, x) :: m) = Some x.
Proof. cbn [lookup]. rewrite String.eqb_refl. reflexivity. Qed.
Lemma lookup_cons_ne {A} k k' (x : A) m : k <> k' -> lookup k ((k', x) :: m) = lookup k m.
Proof. intros H. cbn [lookup]. apply String.eqb_neq in H. rewrite H. reflexivity. Qed.
Ltac lk := repeat first [rewrite lookup_cons_eq | rewrite lookup_cons_ne by discriminate].

(* ------------------------------------------------------------------ key_ok consequences *)
Definition kok (k : string) : Prop := key_ok k = true.

Lemma kok_parts k : kok k ->
  mem k reserved = false /\ ends_with k ".is_path" = false /\ ends_with k ".torch_save" = false.
Proof.
  unfold kok, key_ok. intros H. repeat (apply andb_true_iff in H; destruct H as [H ?]).
  repeat split; apply negb_true_iff; assumption.
Qed.
Lemma kok_plain k : kok k -> plain k.
Proof. intros H. apply kok_parts in H. unfold plain. tauto. Qed.
Lemma kok_not_reserved k name : kok k -> mem name reserved = true -> k <> name.
Proof. intros H Hn ->. apply kok_parts in H. destruct H as [H _]. congruence. Qed.
Lemma kok_obj_meta k : kok k -> obj_meta_attr k = false.
Proof.
  intros H. pose proof (kok_not_reserved k "_autoserialize" H eq_refl) as H1.
  pose proof (kok_not_reserved k "_autoserialize_skip_names" H eq_refl) as H2.
  pose proof (kok_not_reserved k "_autoserialize_skip_types" H eq_refl) as H3.
  apply kok_parts in H. destruct H as (_ & Hp & Ht). unfold obj_meta_attr.
  apply String.eqb_neq in H1, H2, H3. rewrite H1, H2, H3, Hp, Ht. reflexivity.
Qed.
Lemma kok_dict_meta k : kok k -> dict_meta_attr k = false.
Proof.
  intros H. pose proof (kok_not_reserved k "_container_type" H eq_refl) as H1.
  apply kok_parts in H. destruct H as (_ & Hp & Ht). unfold dict_meta_attr.
  apply String.eqb_neq in H1. rewrite H1, Hp, Ht. reflexivity.
Qed.

Lemma reserved_plain name : mem name reserved = true -> plain name.
Proof.
  intros H. apply mem_In in H. unfold reserved in H. cbn [In] in H.
  repeat (destruct H as [<-|H]; [reflexivity|]). destruct H.
Qed.
Lemma reserved_idx name : mem name reserved = true -> idx_of name = None.
Proof.
  intros H. apply mem_In in H. unfold reserved in H. cbn [In] in H.
  repeat (destruct H as [<-|H]; [reflexivity|]). destruct H.
Qed.
Lemma str_of_not_reserved i name : mem name reserved = true -> str_of i <> name.
Proof. intros H He. apply reserved_idx in H. rewrite <- He, idx_of_str_of in H. discriminate. Qed.

(* an attribute map that contains none of the serializer's marker names *)
Definition clean (a : smap jval) : Prop := forall name, mem name reserved = true -> lookup name a = None.

Lemma clean_nil : clean [].
Proof. intros name _. reflexivity. Qed.

Lemma clean_app a b : clean a -> clean b -> clean (a ++ b).
Proof. intros Ha Hb name H. rewrite lookup_app, (Ha name H). apply Hb. exact H. Qed.

Lemma clean_pieces es :
  Forall plain (ekeys es) -> (forall k name, In k (ekeys es) -> mem name reserved = true -> k <> name) ->
  clean (n_attrs (pieces es)).
Proof.
  intros Hpl Hne name Hr.
  destruct (pieces_absent es name Hpl (reserved_plain name Hr)) as (H & _); [|exact H].
  intros Hi. exact (Hne name name Hi Hr eq_refl).
Qed.

Lemma clean_pieces_kok es : Forall kok (ekeys es) -> clean (n_attrs (pieces es)).
Proof.
  intros H. rewrite Forall_forall in H. apply clean_pieces.
  - apply Forall_forall. intros k Hk. apply kok_plain. apply H. exact Hk.
  - intros k name Hk. apply kok_not_reserved. apply H. exact Hk.
Qed.

Lemma clean_pieces_items i l : clean (n_attrs (pieces (ientries i l))).
Proof.
  apply clean_pieces; [apply ientries_plain|].
  intros k name Hk Hr. rewrite ekeys_ientries in Hk. apply in_map_iff in Hk. destruct Hk as [j [<- _]].
  apply str_of_not_reserved. exact Hr.
Qed.

Lemma clean_meta meta : meta_ok meta = true -> clean meta.
Proof.
  unfold meta_ok. intros H name Hr. apply andb_true_iff in H. destruct H as [_ H].
  apply lookup_notin. intros Hi. rewrite forallb_forall in H. specialize (H name Hi).
  rewrite Hr in H. discriminate.
Qed.

(* ------------------------------------------------------------------ shapes of written groups *)
Definition hgroup (hd : string * jval) (es : list (string * value)) (extra : smap jval) : node :=
  Group (hd :: n_attrs (pieces es) ++ extra) (n_arrays (pieces es)) (n_groups (pieces es)).

Lemma fresh_single k k0 (x : jval) : k <> k0 -> sapp k ".is_path" <> k0 -> fresh k (Group [(k0, x)] [] []).
Proof.
  intros H1 H2. unfold fresh. cbn [n_attrs n_arrays n_groups]. rewrite !lookup_cons_ne by assumption.
  repeat split.
Qed.

Lemma fold_entries_hgroup k0 x es :
  NoDup (ekeys es) -> Forall plain (ekeys es) -> plain k0 -> ~ In k0 (ekeys es) ->
  fold_entries E es (Group [(k0, x)] [] []) = hgroup (k0, x) es [].
Proof.
  intros Hnd Hpl Hp0 Hn. rewrite fold_entries_pieces; [| exact Hnd | exact Hpl |].
  - unfold hgroup, napp. cbn [n_attrs n_arrays n_groups app]. rewrite app_nil_r. reflexivity.
  - rewrite Forall_forall in *. intros k Hk. apply fresh_single.
    + intros ->. exact (Hn Hk).
    + intros He. exact (plain_neq_flag _ _ Hp0 (eq_sym He)).
Qed.

Lemma wf_fields_keys b l :
  (nodupb (map fst l) && forallb (fun kv : string * value => key_ok (fst kv)) l
   && forallb (fun kv => wf_value b (snd kv)) l)%bool = true ->
  NoDup (ekeys l) /\ Forall kok (ekeys l) /\ (forall k v, In (k, v) l -> wf_value b v = true).
Proof.
  intros H. apply andb_true_iff in H. destruct H as [H H3]. apply andb_true_iff in H. destruct H as [H1 H2].
  split; [apply nodupb_NoDup; exact H1|]. split.
  - apply Forall_forall. intros k Hk. unfold ekeys in Hk. apply in_map_iff in Hk. destruct Hk as [[k' v] [<- Hi]].
    rewrite forallb_forall in H2. exact (H2 _ Hi).
  - intros k v Hi. rewrite forallb_forall in H3. exact (H3 _ Hi).
Qed.

Lemma kok_Forall_plain ks : Forall kok ks -> Forall plain ks.
Proof. apply Forall_impl. intros k. apply kok_plain. Qed.

Lemma kok_notin ks name : Forall kok ks -> mem name reserved = true -> ~ In name ks.
Proof. intros H Hr Hi. rewrite Forall_forall in H. exact (kok_not_reserved name name (H _ Hi) Hr eq_refl). Qed.

Lemma subg_obj m c l :
  NoDup (ekeys l) -> Forall kok (ekeys l) ->
  subg (VObj m c l) = hgroup ("_autoserialize", autoserialize_meta m c) l [].
Proof.
  intros Hnd Hk. cbn [subg]. unfold encode_fields. cbn [empty_group n_attrs has_key lookup set_attr set_key].
  rewrite fold_fields_noskip. apply fold_entries_hgroup;
    [exact Hnd | apply kok_Forall_plain; exact Hk | reflexivity | apply kok_notin; [exact Hk | reflexivity]].
Qed.

Lemma subg_dict l :
  NoDup (ekeys l) -> Forall kok (ekeys l) -> subg (VDict l) = hgroup ("_container_type", JStr "dict") l [].
Proof.
  intros Hnd Hk. cbn [subg]. unfold encode_dict. cbn [empty_group set_attr set_key].
  apply fold_entries_hgroup;
    [exact Hnd | apply kok_Forall_plain; exact Hk | reflexivity | apply kok_notin; [exact Hk | reflexivity]].
Qed.

Lemma items_notin i l name : mem name reserved = true -> ~ In name (ekeys (ientries i l)).
Proof.
  intros Hr Hi. rewrite ekeys_ientries in Hi. apply in_map_iff in Hi. destruct Hi as [j [He _]].
  exact (str_of_not_reserved j name Hr He).
Qed.

Definition fast_group (ct : string) (r : rcat) (ns : list num) : node :=
  Group [("_container_type", JStr ct); ("_sequence_encoding", JStr "ndarray")]
        [("values", write_ndarray (mkArr (rcat_name r) [Z.of_nat (List.length ns)] (ANums ns)))] [].

Lemma encode_seq_shape ct l :
  encode_seq E ct l empty_group =
  match numeric_seq l with
  | Some (r, ns) => fast_group ct r ns
  | None => hgroup ("_container_type", JStr ct) (ientries 0 l) []
  end.
Proof.
  unfold encode_seq. destruct (numeric_seq l) as [[r ns]|]; [reflexivity|].
  rewrite fold_items_entries. cbn [empty_group set_attr set_key].
  apply fold_entries_hgroup; [apply ientries_NoDup | apply ientries_plain | reflexivity | apply items_notin; reflexivity].
Qed.

Lemma subg_list l : subg (VList l) = match numeric_seq l with
                                      | Some (r, ns) => fast_group "list" r ns
                                      | None => hgroup ("_container_type", JStr "list") (ientries 0 l) [] end.
Proof. apply encode_seq_shape. Qed.
Lemma subg_tuple l : subg (VTuple l) = match numeric_seq l with
                                       | Some (r, ns) => fast_group "tuple" r ns
                                       | None => hgroup ("_container_type", JStr "tuple") (ientries 0 l) [] end.
Proof. apply encode_seq_shape. Qed.
Lemma subg_set l : subg (VSet l) = match numeric_seq l with
                                   | Some (r, ns) => fast_group "set" r ns
                                   | None => hgroup ("_container_type", JStr "set") (ientries 0 l) [] end.
Proof.
  cbn [subg]. rewrite encode_seq_shape. destruct (numeric_seq l) as [[r ns]|]; reflexivity.
Qed.

(* ------------------------------------------------------------------ marker dispatch *)
Section Dispatch.
  Variables (st : list string) (dobj dcont : node -> res).

  Lemma obj_sub_autoser x rest r s :
    clean rest ->
    obj_sub st dobj dcont (Group (("_autoserialize", x) :: rest) r s) =
    match class_of (("_autoserialize", x) :: rest) with
    | Some (m, c) => if mem (cls_name m c) st then RSkip
                     else type_checked st (dobj (Group (("_autoserialize", x) :: rest) r s))
    | None => RErr
    end.
  Proof.
    intros Hc. unfold obj_sub. cbn [n_attrs]. unfold has_key. lk. rewrite !Hc by reflexivity. reflexivity.
  Qed.

  Lemma cont_sub_autoser x rest r s :
    clean rest ->
    cont_sub dobj dcont (Group (("_autoserialize", x) :: rest) r s) = dobj (Group (("_autoserialize", x) :: rest) r s).
  Proof.
    intros Hc. unfold cont_sub. cbn [n_attrs]. unfold has_key. lk. rewrite !Hc by reflexivity. reflexivity.
  Qed.

  Lemma obj_sub_container ct rest r s :
    clean rest ->
    obj_sub st dobj dcont (Group (("_container_type", JStr ct) :: rest) r s) =
    type_checked st (dcont (Group (("_container_type", JStr ct) :: rest) r s)).
  Proof.
    intros Hc. unfold obj_sub. cbn [n_attrs]. unfold has_key. lk. rewrite !Hc by reflexivity. reflexivity.
  Qed.

  Lemma cont_sub_container ct rest r s :
    cont_sub dobj dcont (Group (("_container_type", JStr ct) :: rest) r s) =
    dcont (Group (("_container_type", JStr ct) :: rest) r s).
  Proof. unfold cont_sub. cbn [n_attrs]. unfold has_key. lk. reflexivity. Qed.

  Lemma obj_sub_blob k meta r s :
    clean meta ->
    obj_sub st dobj dcont (Group ((marker_of k, JBool true) :: meta) r s) =
    type_checked st (decode_blob k (Group ((marker_of k, JBool true) :: meta) r s)).
  Proof.
    intros Hc. unfold obj_sub. cbn [n_attrs]. unfold has_key.
    destruct k; cbn [marker_of]; lk; rewrite ?Hc by reflexivity; reflexivity.
  Qed.

  Lemma cont_sub_blob k meta r s :
    clean meta -> (k = BTensor \/ k = BModule) ->
    cont_sub dobj dcont (Group ((marker_of k, JBool true) :: meta) r s) =
    decode_blob k (Group ((marker_of k, JBool true) :: meta) r s).
  Proof.
    intros Hc Hk. unfold cont_sub. cbn [n_attrs]. unfold has_key.
    destruct Hk as [-> | ->]; cbn [marker_of]; lk; rewrite ?Hc by reflexivity; reflexivity.
  Qed.
End Dispatch.

(* ------------------------------------------------------------------ blobs, loggers, rngs *)
Lemma set_attrs_fresh l a :
  NoDup (keys (a ++ l)) -> set_attrs l (Group a [] []) = Group (a ++ l) [] [].
Proof.
  revert a. induction l as [|[k j] r IH]; intros a Hnd; cbn [set_attrs]; [rewrite app_nil_r; reflexivity|].
  cbn [set_attr]. rewrite set_key_absent.
  - rewrite IH; rewrite <- app_assoc; [reflexivity | exact Hnd].
  - apply lookup_notin. rewrite keys_app in Hnd. cbn [keys map fst] in Hnd.
    apply NoDup_remove_2 in Hnd. intros Hi. apply Hnd. apply in_or_app. left. exact Hi.
Qed.

Lemma subg_blob k tys meta h :
  meta_ok meta = true ->
  subg (VBlob k tys meta h) =
  Group ((marker_of k, JBool true) :: meta) [(payload_of k, mkSArr (mkArr "uint8" [1%Z] (ABytes "torch" tys h)) [])] [].
Proof.
  intros Hm. cbn [subg]. unfold encode_blob. cbn [set_attrs empty_group set_attr set_key].
  rewrite (set_attrs_fresh meta [(marker_of k, JBool true)]).
  - reflexivity.
  - cbn [app keys map fst]. unfold meta_ok in Hm. apply andb_true_iff in Hm. destruct Hm as [Hn Hr].
    constructor; [|apply nodupb_NoDup; exact Hn].
    intros Hi. rewrite forallb_forall in Hr. specialize (Hr _ Hi). destruct k; discriminate Hr.
Qed.

Lemma decode_blob_subg k tys meta h :
  meta_ok meta = true ->
  decode_blob k (Group ((marker_of k, JBool true) :: meta)
                       [(payload_of k, mkSArr (mkArr "uint8" [1%Z] (ABytes "torch" tys h)) [])] []) =
  RVal (VBlob k tys meta h).
Proof.
  intros Hm. unfold decode_blob. cbn [n_arrays n_attrs]. rewrite lookup_cons_eq.
  cbn [array_to_np s_arr a_shape has_zero existsb Z.eqb orb a_data String.eqb Ascii.eqb Bool.eqb filter fst].
  rewrite String.eqb_refl. cbn [negb]. do 2 f_equal.
  unfold meta_ok in Hm. apply andb_true_iff in Hm. destruct Hm as [_ Hr]. rewrite forallb_forall in Hr.
  unfold keys in Hr.
  assert (H : forall kj, In kj meta -> negb (String.eqb (fst kj) (marker_of k)) = true).
  { intros kj Hi. apply negb_true_iff. apply String.eqb_neq. intros He.
    specialize (Hr (fst kj) (in_map fst _ _ Hi)). rewrite He in Hr. destruct k; discriminate Hr. }
  clear Hr. induction meta as [|x r IH]; cbn [filter]; [reflexivity|].
  rewrite (H x (or_introl eq_refl)), IH; [reflexivity|]. intros kj Hi. apply H. right. exact Hi.
Qed.

(* ------------------------------------------------------------------ unfolding equations of the two decoders *)
Definition arr_step (sn st : list string) (ks : string * sarr) : list (string * value) :=
  match ks with (k, sa) =>
    if mem k sn then [] else let v := array_value sa in if mem (exact_ty v) st then [] else [(k, v)] end.

Lemma decode_obj_eq sn st a r s :
  decode_obj sn st (Group a r s) =
  match class_of a with
  | None => RErr
  | Some (m, c) =>
    match collect_kv (map_groups (fun sub => obj_sub st (decode_obj sn st) decode_container sub) (fun k => mem k sn) s) with
    | None => RErr
    | Some fgv =>
      RVal (VObj m c (filter (fun kv => negb (mem (fst kv) sn))
                             (flat_map (attr_step a (fun k => obj_meta_attr k || mem k sn)) a
                              ++ flat_map (arr_step sn st) r ++ fgv)))
    end
  end.
Proof. reflexivity. Qed.

Definition seq_items (a : smap jval) (r : smap sarr) (s : list (string * node)) : option (list value) :=
  let dg := map_groups (fun sub => cont_sub (decode_obj [] []) decode_container sub) (fun _ => false) s in
  match (if String.eqb (jstr_or (lookup "_sequence_encoding" a) "") "ndarray" then lookup "values" r else None) with
  | Some sa => match a_data (array_to_np sa) with ANums ns => Some (map of_num ns) | _ => None end
  | None => collect (map (fun i => item_at a r dg (str_of i)) (seq 0 (seq_len (keys a ++ keys r ++ keys s))))
  end.

Lemma decode_container_eq a r s :
  decode_container (Group a r s) =
  match lookup "_container_type" a with
  | Some (JStr ct) =>
    if String.eqb ct "list" || String.eqb ct "tuple" || String.eqb ct "set" then
      match seq_items a r s with
      | None => RErr
      | Some vs => RVal (if String.eqb ct "list" then VList vs else if String.eqb ct "tuple" then VTuple vs else VSet vs)
      end
    else if String.eqb ct "dict" then
      match collect_kv (map_groups (fun sub => cont_sub (decode_obj [] []) decode_container sub) (fun _ => false) s) with
      | None => RErr
      | Some fgv =>
        RVal (VDict (flat_map (attr_step a dict_meta_attr) a
                     ++ map (fun ks => match ks with (k, sa) => (k, array_raw sa) end) r ++ fgv))
      end
    else RErr
  | _ => RErr
  end.
Proof. reflexivity. Qed.
