(* C13 — swapping the two images.  The correlation array of the swapped pair is the point
   reflection cc'[k,l] = cc[-k,-l] (proof/C13_Proofs_DFT.v); here: the NumPy estimator (every
   upsampling factor) and the torch estimator (factors <= 2) then return the negated shift, except
   at the single asymmetric point -n/2 of the half-open cell [-n/2, n/2), where both calls
   return -n/2 (which is its own negative modulo n).  Q / Z / nat; no axioms. *)
From QV.lib Require Import Prelude.
From QV.model Require Import C13_Model.
From QV.proof Require Import C13_Proofs C13_Proofs_Est.
From Coq Require Import QArith Qround Qabs Psatz.
Local Close Scope Q_scope.
Set Implicit Arguments.

Local Notation "x ==q y" := (Qeq x y) (at level 70, no associativity).

Definition negi (n k : nat) : nat := wrapi n (- Z.of_nat k).

Definition reflected_of (M N : nat) (cc cc' : nat -> nat -> Q) : Prop :=
  forall k l, k < M -> l < N -> cc' k l ==q cc (negi M k) (negi N l).

Lemma negi_lt n k : 0 < n -> negi n k < n.
Proof. intros H. apply wrapi_lt. exact H. Qed.

Lemma negi_invol n k : k < n -> negi n (negi n k) = k.
Proof.
  intros H. assert (Hn : 0 < n) by lia. unfold negi. rewrite (wrapi_neg_wrapi _ Hn).
  rewrite Z.opp_involutive. apply wrapi_small. exact H.
Qed.

Lemma prv_negi n k : 0 < n -> prv n (negi n k) = negi n (nxt n k).
Proof.
  intros Hn. unfold negi at 1. rewrite (prv_wrapi _ Hn). unfold negi, nxt.
  rewrite (wrapi_neg_wrapi _ Hn). f_equal. lia.
Qed.

Lemma nxt_negi n k : 0 < n -> nxt n (negi n k) = negi n (prv n k).
Proof.
  intros Hn. unfold negi at 1. rewrite (nxt_wrapi _ Hn). unfold negi, prv.
  rewrite (wrapi_neg_wrapi _ Hn). f_equal. lia.
Qed.

(* -k mod n is congruent to -k *)
Lemma negi_cong n k : 0 < n -> exists j : Z, qN (negi n k) ==q (- qN k + qN n * inject_Z j)%Q.
Proof.
  intros Hn. exists (- (- Z.of_nat k / Z.of_nat n))%Z. unfold negi, wrapi, qN.
  rewrite Z2Nat.id by (apply Z.mod_pos_bound; lia).
  rewrite Z.mod_eq by lia.
  rewrite inject_Z_minus, inject_Z_mult, !inject_Z_opp. ring.
Qed.

Lemma uniq_max_reflect M N cc cc' p q :
  uniq_max M N cc p q -> reflected_of M N cc cc' -> uniq_max M N cc' (negi M p) (negi N q).
Proof.
  intros (Hp & Hq & H) Hr. assert (M0 : 0 < M) by lia. assert (N0 : 0 < N) by lia.
  split; [apply negi_lt; exact M0|]. split; [apply negi_lt; exact N0|].
  intros k l Hk Hl Hne.
  rewrite (Hr k l Hk Hl), (Hr _ _ (negi_lt p M0) (negi_lt q N0)).
  rewrite (negi_invol Hp), (negi_invol Hq).
  apply H; try (apply negi_lt; assumption).
  intros C. injection C as C1 C2. apply Hne.
  rewrite <- C1, <- C2, (negi_invol Hk), (negi_invol Hl). reflexivity.
Qed.

(* ---------------------------------------------------------------- stage 1 *)
Lemma np_stage1_val M N cc p q :
  2 <= M -> 2 <= N -> uniq_max M N cc p q ->
  exists dx dy,
    parab (cc (prv M p) q) (cc p q) (cc (nxt M p) q) = Some dx /\
    parab (cc p (prv N q)) (cc p q) (cc p (nxt N q)) = Some dy /\
    np_stage1 M N None cc = Some ((p, q), (qmod (qN p + dx) M, qmod (qN q + dy) N)).
Proof.
  intros HM HN Hu.
  pose proof (argmax2o_unique (@masked_uniq M N None cc p q Hu I)) as Harg.
  destruct Hu as (Hp & Hq & H).
  destruct (prv_props HM Hp) as [P1 P2]. destruct (prv_props HN Hq) as [Q1 Q2].
  destruct (nxt_props HM Hp) as [P3 P4]. destruct (nxt_props HN Hq) as [Q3 Q4].
  assert (L1 : (cc (prv M p) q < cc p q)%Q) by (apply H; auto; intros C; inversion C; auto).
  assert (L2 : (cc p (prv N q) < cc p q)%Q) by (apply H; auto; intros C; inversion C; auto).
  assert (L3 : (cc (nxt M p) q < cc p q)%Q) by (apply H; auto; intros C; inversion C; auto).
  assert (L4 : (cc p (nxt N q) < cc p q)%Q) by (apply H; auto; intros C; inversion C; auto).
  destruct (parab_peak L1 L3) as (dx & Hdx & _). destruct (parab_peak L2 L4) as (dy & Hdy & _).
  exists dx, dy. split; [exact Hdx|]. split; [exact Hdy|].
  unfold np_stage1. rewrite Harg. cbv zeta. rewrite (gparab_some Hdx), (gparab_some Hdy). reflexivity.
Qed.

(* t' is congruent to -t modulo n *)
Definition negc (n : nat) (t t' : Q) : Prop := exists k : Z, t' ==q (- t + qN n * inject_Z k)%Q.

Lemma negc_qmod n p d d' :
  0 < n -> d' ==q (- d)%Q -> negc n (qmod (qN p + d) n) (qmod (qN (negi n p) + d') n).
Proof.
  intros Hn Ed. destruct (qmod_cong (qN p + d) n) as [k1 E1].
  destruct (qmod_cong (qN (negi n p) + d') n) as [k2 E2].
  destruct (negi_cong p Hn) as [j Ej].
  exists (j + k2 + k1)%Z. rewrite E2, E1, Ej, Ed, !inject_Z_plus. ring.
Qed.

Lemma stage1_swap M N cc cc' p q :
  2 <= M -> 2 <= N -> uniq_max M N cc p q -> reflected_of M N cc cc' ->
  exists x0 y0 x0' y0',
    np_stage1 M N None cc = Some ((p, q), (x0, y0)) /\
    np_stage1 M N None cc' = Some ((negi M p, negi N q), (x0', y0')) /\
    negc M x0 x0' /\ negc N y0 y0'.
Proof.
  intros HM HN Hu Hr. assert (M0 : 0 < M) by lia. assert (N0 : 0 < N) by lia.
  pose proof (uniq_max_reflect Hu Hr) as Hu'.
  destruct (np_stage1_val HM HN Hu) as (dx & dy & Px & Py & S1).
  destruct (np_stage1_val HM HN Hu') as (dx' & dy' & Px' & Py' & S1').
  destruct Hu as (Hp & Hq & _).
  pose proof (negi_lt p M0) as Hp'. pose proof (negi_lt q N0) as Hq'.
  destruct (prv_props HM Hp) as [P1 _]. destruct (prv_props HN Hq) as [Q1 _].
  destruct (nxt_props HM Hp) as [P3 _]. destruct (nxt_props HN Hq) as [Q3 _].
  (* the samples of the swapped array are the samples of cc in reverse order *)
  assert (Ec : cc' (negi M p) (negi N q) ==q cc p q)
    by (rewrite (Hr _ _ Hp' Hq'), (negi_invol Hp), (negi_invol Hq); reflexivity).
  assert (Ex0 : cc' (prv M (negi M p)) (negi N q) ==q cc (nxt M p) q).
  { rewrite (prv_negi _ M0), (Hr _ _ (negi_lt _ M0) Hq'), (negi_invol P3), (negi_invol Hq). reflexivity. }
  assert (Ex2 : cc' (nxt M (negi M p)) (negi N q) ==q cc (prv M p) q).
  { rewrite (nxt_negi _ M0), (Hr _ _ (negi_lt _ M0) Hq'), (negi_invol P1), (negi_invol Hq). reflexivity. }
  assert (Ey0 : cc' (negi M p) (prv N (negi N q)) ==q cc p (nxt N q)).
  { rewrite (prv_negi _ N0), (Hr _ _ Hp' (negi_lt _ N0)), (negi_invol Q3), (negi_invol Hp). reflexivity. }
  assert (Ey2 : cc' (negi M p) (nxt N (negi N q)) ==q cc p (prv N q)).
  { rewrite (nxt_negi _ N0), (Hr _ _ Hp' (negi_lt _ N0)), (negi_invol Q1), (negi_invol Hp). reflexivity. }
  destruct (@parab_reverse _ _ _ _ Px) as (rx & Rx & Erx). destruct (@parab_reverse _ _ _ _ Py) as (ry & Ry & Ery).
  destruct (@parab_comp _ _ _ _ _ _ _ Ex0 Ec Ex2 Px') as (cx & Cx & Ecx).
  destruct (@parab_comp _ _ _ _ _ _ _ Ey0 Ec Ey2 Py') as (cy & Cy & Ecy).
  rewrite Rx in Cx. rewrite Ry in Cy. injection Cx as Cx. injection Cy as Cy. subst cx cy.
  eexists _, _, _, _. split; [exact S1|]. split; [exact S1'|].
  split; apply negc_qmod; auto.
  - rewrite <- Ecx. exact Erx.
  - rewrite <- Ecy. exact Ery.
Qed.

(* ---------------------------------------------------------------- centring *)
(* the centred result is negated, except at -n/2 where it is reproduced *)
Definition neg_mod (n : nat) (a a' : Q) : Prop :=
  (~ a ==q (- (qN n / 2))%Q -> a' ==q (- a)%Q) /\ (a ==q (- (qN n / 2))%Q -> a' ==q a).

Lemma centre_negc n t t' : 0 < n -> negc n t t' -> neg_mod n (centre n t) (centre n t').
Proof.
  intros Hn [k Hk]. split.
  - intros Hb. exact (centre_neg Hn Hb Hk).
  - intros Hb. rewrite Hb. symmetry.
    destruct (centre_cong n t) as [k0 E0]. rewrite Hb in E0.
    pose proof (qN_pos Hn) as Hp.
    apply (@centre_unique n t' (- (qN n / 2))%Q (-1 - k0 - k)%Z Hn).
    + apply Qle_refl.
    + unfold Qdiv. change (/ 2)%Q with (1 # 2)%Q. lra.
    + rewrite Hk, !inject_Z_minus. change (inject_Z (-1)) with (-1)%Q.
      assert (Et : t ==q (- (qN n / 2) - qN n * inject_Z k0)%Q) by (rewrite E0; ring).
      rewrite Et. field.
Qed.

(* ---------------------------------------------------------------- the upsampled window *)
Definition win_reflected (W : nat) (loc loc' : nat -> nat -> Q) : Prop :=
  forall a b, a < W -> b < W -> loc' a b ==q loc (W - 1 - a) (W - 1 - b).

Lemma uniq_max_win_reflect W loc loc' lx ly :
  uniq_max W W loc lx ly -> win_reflected W loc loc' ->
  uniq_max W W loc' (W - 1 - lx) (W - 1 - ly).
Proof.
  intros (Hx & Hy & H) Hr. split; [lia|]. split; [lia|].
  intros a b Ha Hb Hne. rewrite (Hr a b Ha Hb), (Hr (W - 1 - lx) (W - 1 - ly)) by lia.
  replace (W - 1 - (W - 1 - lx)) with lx by lia. replace (W - 1 - (W - 1 - ly)) with ly by lia.
  apply H; try lia. intros C. injection C as C1 C2. apply Hne. f_equal; lia.
Qed.

Lemma win_refine_val g W loc lx ly :
  uniq_max W W loc lx ly ->
  exists dx dy, win_refine g W loc = Some ((lx, ly), (dx, dy)) /\
    (((lx =? 0) || (W <=? lx + 1) || (ly =? 0) || (W <=? ly + 1))%bool = true -> dx = 0%Q /\ dy = 0%Q) /\
    (((lx =? 0) || (W <=? lx + 1) || (ly =? 0) || (W <=? ly + 1))%bool = false ->
       parab (loc (lx - 1) ly) (loc lx ly) (loc (lx + 1) ly) = Some dx /\
       parab (loc lx (ly - 1)) (loc lx ly) (loc lx (ly + 1)) = Some dy).
Proof.
  intros Hu. pose proof (argmax2_unique Hu) as Harg. destruct Hu as (Hx & Hy & H).
  unfold win_refine. rewrite Harg.
  destruct ((lx =? 0) || (W <=? lx + 1) || (ly =? 0) || (W <=? ly + 1))%bool eqn:E.
  - exists 0%Q, 0%Q. split; [reflexivity|]. split; [auto | discriminate].
  - rewrite !orb_false_iff in E. destruct E as [[[E1 E2] E3] E4].
    apply Nat.eqb_neq in E1, E3. apply Nat.leb_gt in E2, E4.
    assert (L1 : (loc (lx - 1)%nat ly < loc lx ly)%Q) by (apply H; try lia; intros C; inversion C; lia).
    assert (L2 : (loc lx (ly - 1)%nat < loc lx ly)%Q) by (apply H; try lia; intros C; inversion C; lia).
    assert (L3 : (loc (lx + 1)%nat ly < loc lx ly)%Q) by (apply H; try lia; intros C; inversion C; lia).
    assert (L4 : (loc lx (ly + 1)%nat < loc lx ly)%Q) by (apply H; try lia; intros C; inversion C; lia).
    destruct (parab_peak L1 L3) as (dx & Hdx & _). destruct (parab_peak L2 L4) as (dy & Hdy & _).
    exists dx, dy. rewrite (par_some g Hdx), (par_some g Hdy). split; [reflexivity|]. split; [discriminate | auto].
Qed.

Lemma win_refine_swap g W loc loc' lx ly :
  uniq_max W W loc lx ly -> win_reflected W loc loc' ->
  exists dx dy dx' dy',
    win_refine g W loc = Some ((lx, ly), (dx, dy)) /\
    win_refine g W loc' = Some ((W - 1 - lx, W - 1 - ly), (dx', dy')) /\
    dx' ==q (- dx)%Q /\ dy' ==q (- dy)%Q.
Proof.
  intros Hu Hr. pose proof (uniq_max_win_reflect Hu Hr) as Hu'.
  destruct (win_refine_val g Hu) as (dx & dy & R1 & Ed & Ne).
  destruct (win_refine_val g Hu') as (dx' & dy' & R1' & Ed' & Ne').
  exists dx, dy, dx', dy'. split; [exact R1|]. split; [exact R1'|].
  destruct Hu as (Hx & Hy & _). unfold win_reflected in Hr.
  set (lx' := W - 1 - lx) in *. set (ly' := W - 1 - ly) in *.
  assert (EB : ((lx' =? 0) || (W <=? lx' + 1) || (ly' =? 0) || (W <=? ly' + 1))%bool
               = ((lx =? 0) || (W <=? lx + 1) || (ly =? 0) || (W <=? ly + 1))%bool).
  { unfold lx', ly'.
    destruct (Nat.eqb_spec (W - 1 - lx) 0), (Nat.leb_spec W (W - 1 - lx + 1)),
      (Nat.eqb_spec (W - 1 - ly) 0), (Nat.leb_spec W (W - 1 - ly + 1)),
      (Nat.eqb_spec lx 0), (Nat.leb_spec W (lx + 1)),
      (Nat.eqb_spec ly 0), (Nat.leb_spec W (ly + 1)); cbn; try reflexivity; lia. }
  destruct ((lx =? 0) || (W <=? lx + 1) || (ly =? 0) || (W <=? ly + 1))%bool eqn:E.
  - destruct (Ed eq_refl) as [-> ->]. destruct (Ed' EB) as [-> ->]. split; ring.
  - destruct (Ne eq_refl) as [Px Py]. destruct (Ne' EB) as [Px' Py'].
    rewrite !orb_false_iff in E. destruct E as [[[E1 E2] E3] E4].
    apply Nat.eqb_neq in E1, E3. apply Nat.leb_gt in E2, E4.
    assert (Ec : loc' lx' ly' ==q loc lx ly).
    { unfold lx', ly'. rewrite Hr by lia. replace (W - 1 - (W - 1 - lx)) with lx by lia.
      replace (W - 1 - (W - 1 - ly)) with ly by lia. reflexivity. }
    assert (Ex0 : loc' (lx' - 1) ly' ==q loc (lx + 1) ly).
    { unfold lx', ly'. rewrite Hr by lia. replace (W - 1 - (W - 1 - lx - 1)) with (lx + 1) by lia.
      replace (W - 1 - (W - 1 - ly)) with ly by lia. reflexivity. }
    assert (Ex2 : loc' (lx' + 1) ly' ==q loc (lx - 1) ly).
    { unfold lx', ly'. rewrite Hr by lia. replace (W - 1 - (W - 1 - lx + 1)) with (lx - 1) by lia.
      replace (W - 1 - (W - 1 - ly)) with ly by lia. reflexivity. }
    assert (Ey0 : loc' lx' (ly' - 1) ==q loc lx (ly + 1)).
    { unfold lx', ly'. rewrite Hr by lia. replace (W - 1 - (W - 1 - ly - 1)) with (ly + 1) by lia.
      replace (W - 1 - (W - 1 - lx)) with lx by lia. reflexivity. }
    assert (Ey2 : loc' lx' (ly' + 1) ==q loc lx (ly - 1)).
    { unfold lx', ly'. rewrite Hr by lia. replace (W - 1 - (W - 1 - ly + 1)) with (ly - 1) by lia.
      replace (W - 1 - (W - 1 - lx)) with lx by lia. reflexivity. }
    destruct (@parab_reverse _ _ _ _ Px) as (rx & Rx & Erx). destruct (@parab_reverse _ _ _ _ Py) as (ry & Ry & Ery).
    destruct (@parab_comp _ _ _ _ _ _ _ Ex0 Ec Ex2 Px') as (cx & Cx & Ecx).
    destruct (@parab_comp _ _ _ _ _ _ _ Ey0 Ec Ey2 Py') as (cy & Cy & Ecy).
    rewrite Rx in Cx. rewrite Ry in Cy. injection Cx as Cx. injection Cy as Cy. subst cx cy.
    split; [rewrite <- Ecx; exact Erx | rewrite <- Ecy; exact Ery].
Qed.

Lemma negc_offset n up x x' lx d d' :
  0 < up -> lx < np_win up -> negc n x x' -> d' ==q (- d)%Q ->
  negc n (np_offset up x lx d) (np_offset up x' (np_win up - 1 - lx) d').
Proof.
  intros Hup Hl [k Hk] Ed. exists k. unfold np_offset, np_win in *.
  replace (Z.of_nat (2 * du up + 1 - 1 - lx) - Z.of_nat (du up))%Z
    with (- (Z.of_nat lx - Z.of_nat (du up)))%Z by lia.
  rewrite Hk, Ed, inject_Z_opp. field. apply qN_neq0. exact Hup.
Qed.

(* ---------------------------------------------------------------- NumPy *)
(* what the window of the swapped pair is, relative to the window of the original pair: the
   band-limited interpolant of cc' is the point reflection of that of cc, so a window centred
   on x' = -x (mod M) is the reversed window centred on x *)
Definition windows_swap (M N up : nat) (ups ups' : Q -> Q -> nat -> nat -> Q) : Prop :=
  forall x y x' y', negc M x x' -> negc N y y' ->
    win_reflected (np_win up) (ups x y) (ups' x' y').

Theorem np_swap_negates M N up cc cc' ups ups' p q :
  2 <= M -> 2 <= N -> uniq_max M N cc p q -> reflected_of M N cc cc' ->
  (2 <= up -> windows_swap M N up ups ups' /\
              forall x y, exists lx ly, uniq_max (np_win up) (np_win up) (ups x y) lx ly) ->
  exists a b a' b',
    np_shift M N None up cc ups = Some (a, b) /\
    np_shift M N None up cc' ups' = Some (a', b') /\
    neg_mod M a a' /\ neg_mod N b b'.
Proof.
  intros HM HN Hu Hr Hw. assert (M0 : 0 < M) by lia. assert (N0 : 0 < N) by lia.
  destruct (stage1_swap HM HN Hu Hr) as (x0 & y0 & x0' & y0' & S1 & S1' & Nx & Ny).
  unfold np_shift. rewrite S1, S1'.
  destruct (Nat.leb_spec up 1) as [Hup|Hup].
  - eexists _, _, _, _. split; [reflexivity|]. split; [reflexivity|].
    split; apply centre_negc; assumption.
  - assert (Hup2 : 2 <= up) by lia. destruct (Hw Hup2) as [Hsw Hum].
    destruct (Hum x0 y0) as (lx & ly & Hul).
    destruct (win_refine_swap true Hul (Hsw x0 y0 x0' y0' Nx Ny)) as (dx & dy & dx' & dy' & R1 & R1' & Ex & Ey).
    rewrite R1, R1'. destruct Hul as (Hlx & Hly & _).
    eexists _, _, _, _. split; [reflexivity|]. split; [reflexivity|].
    split; apply centre_negc; auto; apply negc_offset; auto; lia.
Qed.

(* ---------------------------------------------------------------- sub-pixel: what IS proved *)
(* With upsampling the NumPy estimator returns (centred) the position of the largest window
   sample, x0 + (lx - du)/up, plus a parabolic correction of at most half an upsampled pixel.
   What is NOT proved (validated on the implementation only): that the largest sample of the
   band-limited interpolant is the one nearest to the true sub-pixel shift (needs unimodality of
   the interpolant on the window and that the window, +-1.5 pixels around the stage-1 estimate,
   contains the true peak). *)
Theorem np_subpixel_partial M N up cc ups p q :
  2 <= M -> 2 <= N -> 2 <= up -> uniq_max M N cc p q ->
  (forall x y, exists lx ly, uniq_max (np_win up) (np_win up) (ups x y) lx ly) ->
  exists x0 y0 lx ly dx dy,
    np_stage1 M N None cc = Some ((p, q), (x0, y0)) /\
    uniq_max (np_win up) (np_win up) (ups x0 y0) lx ly /\
    np_shift M N None up cc ups
    = Some (centre M (np_coord up x0 lx + dx / qN up), centre N (np_coord up y0 ly + dy / qN up)) /\
    (- (1 # 2) <= dx /\ dx <= 1 # 2)%Q /\ (- (1 # 2) <= dy /\ dy <= 1 # 2)%Q.
Proof.
  intros HM HN Hup Hu Hw.
  destruct (np_stage1_val HM HN Hu) as (d0x & d0y & _ & _ & S1).
  set (x0 := qmod (qN p + d0x) M) in *. set (y0 := qmod (qN q + d0y) N) in *.
  destruct (Hw x0 y0) as (lx & ly & Hul).
  destruct (win_refine_val true Hul) as (dx & dy & R1 & Ed & Ne).
  exists x0, y0, lx, ly, dx, dy. split; [exact S1|]. split; [exact Hul|].
  split.
  - unfold np_shift. rewrite S1. destruct (Nat.leb_spec up 1) as [C|_]; [lia|]. rewrite R1. reflexivity.
  - destruct ((lx =? 0) || (np_win up <=? lx + 1) || (ly =? 0) || (np_win up <=? ly + 1))%bool eqn:E.
    + destruct (Ed eq_refl) as [-> ->]. split; split; lra.
    + destruct (Ne eq_refl) as [Px Py]. destruct Hul as (Hx & Hy & H).
      rewrite !orb_false_iff in E. destruct E as [[[E1 E2] E3] E4].
      apply Nat.eqb_neq in E1, E3. apply Nat.leb_gt in E2, E4.
      split.
      * apply (@parab_within_half _ _ _ dx) in Px; [exact Px | |];
          apply Qlt_le_weak; apply H; try lia; intros C; inversion C; lia.
      * apply (@parab_within_half _ _ _ dy) in Py; [exact Py | |];
          apply Qlt_le_weak; apply H; try lia; intros C; inversion C; lia.
Qed.

(* ---------------------------------------------------------------- torch, factors <= 2 *)
Lemma Qfloor_unique y z : (inject_Z z <= y)%Q -> (y < inject_Z (z + 1))%Q -> Qfloor y = z.
Proof.
  intros H1 H2. pose proof (Qfloor_le y) as F1. pose proof (Qlt_floor y) as F2.
  assert (A : (inject_Z z < inject_Z (Qfloor y + 1))%Q) by (eapply Qle_lt_trans; eassumption).
  assert (B : (inject_Z (Qfloor y) < inject_Z (z + 1))%Q) by (eapply Qle_lt_trans; eassumption).
  rewrite <- Zlt_Qlt in A, B. lia.
Qed.

Lemma round_he_comp x y : x ==q y -> round_he x = round_he y.
Proof.
  intros E. unfold round_he.
  assert (F : Qfloor x = Qfloor y) by (rewrite E; reflexivity).
  rewrite F.
  assert (L1 : Qltb (x - inject_Z (Qfloor y)) (1 # 2) = Qltb (y - inject_Z (Qfloor y)) (1 # 2)).
  { unfold Qltb. f_equal. apply Qleb_comp; [reflexivity | rewrite E; reflexivity]. }
  assert (L2 : Qltb (1 # 2) (x - inject_Z (Qfloor y)) = Qltb (1 # 2) (y - inject_Z (Qfloor y))).
  { unfold Qltb. f_equal. apply Qleb_comp; [rewrite E; reflexivity | reflexivity]. }
  rewrite L1, L2. reflexivity.
Qed.

(* round-half-even is odd ... *)
Lemma round_he_neg x : round_he (- x) = (- round_he x)%Z.
Proof.
  set (f := Qfloor x). set (r := (x - inject_Z f)%Q).
  assert (R0 : (0 <= r)%Q) by (unfold r, f; pose proof (Qfloor_le x); lra).
  assert (R1 : (r < 1)%Q).
  { unfold r, f. pose proof (Qlt_floor x) as H. rewrite inject_Z_plus in H.
    change (inject_Z 1) with 1%Q in H. lra. }
  destruct (Qeq_dec r 0) as [Z0|NZ].
  - assert (Ex : x ==q inject_Z f) by (unfold r in Z0; lra).
    rewrite (round_he_int Ex).
    apply round_he_int. rewrite Ex, inject_Z_opp. reflexivity.
  - assert (R0' : (0 < r)%Q) by (destruct (Qlt_le_dec 0 r); [assumption | exfalso; apply NZ; lra]).
    assert (F' : Qfloor (- x) = (- f - 1)%Z).
    { apply Qfloor_unique.
      - rewrite inject_Z_minus, inject_Z_opp. change (inject_Z 1) with 1%Q. unfold r in R1. lra.
      - replace (- f - 1 + 1)%Z with (- f)%Z by lia. rewrite inject_Z_opp. unfold r in R0'. lra. }
    unfold round_he. fold f. rewrite F'. fold r.
    set (r' := (- x - inject_Z (- f - 1))%Q).
    assert (Er : r' ==q (1 - r)%Q).
    { unfold r', r. rewrite inject_Z_minus, inject_Z_opp. change (inject_Z 1) with 1%Q. ring. }
    destruct (Qltb r (1 # 2)) eqn:A.
    + apply Qltb_spec in A.
      assert (B : Qltb r' (1 # 2) = false) by (apply Qltb_false; rewrite Er; lra).
      assert (C : Qltb (1 # 2) r' = true) by (apply Qltb_spec; rewrite Er; lra).
      rewrite B, C. lia.
    + apply Qltb_false in A. destruct (Qltb (1 # 2) r) eqn:A2.
      * apply Qltb_spec in A2.
        assert (B : Qltb r' (1 # 2) = true) by (apply Qltb_spec; rewrite Er; lra).
        rewrite B. lia.
      * apply Qltb_false in A2.
        assert (B : Qltb r' (1 # 2) = false) by (apply Qltb_false; rewrite Er; lra).
        assert (C : Qltb (1 # 2) r' = false) by (apply Qltb_false; rewrite Er; lra).
        rewrite B, C.
        replace (- f - 1)%Z with (- (f + 1))%Z by lia. rewrite Z.even_opp.
        replace (f + 1)%Z with (Z.succ f) by lia. rewrite Z.even_succ, <- Z.negb_even.
        destruct (Z.even f); cbn [negb]; lia.
Qed.

(* ... and commutes with adding an even integer *)
Lemma round_he_add_even x (k : Z) : round_he (x + inject_Z (2 * k)) = (round_he x + 2 * k)%Z.
Proof.
  set (f := Qfloor x).
  assert (F' : Qfloor (x + inject_Z (2 * k)) = (f + 2 * k)%Z).
  { apply Qfloor_unique.
    - rewrite inject_Z_plus. pose proof (Qfloor_le x). fold f in H. lra.
    - replace (f + 2 * k + 1)%Z with ((f + 1) + 2 * k)%Z by lia. rewrite inject_Z_plus.
      pose proof (Qlt_floor x). fold f in H. lra. }
  unfold round_he. fold f. rewrite F'.
  assert (Er : (x + inject_Z (2 * k) - inject_Z (f + 2 * k) ==q x - inject_Z f)%Q)
    by (rewrite inject_Z_plus; ring).
  assert (L1 : Qltb (x + inject_Z (2 * k) - inject_Z (f + 2 * k)) (1 # 2) = Qltb (x - inject_Z f) (1 # 2)).
  { unfold Qltb. f_equal. apply Qleb_comp; [reflexivity | exact Er]. }
  assert (L2 : Qltb (1 # 2) (x + inject_Z (2 * k) - inject_Z (f + 2 * k)) = Qltb (1 # 2) (x - inject_Z f)).
  { unfold Qltb. f_equal. apply Qleb_comp; [exact Er | reflexivity]. }
  rewrite L1, L2.
  assert (Ev : Z.even (f + 2 * k) = Z.even f).
  { rewrite Z.even_add, Z.even_mul. cbn. destruct (Z.even f); reflexivity. }
  rewrite Ev. destruct (Qltb (x - inject_Z f) (1 # 2)); [lia|].
  destruct (Qltb (1 # 2) (x - inject_Z f)); [lia|]. destruct (Z.even f); lia.
Qed.

Lemma tparab_reverse v0 v1 v2 : tparab v2 v1 v0 ==q (- tparab v0 v1 v2)%Q.
Proof.
  unfold tparab.
  assert (ED : (4 * v1 - 2 * v0 - 2 * v2 ==q 4 * v1 - 2 * v2 - 2 * v0)%Q) by ring.
  assert (EB : Qeq_bool (4 * v1 - 2 * v0 - 2 * v2) 0 = Qeq_bool (4 * v1 - 2 * v2 - 2 * v0) 0)
    by (apply Qeqb_comp; [exact ED | reflexivity]).
  rewrite EB. destruct (Qeq_bool (4 * v1 - 2 * v2 - 2 * v0) 0) eqn:E; [ring|].
  apply Qeq_bool_neq in E. rewrite ED. field. exact E.
Qed.

Lemma tparab_comp v0 v1 v2 w0 w1 w2 :
  v0 ==q w0 -> v1 ==q w1 -> v2 ==q w2 -> tparab v0 v1 v2 ==q tparab w0 w1 w2.
Proof.
  intros E0 E1 E2. unfold tparab.
  assert (ED : (4 * v1 - 2 * v2 - 2 * v0 ==q 4 * w1 - 2 * w2 - 2 * w0)%Q) by (rewrite E0, E1, E2; reflexivity).
  assert (EB : Qeq_bool (4 * v1 - 2 * v2 - 2 * v0) 0 = Qeq_bool (4 * w1 - 2 * w2 - 2 * w0) 0)
    by (apply Qeqb_comp; [exact ED | reflexivity]).
  rewrite EB. destruct (Qeq_bool (4 * w1 - 2 * w2 - 2 * w0) 0); [reflexivity|]. rewrite E0, E1, E2. reflexivity.
Qed.

Lemma negi_congZ n k : 0 < n -> exists j : Z, Z.of_nat (negi n k) = (- Z.of_nat k + Z.of_nat n * j)%Z.
Proof.
  intros Hn. exists (- (- Z.of_nat k / Z.of_nat n))%Z. unfold negi, wrapi.
  rewrite Z2Nat.id by (apply Z.mod_pos_bound; lia). rewrite Z.mod_eq by lia. lia.
Qed.

Lemma negc_half n p d d' :
  0 < n -> d' ==q (- d)%Q ->
  negc n (inject_Z (round_he ((qN p + d) * 2)) / 2) (inject_Z (round_he ((qN (negi n p) + d') * 2)) / 2).
Proof.
  intros Hn Ed. destruct (negi_congZ p Hn) as [j Ej]. exists j.
  assert (E : ((qN (negi n p) + d') * 2 ==q - ((qN p + d) * 2) + inject_Z (2 * (Z.of_nat n * j)))%Q).
  { unfold qN. rewrite Ej, Ed, inject_Z_plus, inject_Z_opp, !inject_Z_mult.
    change (inject_Z 2) with 2%Q. ring. }
  rewrite (round_he_comp E), round_he_add_even, round_he_neg.
  rewrite inject_Z_plus, inject_Z_opp, !inject_Z_mult. change (inject_Z 2) with 2%Q.
  unfold qN. field.
Qed.

(* torch estimator, upsample_factor <= 2 (half-pixel rounding, no window): any pair of images whose
   correlation has a unique peak *)
Theorem torch_swap_negates M N up cc cc' ups ups' p q :
  2 <= M -> 2 <= N -> up <= 2 -> uniq_max M N cc p q -> reflected_of M N cc cc' ->
  exists a b a' b',
    torch_shift M N up cc ups = Some (a, b) /\ torch_shift M N up cc' ups' = Some (a', b') /\
    neg_mod M a a' /\ neg_mod N b b'.
Proof.
  intros HM HN Hup Hu Hr. assert (M0 : 0 < M) by lia. assert (N0 : 0 < N) by lia.
  pose proof (uniq_max_reflect Hu Hr) as Hu'.
  pose proof (argmax2_unique Hu) as A1. pose proof (argmax2_unique Hu') as A2.
  destruct Hu as (Hp & Hq & _).
  pose proof (negi_lt p M0) as Hp'. pose proof (negi_lt q N0) as Hq'.
  destruct (prv_props HM Hp) as [P1 _]. destruct (prv_props HN Hq) as [Q1 _].
  destruct (nxt_props HM Hp) as [P3 _]. destruct (nxt_props HN Hq) as [Q3 _].
  assert (Ec : cc' (negi M p) (negi N q) ==q cc p q)
    by (rewrite (Hr _ _ Hp' Hq'), (negi_invol Hp), (negi_invol Hq); reflexivity).
  assert (Ex0 : cc' (prv M (negi M p)) (negi N q) ==q cc (nxt M p) q).
  { rewrite (prv_negi _ M0), (Hr _ _ (negi_lt _ M0) Hq'), (negi_invol P3), (negi_invol Hq). reflexivity. }
  assert (Ex2 : cc' (nxt M (negi M p)) (negi N q) ==q cc (prv M p) q).
  { rewrite (nxt_negi _ M0), (Hr _ _ (negi_lt _ M0) Hq'), (negi_invol P1), (negi_invol Hq). reflexivity. }
  assert (Ey0 : cc' (negi M p) (prv N (negi N q)) ==q cc p (nxt N q)).
  { rewrite (prv_negi _ N0), (Hr _ _ Hp' (negi_lt _ N0)), (negi_invol Q3), (negi_invol Hp). reflexivity. }
  assert (Ey2 : cc' (negi M p) (nxt N (negi N q)) ==q cc p (prv N q)).
  { rewrite (nxt_negi _ N0), (Hr _ _ Hp' (negi_lt _ N0)), (negi_invol Q1), (negi_invol Hp). reflexivity. }
  unfold torch_shift, torch_align, torch_half. rewrite A1, A2.
  destruct (Nat.leb_spec up 2) as [_|C]; [|lia].
  eexists _, _, _, _. split; [reflexivity|]. split; [reflexivity|].
  split; apply centre_negc; auto; apply negc_half; auto.
  - rewrite (tparab_comp Ex0 Ec Ex2). apply tparab_reverse.
  - rewrite (tparab_comp Ey0 Ec Ey2). apply tparab_reverse.
Qed.
