(* C14 — skip lists.  Save side: saving with skip lists = saving the pruned graph.  Load side:
   C01_Proofs_RT.load_saved_obj (load-time pruning of the normal form).  Algebra of the two
   pruning functions and the normal form. *)
From QV.lib Require Import Prelude.
From QV.model Require Import C01_Model.
From QV.proof Require Import C01_Proofs_Base C01_Proofs_Enc C01_Proofs_Dec C01_Proofs_Struct C01_Proofs_Main C01_Proofs_RT.
From Coq Require Import String Ascii.
Local Open Scope string_scope.
Local Open Scope list_scope.

(* ------------------------------------------------------------------ save with skip = save the pruned graph *)
Lemma with_group_ext k (f f' : node -> node) g : (forall sub, f sub = f' sub) -> with_group k f g = with_group k f' g.
Proof. intros H. destruct g as [a r s]. cbn [with_group]. destruct (lookup k s); rewrite H; reflexivity. Qed.

Lemma skipped_nil k x : skipped [] [] k x = false.
Proof. reflexivity. Qed.

Section SaveSide.
  Variables sn st : list string.
  Notation PS := (prune_save sn st).
  Notation EV := (encode_value sn st).

  Lemma num_cat_prune v : num_cat (PS v) = num_cat v.
  Proof. destruct v; reflexivity. Qed.

  Lemma all_numeric_prune l : all_numeric (map PS l) = all_numeric l.
  Proof. induction l as [|v r IH]; cbn [map all_numeric]; [reflexivity|]. rewrite num_cat_prune, IH. reflexivity. Qed.

  Lemma numeric_seq_prune l : numeric_seq (map PS l) = numeric_seq l.
  Proof. unfold numeric_seq. rewrite all_numeric_prune. destruct l; reflexivity. Qed.

  Lemma fold_items_prune l : Forall (fun v => forall name g, EV v name g = E (PS v) name g) l ->
    forall i g, fold_items EV l i g = fold_items E (map PS l) i g.
  Proof.
    induction 1 as [|v r Hv _ IH]; intros i g; cbn [fold_items map]; [reflexivity|]. rewrite Hv. apply IH.
  Qed.

  Lemma encode_seq_prune ct l sub :
    Forall (fun v => forall name g, EV v name g = E (PS v) name g) l ->
    encode_seq EV ct l sub = encode_seq E ct (map PS l) sub.
  Proof.
    intros H. unfold encode_seq. rewrite numeric_seq_prune. destruct (numeric_seq l) as [[r ns]|]; [reflexivity|].
    apply fold_items_prune. exact H.
  Qed.

  Lemma fold_entries_prune l : Forall (fun kv => forall name g, EV (snd kv) name g = E (PS (snd kv)) name g) l ->
    forall g, fold_entries EV l g = fold_entries E (map (fun kv => match kv with (k, x) => (k, PS x) end) l) g.
  Proof.
    induction 1 as [|[k v] r Hv _ IH]; intros g; cbn [fold_entries map]; [reflexivity|]. cbn [snd] in Hv. rewrite Hv. apply IH.
  Qed.

  Lemma fold_fields_prune l : Forall (fun kv => forall name g, EV (snd kv) name g = E (PS (snd kv)) name g) l ->
    forall g, fold_fields EV (skipped sn st) l g =
              fold_fields E (skipped [] [])
                (flat_map (fun kv => match kv with (k, x) => if mem k sn || inst_any x st then [] else [(k, PS x)] end) l) g.
  Proof.
    induction 1 as [|[k v] r Hv _ IH]; intros g; cbn [fold_fields flat_map]; [reflexivity|]. cbn [snd] in Hv.
    change (skipped sn st k v) with (mem k sn || inst_any v st)%bool.
    destruct (mem k sn || inst_any v st)%bool; cbn [app fold_fields]; [apply IH|].
    rewrite skipped_nil, Hv. apply IH.
  Qed.

  Theorem encode_value_prune v : forall name g, EV v name g = E (PS v) name g.
  Proof.
    induction v using value_ind'; intros name g; try reflexivity.
    - cbn [prune_save]. rewrite E_list. change (EV (VList l) name g) with (with_group name (encode_seq EV "list" l) g).
      apply with_group_ext. intros sub. apply encode_seq_prune. exact H.
    - cbn [prune_save]. rewrite E_tuple. change (EV (VTuple l) name g) with (with_group name (encode_seq EV "tuple" l) g).
      apply with_group_ext. intros sub. apply encode_seq_prune. exact H.
    - cbn [prune_save]. rewrite E_set.
      change (EV (VSet l) name g) with
        (with_group name (fun sub => set_attr "_container_type" (JStr "set") (encode_seq EV "list" l sub)) g).
      apply with_group_ext. intros sub. rewrite (encode_seq_prune "list" l sub H). reflexivity.
    - cbn [prune_save]. rewrite E_dict. change (EV (VDict l) name g) with (with_group name (encode_dict EV l) g).
      apply with_group_ext. intros sub. unfold encode_dict. apply fold_entries_prune. exact H.
    - cbn [prune_save]. rewrite E_obj.
      change (EV (VObj m c l) name g) with (with_group name (encode_fields sn st EV m c l) g).
      apply with_group_ext. intros sub. unfold encode_fields. apply fold_fields_prune. exact H.
  Qed.
End SaveSide.

Lemma encode_root_prune sn st v : encode_root sn st v = encode_root [] [] (prune_save sn st v).
Proof.
  destruct v; try reflexivity. cbn [prune_save]. unfold encode_root, encode_fields.
  apply fold_fields_prune. apply Forall_forall. intros kv _. apply encode_value_prune.
Qed.

(* ------------------------------------------------------------------ pruning keeps graphs well formed *)
Lemma nums_ok_prune sn st l : nums_ok (map (prune_save sn st) l) = nums_ok l.
Proof. unfold nums_ok. rewrite all_numeric_prune. destruct l; reflexivity. Qed.

Definition pstep_save (sn st : list string) (kv : string * value) : list (string * value) :=
  match kv with (k, x) => if mem k sn || inst_any x st then [] else [(k, prune_save sn st x)] end.

Lemma in_pstep_save sn st l k y :
  In (k, y) (flat_map (pstep_save sn st) l) ->
  exists x, In (k, x) l /\ y = prune_save sn st x /\ mem k sn = false /\ inst_any x st = false.
Proof.
  intros H. apply in_flat_map in H. destruct H as [[k' x] [Hi Hy]]. unfold pstep_save in Hy.
  destruct (mem k' sn) eqn:E1; [destruct Hy|]. destruct (inst_any x st) eqn:E2; [destruct Hy|].
  destruct Hy as [He|[]]. injection He as -> <-. exists x. repeat split; assumption.
Qed.

Lemma nodup_pstep_save sn st l : NoDup (map fst l) -> NoDup (map fst (flat_map (pstep_save sn st) l)).
Proof.
  induction l as [|[k x] r IH]; cbn [map fst flat_map]; intros H; [constructor|].
  inversion H as [|? ? Hn Hr]; subst. rewrite map_app. unfold pstep_save at 1.
  destruct (mem k sn || inst_any x st)%bool; cbn [map app fst]; [apply IH; exact Hr|].
  constructor; [|apply IH; exact Hr]. intros Hi. apply Hn. apply in_map_iff in Hi. destruct Hi as [[k' y] [<- Hi]].
  apply in_pstep_save in Hi. destruct Hi as [x' [Hi _]]. apply in_map_iff. exists (k', x'). split; [reflexivity | exact Hi].
Qed.

Theorem wf_prune_save sn st v : forall b, wf_value b v = true -> wf_value b (prune_save sn st v) = true.
Proof.
  induction v using value_ind'; intros inc Hw; try exact Hw.
  - cbn [prune_save wf_value] in *. apply andb_true_iff in Hw. destruct Hw as [H1 H2]. rewrite nums_ok_prune, H2, andb_true_r.
    apply forallb_forall. intros y Hy. apply in_map_iff in Hy. destruct Hy as [x [<- Hx]].
    rewrite Forall_forall in H. apply H; [exact Hx|]. rewrite forallb_forall in H1. exact (H1 x Hx).
  - cbn [prune_save wf_value] in *. apply andb_true_iff in Hw. destruct Hw as [H1 H2]. rewrite nums_ok_prune, H2, andb_true_r.
    apply forallb_forall. intros y Hy. apply in_map_iff in Hy. destruct Hy as [x [<- Hx]].
    rewrite Forall_forall in H. apply H; [exact Hx|]. rewrite forallb_forall in H1. exact (H1 x Hx).
  - cbn [prune_save wf_value] in *. apply andb_true_iff in Hw. destruct Hw as [H1 H2]. rewrite nums_ok_prune, H2, andb_true_r.
    apply forallb_forall. intros y Hy. apply in_map_iff in Hy. destruct Hy as [x [<- Hx]].
    rewrite Forall_forall in H. apply H; [exact Hx|]. rewrite forallb_forall in H1. exact (H1 x Hx).
  - cbn [prune_save wf_value] in *. apply andb_true_iff in Hw. destruct Hw as [Hw H3]. apply andb_true_iff in Hw. destruct Hw as [H1 H2].
    assert (Hk : map fst (map (fun kv : string * value => match kv with (k, x) => (k, prune_save sn st x) end) l) = map fst l)
      by (rewrite map_map; apply map_ext; intros [k x]; reflexivity).
    rewrite Hk, H1. cbn [andb]. apply andb_true_iff. split.
    + apply forallb_forall. intros [k y] Hy. apply in_map_iff in Hy. destruct Hy as [[k' x] [He Hx]]. injection He as -> <-.
      rewrite forallb_forall in H2. exact (H2 _ Hx).
    + apply forallb_forall. intros [k y] Hy. apply in_map_iff in Hy. destruct Hy as [[k' x] [He Hx]]. injection He as -> <-.
      cbn [snd]. rewrite Forall_forall in H. apply (H _ Hx). rewrite forallb_forall in H3. exact (H3 _ Hx).
  - cbn [prune_save wf_value] in *. apply andb_true_iff in Hw. destruct Hw as [Hw H3]. apply andb_true_iff in Hw. destruct Hw as [H1 H2].
    fold (pstep_save sn st). apply andb_true_iff. split; [apply andb_true_iff; split|].
    + apply NoDup_nodupb. apply nodup_pstep_save. apply nodupb_NoDup. exact H1.
    + apply forallb_forall. intros [k y] Hy. apply in_pstep_save in Hy. destruct Hy as [x [Hx _]].
      rewrite forallb_forall in H2. exact (H2 _ Hx).
    + apply forallb_forall. intros [k y] Hy. apply in_pstep_save in Hy. destruct Hy as [x (Hx & -> & _)].
      cbn [snd]. rewrite Forall_forall in H. apply (H _ Hx). rewrite forallb_forall in H3. exact (H3 _ Hx).
Qed.

Lemma filter_true {A} (p : A -> bool) l : (forall x, p x = true) -> filter p l = l.
Proof. intros H. induction l as [|x r IH]; cbn [filter]; [reflexivity|]. rewrite H, IH. reflexivity. Qed.

(* ------------------------------------------------------------------ the general save/load theorem *)
Theorem load_save_skip usn ust sn st v :
  wf_obj v = true ->
  load_file usn ust (save_file sn st v) =
  RVal (prune_load (usn ++ sn) (ust ++ filter (fun t => negb (mem t ust)) st) (norm (prune_save sn st v))).
Proof.
  intros Hw. unfold save_file. rewrite encode_root_prune.
  destruct v; cbn [wf_obj] in Hw; try discriminate.
  pose proof (wf_prune_save sn st _ false Hw) as Hw'. cbn [prune_save] in *.
  rewrite encode_root_subg. apply load_saved_obj. exact Hw'.
Qed.

(* ------------------------------------------------------------------ algebra of pruning *)
Definition pstep_load (sn st : list string) (kv : string * value) : list (string * value) :=
  match kv with (k, x) => if mem k sn || load_type_skipped st x then [] else [(k, prune_load sn st x)] end.

Lemma map_id_in {A} (f : A -> A) l : (forall x, In x l -> f x = x) -> map f l = l.
Proof.
  induction l as [|x r IH]; cbn [map]; intros H; [reflexivity|].
  rewrite (H x (or_introl eq_refl)), IH; [reflexivity|]. intros y Hy. apply H. right. exact Hy.
Qed.

Lemma flat_map_single_id {A} (f : A -> list A) l : (forall x, In x l -> f x = [x]) -> flat_map f l = l.
Proof.
  induction l as [|x r IH]; cbn [flat_map]; intros H; [reflexivity|].
  rewrite (H x (or_introl eq_refl)), IH; [reflexivity|]. intros y Hy. apply H. right. exact Hy.
Qed.

(* (a) no object below a container: save-time pruning does not look inside containers *)
Lemma prune_save_no_obj sn st v : no_obj v = true -> prune_save sn st v = v.
Proof.
  induction v using value_ind'; intros Hn; try reflexivity; cbn [no_obj prune_save] in *; try discriminate.
  - f_equal. apply map_id_in. intros x Hx. rewrite Forall_forall in H. apply H; [exact Hx|]. rewrite forallb_forall in Hn. exact (Hn x Hx).
  - f_equal. apply map_id_in. intros x Hx. rewrite Forall_forall in H. apply H; [exact Hx|]. rewrite forallb_forall in Hn. exact (Hn x Hx).
  - f_equal. apply map_id_in. intros x Hx. rewrite Forall_forall in H. apply H; [exact Hx|]. rewrite forallb_forall in Hn. exact (Hn x Hx).
  - f_equal. apply map_id_in. intros [k x] Hx. f_equal. rewrite Forall_forall in H. apply (H _ Hx). rewrite forallb_forall in Hn. exact (Hn _ Hx).
Qed.

Lemma inst_any_nil v : inst_any v [] = false.
Proof. reflexivity. Qed.

Theorem prune_save_attr_nested sn v : attr_nested v = true -> prune_save sn [] v = prune_load sn [] v.
Proof.
  induction v using value_ind'; intros Hn; try reflexivity.
  - apply (prune_save_no_obj sn [] (VList l)). exact Hn.
  - apply (prune_save_no_obj sn [] (VTuple l)). exact Hn.
  - apply (prune_save_no_obj sn [] (VSet l)). exact Hn.
  - apply (prune_save_no_obj sn [] (VDict l)). exact Hn.
  - cbn [attr_nested prune_save prune_load] in *. f_equal. apply flat_map_ext_in. intros [k x] Hx.
    rewrite inst_any_nil, lts_nil. destruct (mem k sn); [reflexivity|]. cbn [orb]. do 2 f_equal.
    rewrite Forall_forall in H. apply (H _ Hx). rewrite forallb_forall in Hn. exact (Hn _ Hx).
Qed.

Lemma sclass_prune_load sn st v : sclass_of (prune_load sn st v) = sclass_of v.
Proof. destruct v; reflexivity. Qed.

(* (b) name pruning commutes with the normal form *)
Theorem norm_prune_load sn v : norm (prune_load sn [] v) = prune_load sn [] (norm v).
Proof.
  induction v using value_ind'; try reflexivity.
  - destruct n; reflexivity.
  - cbn [prune_load norm]. f_equal. unfold reorder. rewrite !flat_map_app.
    fold (pstep_load sn []).
    assert (Hpart : forall c0,
      filter (fun kv : string * value => is_class c0 (snd kv))
             (map (fun kv : string * value => match kv with (k, x) => (k, norm x) end) (flat_map (pstep_load sn []) l)) =
      flat_map (pstep_load sn [])
               (filter (fun kv : string * value => is_class c0 (snd kv))
                       (map (fun kv : string * value => match kv with (k, x) => (k, norm x) end) l))).
    { intros c0. rewrite flat_map_filter_map.
      clear - H. induction l as [|[k x] r IH]; [reflexivity|].
      inversion H as [|? ? Hx Hr]; subst. cbn [snd] in Hx. cbn [flat_map]. rewrite map_app, filter_app, (IH Hr). f_equal.
      unfold pstep_load. cbn [snd]. rewrite !lts_nil, !orb_false_r.
      destruct (mem k sn); cbn [map filter snd].
      - destruct (is_class c0 (norm x)); reflexivity.
      - rewrite Hx. unfold is_class. rewrite sclass_prune_load. fold (is_class c0 (norm x)).
        destruct (is_class c0 (norm x)); reflexivity. }
    rewrite !Hpart. reflexivity.
Qed.

(* (c) pruning by a superset of names absorbs an earlier pruning *)
Theorem prune_load_absorb A B v :
  (forall k, mem k B = true -> mem k A = true) -> prune_load A [] (prune_load B [] v) = prune_load A [] v.
Proof.
  intros Hsub. induction v using value_ind'; try reflexivity.
  cbn [prune_load]. f_equal. rewrite flat_map_flat_map. apply flat_map_ext_in. intros [k x] Hx.
  rewrite !lts_nil, !orb_false_r. destruct (mem k B) eqn:Eb.
  - rewrite (Hsub k Eb). reflexivity.
  - cbn [flat_map]. rewrite lts_nil, orb_false_r, app_nil_r. destruct (mem k A); [reflexivity|].
    do 2 f_equal. rewrite Forall_forall in H. exact (H _ Hx).
Qed.

Lemma mem_app_r k A B : mem k B = true -> mem k (A ++ B) = true.
Proof. intros H. rewrite mem_app, H. apply orb_true_r. Qed.

(* skip_exact on the quantified (attribute-nested) graphs *)
Theorem skip_exact_names sn_s sn_l v :
  wf_obj v = true -> attr_nested v = true ->
  load_file sn_l [] (save_file sn_s [] v) = RVal (prune_load (sn_l ++ sn_s) [] (norm v)).
Proof.
  intros Hw Hn. rewrite load_save_skip by exact Hw. cbn [filter app].
  rewrite (prune_save_attr_nested sn_s v Hn), norm_prune_load.
  rewrite prune_load_absorb; [reflexivity|]. intros k. apply mem_app_r.
Qed.

(* (d) absent names *)
Lemma prune_save_absent sn v : (forall k, In k (all_names v) -> mem k sn = false) -> prune_save sn [] v = v.
Proof.
  induction v using value_ind'; intros Ha; try reflexivity; cbn [prune_save all_names] in *.
  - f_equal. apply map_id_in. intros x Hx. rewrite Forall_forall in H. apply (H x Hx). intros k Hk. apply Ha. apply in_flat_map. exists x. split; assumption.
  - f_equal. apply map_id_in. intros x Hx. rewrite Forall_forall in H. apply (H x Hx). intros k Hk. apply Ha. apply in_flat_map. exists x. split; assumption.
  - f_equal. apply map_id_in. intros x Hx. rewrite Forall_forall in H. apply (H x Hx). intros k Hk. apply Ha. apply in_flat_map. exists x. split; assumption.
  - f_equal. apply map_id_in. intros [k x] Hx. f_equal. rewrite Forall_forall in H. apply (H _ Hx). intros k' Hk. apply Ha. apply in_flat_map. exists (k, x). split; assumption.
  - f_equal. apply flat_map_single_id. intros [k x] Hx. rewrite inst_any_nil, orb_false_r.
    rewrite (Ha k) by (apply in_flat_map; exists (k, x); split; [exact Hx | left; reflexivity]).
    do 2 f_equal. rewrite Forall_forall in H. apply (H _ Hx). intros k' Hk. apply Ha. apply in_flat_map. exists (k, x). split; [exact Hx | right; exact Hk].
Qed.

Lemma prune_load_absent sn v : (forall k, In k (all_names v) -> mem k sn = false) -> prune_load sn [] v = v.
Proof.
  induction v using value_ind'; intros Ha; try reflexivity; cbn [prune_load all_names] in *.
  f_equal. apply flat_map_single_id. intros [k x] Hx. rewrite lts_nil, orb_false_r.
  rewrite (Ha k) by (apply in_flat_map; exists (k, x); split; [exact Hx | left; reflexivity]).
  do 2 f_equal. rewrite Forall_forall in H. apply (H _ Hx). intros k' Hk. apply Ha. apply in_flat_map. exists (k, x). split; [exact Hx | right; exact Hk].
Qed.

Theorem skip_absent_names sn_s sn_l v :
  wf_obj v = true -> (forall k, In k (all_names v) -> mem k (sn_l ++ sn_s) = false) ->
  load_file sn_l [] (save_file sn_s [] v) = RVal (norm v).
Proof.
  intros Hw Ha. rewrite load_save_skip by exact Hw. cbn [filter app].
  rewrite prune_save_absent.
  - rewrite <- norm_prune_load, prune_load_absent by exact Ha. reflexivity.
  - intros k Hk. specialize (Ha k Hk). rewrite mem_app in Ha. apply orb_false_iff in Ha. tauto.
Qed.

(* (e) types: what save-time type skipping left is never removed by the recorded type list *)
Lemma hd_types_of_in v : In (exact_ty v) (types_of v).
Proof.
  unfold exact_ty. destruct (types_of v) as [|t r] eqn:E; [|left; reflexivity].
  exfalso. unfold types_of in E. apply app_eq_nil in E. destruct E as [_ E]. discriminate.
Qed.

Lemma lts_inst_any st v : load_type_skipped st v = true -> inst_any v st = true.
Proof.
  unfold load_type_skipped. intros H.
  assert (Hm : mem (exact_ty v) st = true).
  { destruct (sclass_of v); [discriminate | destruct v; try discriminate; exact H | destruct v; try discriminate; exact H]. }
  unfold inst_any. apply existsb_exists. exists (exact_ty v). split; [apply mem_In; exact Hm|].
  apply mem_In. unfold isa. apply in_or_app. left. apply hd_types_of_in.
Qed.

Lemma lts_prune_save sn st st' v : load_type_skipped st' (prune_save sn st v) = load_type_skipped st' v.
Proof. destruct v; reflexivity. Qed.

Lemma In_reorder (kv : string * value) l : In kv (reorder l) -> In kv l.
Proof. unfold reorder. rewrite !in_app_iff, !filter_In. tauto. Qed.

Theorem prune_load_types_noop sn sn' st v :
  prune_load sn st (norm (prune_save sn' st v)) = prune_load sn [] (norm (prune_save sn' st v)).
Proof.
  induction v using value_ind'; try reflexivity.
  - destruct n; reflexivity.
  - cbn [prune_save norm prune_load]. f_equal. fold (pstep_save sn' st). apply flat_map_ext_in. intros [k y] Hy.
    apply In_reorder in Hy. apply in_map_iff in Hy. destruct Hy as [[k' y'] [He Hy]]. injection He as -> <-.
    apply in_pstep_save in Hy. destruct Hy as [x (Hx & -> & _ & Hi)].
    rewrite lts_nil, lts_norm, lts_prune_save.
    destruct (load_type_skipped st x) eqn:El; [apply lts_inst_any in El; congruence|].
    destruct (mem k sn); [reflexivity|]. cbn [orb]. do 2 f_equal. rewrite Forall_forall in H. exact (H _ Hx).
Qed.

(* skipping by type at save time *)
Theorem skip_types_at_save st v :
  wf_obj v = true -> load_file [] [] (save_file [] st v) = RVal (norm (prune_save [] st v)).
Proof.
  intros Hw. rewrite load_save_skip by exact Hw. cbn [app].
  rewrite filter_true by reflexivity. rewrite prune_load_types_noop, prune_load_nil. reflexivity.
Qed.

(* skipping names at load time gives the same object as skipping them at save time *)
Theorem skip_save_eq_load S v :
  wf_obj v = true -> attr_nested v = true ->
  load_file S [] (save_file [] [] v) = load_file [] [] (save_file S [] v).
Proof.
  intros Hw Hn. rewrite !skip_exact_names by assumption. rewrite app_nil_r. reflexivity.
Qed.

(* a store that still CONTAINS every attribute but has skip lists recorded in its root loads, without
   any skip argument, exactly like a load that repeats the lists: the file-stored lists alone suffice *)
Theorem skip_recorded sn st v :
  wf_obj v = true ->
  load_file [] [] (set_attr "_autoserialize_skip_types" (JList (map JStr st))
                     (set_attr "_autoserialize_skip_names" (JList (map JStr sn)) (encode_root [] [] v)))
  = load_file sn st (save_file [] [] v) /\
  load_file sn st (save_file [] [] v) = RVal (prune_load sn st (norm v)).
Proof.
  intros Hw. rewrite (load_skip_plain_file sn st v Hw). split; [|reflexivity].
  destruct v; cbn [wf_obj] in Hw; try discriminate. rewrite encode_root_subg.
  rewrite (load_saved_obj [] [] sn st cmod cname fields Hw). cbn [app]. rewrite filter_true by reflexivity. reflexivity.
Qed.

(* pruning depends on the name list only through membership *)
Lemma prune_load_mem_ext A B st v : (forall k, mem k A = mem k B) -> prune_load A st v = prune_load B st v.
Proof.
  intros Hm. induction v using value_ind'; try reflexivity.
  cbn [prune_load]. f_equal. apply flat_map_ext_in. intros [k x] Hx.
  rewrite Hm. destruct (mem k B || load_type_skipped st x)%bool; [reflexivity|]. do 2 f_equal.
  rewrite Forall_forall in H. exact (H _ Hx).
Qed.

(* ... and when the lists were recorded by a save that skipped, a later plain load and a load
   repeating them agree *)
Theorem skip_recorded_save sn v :
  wf_obj v = true -> load_file [] [] (save_file sn [] v) = load_file sn [] (save_file sn [] v).
Proof.
  intros Hw. rewrite !load_save_skip by exact Hw. cbn [filter app]. f_equal.
  apply prune_load_mem_ext. intros k. rewrite mem_app, orb_diag. reflexivity.
Qed.
