(* C14 — (a) stores written WITH skip lists also have unique member names, (b) which root
   attributes survive save-time type skipping, stated through isinstance (MRO + virtual-subclass
   table), (c) the table itself. *)
From QV.lib Require Import Prelude.
From QV.model Require Import C01_Model.
From QV.proof Require Import C01_Proofs_Base C01_Proofs_Enc C01_Proofs_Dec C01_Proofs_Struct C01_Proofs_Main
     C01_Proofs_RT C01_Proofs_Norm C01_Proofs_Store C01_Proofs_Written C14_Proofs.
From Coq Require Import String Ascii Permutation.
Local Open Scope string_scope.
Local Open Scope list_scope.

Theorem wf_node_save_skip sn st v : wf_obj v = true -> wf_node (save_file sn st v) = true.
Proof.
  intros Hw. unfold save_file. rewrite !wf_node_set_attr, encode_root_prune.
  destruct v; cbn [wf_obj] in Hw; try discriminate.
  pose proof (wf_prune_save sn st _ false Hw) as Hw'. cbn [prune_save] in *.
  rewrite encode_root_subg. exact (wf_node_subg _ false Hw').
Qed.

(* both stores, with skip lists *)
Theorem skip_both_stores usn ust sn st v :
  wf_obj v = true ->
  let t := save_file sn st v in
  unflatten (depth t) (unzip_store (zip_store (flatten t))) = Some t /\
  unflatten (depth t) (flatten t) = Some t /\
  load_file usn ust t =
  RVal (prune_load (usn ++ sn) (ust ++ filter (fun t => negb (mem t ust)) st) (norm (prune_save sn st v))).
Proof.
  intros Hw t. destruct (store_independent t (wf_node_save_skip sn st v Hw)) as [H1 H2].
  split; [exact H1|]. split; [exact H2|]. apply load_save_skip. exact Hw.
Qed.

(* ------------------------------------------------------------------ which attributes survive type skipping *)
Lemma In_fst_reorder (l : list (string * value)) k : In k (map fst (reorder l)) <-> In k (map fst l).
Proof.
  pose proof (Permutation_map fst (reorder_perm l)) as Hp.
  split; intros H; [apply (Permutation_in _ (Permutation_sym Hp)) | apply (Permutation_in _ Hp)]; exact H.
Qed.

(* the attribute NAMES of the object loaded after save(skip=types): exactly the names of the
   attributes that are not an instance (isinstance: MRO or virtual subclass) of a listed type *)
Theorem skip_types_names st m c l :
  wf_obj (VObj m c l) = true ->
  exists l', load_file [] [] (save_file [] st (VObj m c l)) = RVal (VObj m c l') /\
             forall k, In k (map fst l') <-> exists x, In (k, x) l /\ inst_any x st = false.
Proof.
  intros Hw. rewrite (skip_types_at_save st _ Hw). cbn [prune_save norm]. eexists. split; [reflexivity|].
  intros k. rewrite In_fst_reorder, map_fst_nkv. fold (pstep_save [] st). split.
  - intros Hi. apply in_map_iff in Hi. destruct Hi as [[k' y] [<- Hi]]. cbn [fst].
    apply in_pstep_save in Hi. destruct Hi as [x (Hx & _ & _ & Hn)]. exists x. split; assumption.
  - intros [x [Hx Hn]]. apply in_map_iff. exists (k, prune_save [] st x). split; [reflexivity|].
    apply in_flat_map. exists (k, x). split; [exact Hx|]. unfold pstep_save. cbn [mem existsb orb]. rewrite Hn. left. reflexivity.
Qed.

(* isinstance against the table: a listed abstract base class removes its virtual subclasses *)
Lemma inst_any_abc v t st : In t st -> In t (abcs_of v) -> inst_any v st = true.
Proof.
  intros Hs Ha. unfold inst_any. apply existsb_exists. exists t. split; [exact Hs|].
  apply mem_In. unfold isa. apply in_or_app. right. exact Ha.
Qed.

Lemma inst_any_mro v t st : In t st -> In t (types_of v) -> inst_any v st = true.
Proof.
  intros Hs Ha. unfold inst_any. apply existsb_exists. exists t. split; [exact Hs|].
  apply mem_In. unfold isa. apply in_or_app. left. exact Ha.
Qed.

Lemma inst_any_iff v st : inst_any v st = true <-> exists t, In t st /\ (In t (types_of v) \/ In t (abcs_of v)).
Proof.
  unfold inst_any. rewrite existsb_exists. split.
  - intros [t [Hs Hm]]. apply mem_In in Hm. unfold isa in Hm. apply in_app_or in Hm. exists t. split; assumption.
  - intros [t [Hs Hm]]. exists t. split; [exact Hs|]. apply mem_In. unfold isa. apply in_or_app. exact Hm.
Qed.

(* the table only ever names classes of its stated domain *)
Lemma abcs_in_domain v t : In t (abcs_of v) -> In t abc_domain.
Proof.
  assert (HH : forall l, (forall x, In x l -> mem x abc_domain = true) -> In t l -> In t abc_domain).
  { intros l Hl Hi. apply mem_In. apply Hl. exact Hi. }
  destruct v; cbn [abcs_of];
    repeat match goal with |- context [if ?b then _ else _] => destruct b end;
    intros Hi; (eapply HH; [|exact Hi]); intros x Hx; cbn in Hx;
    repeat (destruct Hx as [<-|Hx]; [reflexivity|]); destruct Hx.
Qed.
