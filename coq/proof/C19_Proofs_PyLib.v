(* C19 — lemmas about the fixed Python meanings of model/C19_PyLib.v, independent of the generated file *)
From QV.lib Require Import Prelude.
From QV.model Require Import C19_Model C19_Model2 C19_PyLib.
From QV.proof Require Import C19_Proofs_Keys.
From Coq Require Import String Ascii DecimalString Decimal.

(* the text of an int never starts with "c" *)
Lemma int_text_not_cpu z : cpu_text (NilZero.string_of_int (Z.to_int z)) = false.
Proof.
  destruct (Z.to_int z) as [u|u]; cbn [NilZero.string_of_int].
  - unfold NilZero.string_of_uint. destruct u; reflexivity.
  - destruct u; reflexivity.
Qed.

(* the device gate of check_key_val on the text of the value = the model's cpu_request *)
Lemma gate_text s :
  (String.eqb s "cpu" || (is_prefix "cpu:" s && py_isdigit (py_drop4 s)))%bool = cpu_text s.
Proof. unfold cpu_text, py_isdigit, py_drop4. rewrite Bool.andb_assoc. reflexivity. Qed.

Lemma cpu_gate_spec v :
  (String.eqb (py_str v) "cpu" || (is_prefix "cpu:" (py_str v) && py_isdigit (py_drop4 (py_str v))))%bool
  = cpu_request v.
Proof.
  rewrite gate_text. destruct v as [[|[]|z|s]|l]; try reflexivity.
  exact (int_text_not_cpu z).
Qed.

Lemma cfg_depth_node_pos l : (1 <= cfg_depth (Node l))%nat.
Proof. cbn. lia. Qed.

Lemma cfg_depth_cons k v l :
  cfg_depth (Node ((k, v) :: l)) = S (Nat.max (cfg_depth v) (pred (cfg_depth (Node l)))).
Proof. reflexivity. Qed.

Lemma cfg_depth_head k v l n : (cfg_depth (Node ((k, v) :: l)) <= S n -> cfg_depth v <= n)%nat.
Proof. rewrite cfg_depth_cons. lia. Qed.

Lemma cfg_depth_tail k v l n : (cfg_depth (Node ((k, v) :: l)) <= n -> cfg_depth (Node l) <= n)%nat.
Proof. rewrite cfg_depth_cons. pose proof (cfg_depth_node_pos l). lia. Qed.

Lemma err_in_spec e l : err_in e l = true <-> In e l.
Proof.
  induction l as [|x r IH]; cbn; [split; [discriminate | tauto]|].
  rewrite Bool.orb_true_iff, IH. split; (intros [H|H]; [left | right; exact H]).
  - destruct e, x; try discriminate; reflexivity.
  - subst. destruct e; reflexivity.
Qed.

(* canon through the membership test of PyLib *)
Lemma mem_lookup k d : mem k d = match lookup k d with Some _ => true | None => false end.
Proof. reflexivity. Qed.

Lemma lookup_canon_mem k d : mem (canon k d) d = mem k d || mem (alt_name k) d.
Proof.
  unfold canon. destruct (mem k d) eqn:A; cbn; [exact A|].
  destruct (mem (alt_name k) d) eqn:B; [exact B | exact A].
Qed.
