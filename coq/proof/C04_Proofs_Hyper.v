(* C04 — proofs about the hyper-parameter layers and the kernel-name dispatch (model/C04_Hyper_Model.v) *)
From Coq Require Import List Bool String Ascii Arith ZArith Lia.
From QV.model Require Import C04_Hyper_Model.
Import ListNotations.
Local Open Scope string_scope.

Section Layers.
  Variables K V : Type.
  Implicit Types init opt : dict K V.

  Lemma d_update_lookup : forall (a b : dict K V) k,
      d_update a b k = match b k with Some v => Some v | None => a k end.
  Proof. reflexivity. Qed.

  Lemma d_update_assoc : forall (a b c : dict K V), dict_eq (d_update a (d_update b c)) (d_update (d_update a b) c).
  Proof. intros a b c k. unfold d_update. destruct (c k); [reflexivity|]. destruct (b k); reflexivity. Qed.

  Lemma d_update_empty_r : forall (a : dict K V), dict_eq (d_update a d_empty) a.
  Proof. intros a k. reflexivity. Qed.

  Lemma d_update_empty_l : forall (a : dict K V), dict_eq (d_update d_empty a) a.
  Proof. intros a k. unfold d_update, d_empty. destruct (a k); reflexivity. Qed.

  (* the merge is the priority rule: override, else optimised, else construction value -- key by key *)
  Lemma merge_layers_priority : forall init opt (ovr : option (dict K V)) k,
      merge_layers init opt ovr k = layer_lookup init opt ovr k.
  Proof.
    intros init opt ovr k. unfold merge_layers, layer_lookup, d_update.
    destruct ovr as [o|]; [destruct (o k); reflexivity | reflexivity].
  Qed.

  (* a value set by the latest layer that sets the key is the value in force, WHATEVER it is *)
  Lemma merge_override_wins : forall init opt (o : dict K V) k v,
      o k = Some v -> merge_layers init opt (Some o) k = Some v.
  Proof. intros init opt o k v H. unfold merge_layers, d_update. rewrite H. reflexivity. Qed.

  Lemma merge_optimised_wins : forall init opt (ovr : option (dict K V)) k v,
      (match ovr with Some o => o k | None => None end) = None -> opt k = Some v ->
      merge_layers init opt ovr k = Some v.
  Proof.
    intros init opt ovr k v Ho Hv. rewrite merge_layers_priority. unfold layer_lookup. rewrite Ho, Hv. reflexivity.
  Qed.

  Lemma merge_untouched_key : forall init opt (ovr : option (dict K V)) k,
      (match ovr with Some o => o k | None => None end) = None -> opt k = None ->
      merge_layers init opt ovr k = init k.
  Proof.
    intros init opt ovr k Ho Hv. rewrite merge_layers_priority. unfold layer_lookup. rewrite Ho, Hv. reflexivity.
  Qed.

  (* the merge looks at keys only: it commutes with any relabelling of the values *)
  Lemma merge_layers_natural : forall (W : Type) (f : V -> W) init opt (ovr : option (dict K V)) k,
      option_map f (merge_layers init opt ovr k) =
      merge_layers (fun x => option_map f (init x)) (fun x => option_map f (opt x))
                   (option_map (fun o x => option_map f (o x)) ovr) k.
  Proof.
    intros W f init opt ovr k. unfold merge_layers, d_update.
    destruct ovr as [o|]; cbn; [destruct (o k); cbn; [reflexivity|] |]; destruct (opt k); reflexivity.
  Qed.

  Lemma merge_layers_ext : forall init init' opt opt' (o o' : dict K V),
      dict_eq init init' -> dict_eq opt opt' -> dict_eq o o' ->
      dict_eq (merge_layers init opt (Some o)) (merge_layers init' opt' (Some o')) /\
      dict_eq (merge_layers init opt None) (merge_layers init' opt' None).
  Proof.
    intros init init' opt opt' o o' Hi Ho Hv. unfold merge_layers, d_update.
    split; intro k; rewrite ?Hv, Ho, Hi; reflexivity.
  Qed.

  (* rotation angle *)
  Lemma eff_rotation_override : forall (v : V) (o i : option V) d, eff_rotation (Some v) o i d = v.
  Proof. reflexivity. Qed.
  Lemma eff_rotation_optimised : forall (v : V) (i : option V) d, eff_rotation None (Some v) i d = v.
  Proof. reflexivity. Qed.
  Lemma eff_rotation_initial : forall (v : V) d, eff_rotation None None (Some v) d = v.
  Proof. reflexivity. Qed.

  (* the reconstruction is the function of the EFFECTIVE parameters: a layered object and a fresh object constructed with
     the effective values give the same result, for every `rec` that reads its dictionary through lookups only *)
  Variable Res : Type.
  Variable rec : dict K V -> V -> Res.
  Variable zero : V.
  Hypothesis rec_ext : forall d d' r, dict_eq d d' -> rec d r = rec d' r.

  Lemma layered_is_fresh_effective : forall init irot opt orot (ovr : option (dict K V)) ovrrot,
      layered_call rec zero init irot opt orot ovr ovrrot =
      fresh_call rec zero (merge_layers init opt ovr) (eff_rotation ovrrot orot irot zero).
  Proof.
    intros. unfold fresh_call, layered_call. cbn [eff_rotation merge_layers].
    apply rec_ext. intro k. symmetry. apply d_update_empty_r.
  Qed.

  (* two layer histories with the same effective parameters give the same result *)
  Lemma same_effective_same_result : forall init irot opt orot ovr ovrrot init' irot' opt' orot' ovr' ovrrot',
      dict_eq (merge_layers init opt ovr) (merge_layers init' opt' ovr') ->
      eff_rotation ovrrot orot irot zero = eff_rotation ovrrot' orot' irot' zero ->
      layered_call rec zero init irot opt orot ovr ovrrot = layered_call rec zero init' irot' opt' orot' ovr' ovrrot'.
  Proof. intros. unfold layered_call. rewrite H0. apply rec_ext. exact H. Qed.
End Layers.

(* the variant that drops vanishing entries of every layer BEFORE merging is a different function: it lets a zero in a
   later layer fall through to the earlier, non-zero value *)
Lemma pruned_merge_differs :
  exists (init opt : dict nat Z) (ovr : option (dict nat Z)) (k : nat),
    merge_layers init opt ovr k = Some 0%Z /\
    merge_layers_pruned (Z.eqb 0) init opt ovr k = Some 150%Z.
Proof.
  exists (of_alist [(0%nat, 150%Z)]), d_empty, (Some (of_alist [(0%nat, 0%Z)])), 0%nat.
  split; reflexivity.
Qed.

(* pruning AFTER the merge is harmless for any reader that treats an absent key as zero *)
Lemma prune_after_merge_harmless : forall (K V : Type) (is_zero : V -> bool) (zero : V)
    (Hz : forall v, is_zero v = true -> v = zero) (d : dict K V) k,
    match d_prune is_zero d k with Some v => v | None => zero end = match d k with Some v => v | None => zero end.
Proof.
  intros K V is_zero zero Hz d k. unfold d_prune. destruct (d k) as [v|]; [|reflexivity].
  destruct (is_zero v) eqn:E; [symmetry; apply Hz; exact E | reflexivity].
Qed.

(* ------------------------------------------------------------------ association lists (the runnable instance) *)
Lemma alist_get_app : forall (V : Type) k (a b : list (nat * V)),
    alist_get k (a ++ b) = match alist_get k a with Some v => Some v | None => alist_get k b end.
Proof.
  intros V k a b. induction a as [|[k' v] a IH]; cbn; [reflexivity|]. destruct (Nat.eqb k k'); [reflexivity | exact IH].
Qed.

(* writing the entries of b after those of a IS the update *)
Lemma of_alist_app : forall (V : Type) (a b : list (nat * V)),
    dict_eq (of_alist (a ++ b)) (d_update (of_alist a) (of_alist b)).
Proof.
  intros V a b k. unfold of_alist, d_update. rewrite rev_app_distr, alist_get_app. reflexivity.
Qed.

(* ------------------------------------------------------------------ kernel names *)
Lemma slookup_in : forall s l c, slookup s l = Some c -> In (s, c) l.
Proof.
  intros s l c. induction l as [|[a b] l IH]; cbn; [discriminate|].
  destruct (String.eqb s a) eqn:E; [|auto].
  intros H. injection H as <-. apply String.eqb_eq in E. subst. left. reflexivity.
Qed.

(* the result of the name normalisation is one of the five kernels *)
Lemma normalize_kernel_canonical : forall lower k c,
    normalize_kernel lower k = Some c -> In c canonical_kernels.
Proof.
  intros lower k c H. apply slookup_in in H. unfold kernel_aliases in H. cbn in H.
  repeat (destruct H as [H|H]; [injection H as _ <-; cbn; tauto|]). contradiction.
Qed.

(* each of the five kernels is its own alias (so the normalisation is idempotent) *)
Lemma canonical_kernel_fixed : forall c, In c canonical_kernels -> slookup c kernel_aliases = Some c.
Proof.
  intros c H. cbn in H. repeat (destruct H as [<-|H]; [reflexivity|]). contradiction.
Qed.

Lemma normalize_kernel_idempotent : forall lower k c,
    normalize_kernel lower k = Some c -> slookup c kernel_aliases = Some c.
Proof. intros lower k c H. apply canonical_kernel_fixed. eapply normalize_kernel_canonical. exact H. Qed.

(* the kernels that return a power from the first pass are exactly the two-pass kernels; the gamma branch serves exactly
   ssb / obf / mf; ssb is the only one that divides by |gamma| *)
Lemma dispatch_consistent : forall c, In c canonical_kernels ->
    returns_power c = two_pass c /\
    (two_pass c = true -> kernel_branch c = BrGamma) /\
    (ssb_divides c = true -> kernel_branch c = BrGamma /\ two_pass c = false) /\
    (kernel_branch c = BrPrlx <-> c = "prlx") /\ (kernel_branch c = BrIcom <-> c = "icom").
Proof.
  intros c H. cbn in H.
  repeat (destruct H as [<-|H]; [vm_compute; repeat split; intros; try discriminate; try reflexivity|]).
  contradiction.
Qed.
