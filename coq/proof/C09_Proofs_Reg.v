(* C09 — proofs about the loss algebra with an additive regulariser (model/C09_Model_Reg.v). *)
From QV.lib Require Import Prelude Chunks FloatBits.
From QV.model Require Import C09_Model C09_Model_Ext C09_Model_Reg.
From QV.proof Require Import C09_Proofs C09_Proofs_Ext.
From Coq Require Import QArith.
Local Close Scope Q_scope.
Set Implicit Arguments.
Local Open Scope Q_scope.

Lemma sumQ_map_plus (A : Type) (f g : A -> Q) (l : list A) :
  sumQ (map (fun x => f x + g x) l) == sumQ (map f l) + sumQ (map g l).
Proof. induction l as [|x l IH]; cbn [map sumQ]; [ring | rewrite IH; ring]. Qed.

Lemma sumQ_map_const (A : Type) (r : Q) (l : list A) : sumQ (map (fun _ => r) l) == qn (length l) * r.
Proof.
  induction l as [|x l IH]; cbn [map sumQ length].
  - unfold qn. cbn. ring.
  - rewrite IH. unfold qn. rewrite Nat2Z.inj_succ, <- Z.add_1_r, inject_Z_plus. ring.
Qed.

Lemma sumQ_map_ext (A : Type) (f g : A -> Q) (l : list A) :
  (forall x, In x l -> f x == g x) -> sumQ (map f l) == sumQ (map g l).
Proof.
  induction l as [|x l IH]; intros H; cbn [map sumQ]; [reflexivity|].
  rewrite (H x (or_introl eq_refl)), IH; [reflexivity|]. intros y Hy. apply H. right. exact Hy.
Qed.

(* mean over the batches of (scaled data term + r) = full data term + r — for ANY family of
   batches of one common size, whatever the regulariser value r *)
Theorem mean_over_reg_batches_eq_full (N : nat) (I r : Q) (b : nat) (bs : list (list Q)) :
  (1 <= b)%nat -> (1 <= N)%nat -> (1 <= length bs)%nat ->
  (forall c, In c bs -> length c = b) ->
  mean_over_reg_batches N I r bs == reg_batch_loss N I r (concat bs).
Proof.
  intros Hb HN Hm Hall. unfold mean_over_reg_batches, reg_batch_loss.
  rewrite (sumQ_map_plus (batch_loss N I) (fun _ => r)), sumQ_map_const.
  rewrite <- (mean_over_equal_batches I bs Hb HN Hm Hall). unfold mean_over_batches.
  pose proof (qn_nz Hm) as Hmq. field. exact Hmq.
Qed.

(* every gradient component, batches given as the lists of per-pattern gradient vectors *)
Theorem mean_over_reg_batch_grads_eq_full (N : nat) (I : Q) (rg : list Q) (b : nat)
        (bss : list (list (list Q))) (j : nat) :
  (1 <= b)%nat -> (1 <= N)%nat -> (1 <= length bss)%nat ->
  (forall gs, In gs bss -> length gs = b) ->
  mean_over_reg_batch_grads N I rg bss j == reg_batch_grad N I rg (concat bss) j.
Proof.
  intros Hb HN Hm Hall. unfold mean_over_reg_batch_grads, reg_batch_grad, batch_grad.
  rewrite (sumQ_map_plus (fun gs => batch_loss N I (map (comp j) gs)) (fun _ => comp j rg)), sumQ_map_const.
  rewrite concat_map.
  assert (Hall' : forall c, In c (map (map (comp j)) bss) -> length c = b).
  { intros c Hc. apply in_map_iff in Hc. destruct Hc as [gs [<- Hgs]]. rewrite map_length. apply Hall. exact Hgs. }
  assert (Hm' : (1 <= length (map (map (comp j)) bss))%nat) by (rewrite map_length; exact Hm).
  rewrite <- (mean_over_equal_batches I (map (map (comp j)) bss) Hb HN Hm' Hall').
  unfold mean_over_batches. rewrite map_map, map_length.
  pose proof (qn_nz Hm) as Hmq. field. exact Hmq.
Qed.

(* the regulariser weighted by the batch share: m equal batches that cover all N = m*b patterns
   give   full data term + r/m   — the regulariser is counted 1/m times *)
Theorem frac_reg_mean_factor (I r : Q) (b m : nat) (bs : list (list Q)) :
  (1 <= b)%nat -> (1 <= m)%nat -> length bs = m ->
  (forall c, In c bs -> length c = b) ->
  mean_over_frac_reg_batches (m * b) I r bs == batch_loss (m * b) I (concat bs) + r / qn m.
Proof.
  intros Hb Hm Hl Hall. unfold mean_over_frac_reg_batches.
  assert (HN : (1 <= m * b)%nat) by nia.
  assert (Hm' : (1 <= length bs)%nat) by (rewrite Hl; exact Hm).
  rewrite (sumQ_map_ext (frac_reg_batch_loss (m * b) I r)
                        (fun c => batch_loss (m * b) I c + (qn b / qn (m * b)) * r)).
  2:{ intros c Hc. unfold frac_reg_batch_loss. rewrite (Hall c Hc). reflexivity. }
  rewrite (sumQ_map_plus (batch_loss (m * b) I) (fun _ => qn b / qn (m * b) * r)), sumQ_map_const.
  rewrite <- (mean_over_equal_batches I bs Hb HN Hm' Hall). unfold mean_over_batches.
  rewrite Hl, qn_mul.
  pose proof (qn_nz Hm) as Hmq. pose proof (qn_nz Hb) as Hbq. field. split; assumption.
Qed.

Definition frac_reg_batch_mean_statement : Prop :=
  forall (I r : Q) (b m : nat) (bs : list (list Q)),
    (1 <= b)%nat -> (1 <= m)%nat -> length bs = m -> (forall c, In c bs -> length c = b) ->
    mean_over_frac_reg_batches (m * b) I r bs == reg_batch_loss (m * b) I r (concat bs).

Theorem frac_reg_batch_mean_refuted : ~ frac_reg_batch_mean_statement.
Proof.
  intros H. specialize (H 1 1 1%nat 2%nat [[1]; [1]] (le_n _) (le_S _ _ (le_n _)) eq_refl).
  assert (Hall : forall c : list Q, In c [[1]; [1]] -> length c = 1%nat).
  { intros c [<-|[<-|[]]]; reflexivity. }
  specialize (H Hall). vm_compute in H. discriminate H.
Qed.
Local Close Scope Q_scope.
