(* C13 — the zero-frequency bin (fixes/C13-zero-frequency-term.diff, /repo 48bfab4).
   Both estimators set cc[0, 0] = 0 before the inverse transform.
   Part A (Q / nat, no axioms): subtracting a constant from the correlation array (and another one
     from the upsampled window) changes NOTHING the estimators compute: first-maximum argmax (with
     and without the -inf mask), both parabolas, the half-pixel rounding, the window argmax, the
     returned pair — for EVERY array, mask, factor (not only unique peaks).
   Part B (abstract ring of lib/DFT2.v): zeroing the (0,0) bin of a spectrum subtracts the
     constant Ninv1 Ninv2 F[0,0] from its inverse transform, and the constant F[0,0] from every
     sample of the matrix-multiply upsampled window (NumPy and torch kernels).
   Together: every theorem proved about the full correlation array holds verbatim for the array
   the repaired code forms. *)
From QV.lib Require Import Prelude.
From QV.model Require Import C13_Model.
From QV.proof Require Import C13_Proofs C13_Proofs_Est C13_Proofs_Swap.
From Coq Require Import QArith Qround Qabs Psatz.
Local Close Scope Q_scope.
Set Implicit Arguments.

Local Notation "x ==q y" := (Qeq x y) (at level 70, no associativity).

(* ================================================================ Part A *)
(* c' is c minus the constant c0 on the (M x N) grid *)
Definition off (M N : nat) (c0 : Q) (c c' : nat -> nat -> Q) : Prop :=
  forall k l, k < M -> l < N -> c' k l ==q (c k l - c0)%Q.

Lemma Qle_bool_comp2 a b a' b' : (a <= b <-> a' <= b')%Q -> Qle_bool a b = Qle_bool a' b'.
Proof.
  intros H. destruct (Qle_bool a b) eqn:E1, (Qle_bool a' b') eqn:E2; try reflexivity; exfalso.
  - apply Qle_bool_iff in E1. apply H in E1. apply Qle_bool_iff in E1. congruence.
  - apply Qle_bool_iff in E2. apply H in E2. apply Qle_bool_iff in E2. congruence.
Qed.

Lemma Qltb_off c a b a' b' : a' ==q (a - c)%Q -> b' ==q (b - c)%Q -> Qltb a' b' = Qltb a b.
Proof.
  intros Ea Eb. unfold Qltb. f_equal. apply Qle_bool_comp2. rewrite Ea, Eb. split; intros H; lra.
Qed.

(* ---------------------------------------------------------------- argmax *)
Lemma argmax_bound f n : argmax f n < S n.
Proof. destruct n; [cbn; lia|]. pose proof (@argmax_lt f (S n)). lia. Qed.

Lemma argmax_off c f f' n : (forall i, i < n -> f' i ==q (f i - c)%Q) -> argmax f' n = argmax f n.
Proof.
  induction n as [|k IH]; intros H; [reflexivity|]. cbn [argmax].
  rewrite IH by (intros; apply H; lia).
  destruct k as [|k].
  - cbn [argmax]. rewrite (@Qltb_off c (f 0) (f 0)) by (apply H; lia). reflexivity.
  - assert (B : argmax f (S k) < S k) by (apply argmax_lt; lia).
    rewrite (@Qltb_off c (f (argmax f (S k))) (f (S k))) by (apply H; lia). reflexivity.
Qed.

Lemma flat_bounds M N i : i < M * N -> i / N < M /\ i mod N < N.
Proof.
  intros H. assert (N <> 0) by (intros ->; lia). split.
  - apply Nat.div_lt_upper_bound; [assumption | lia].
  - apply Nat.mod_upper_bound. assumption.
Qed.

Lemma argmax2_off M N c0 c c' : off M N c0 c c' -> argmax2 M N c' = argmax2 M N c.
Proof.
  intros H. unfold argmax2.
  rewrite (@argmax_off c0 (flat N c) (flat N c')); [reflexivity|].
  intros i Hi. unfold flat. destruct (flat_bounds _ _ Hi). apply H; assumption.
Qed.

Lemma argmax2_bounds M N c : 0 < M -> 0 < N -> fst (argmax2 M N c) < M /\ snd (argmax2 M N c) < N.
Proof.
  intros HM HN. unfold argmax2. cbn [fst snd]. apply flat_bounds. apply argmax_lt. nia.
Qed.

(* ... with -inf entries *)
Definition orel (c : Q) (a a' : option Q) : Prop :=
  match a, a' with
  | Some x, Some x' => x' ==q (x - c)%Q
  | None, None => True
  | _, _ => False
  end.

Lemma oltb_off c a b a' b' : orel c a a' -> orel c b b' -> oltb a' b' = oltb a b.
Proof.
  destruct a, a', b, b'; cbn [orel oltb]; try tauto. apply Qltb_off.
Qed.

Lemma argmaxo_off c f f' n : (forall i, i < n -> orel c (f i) (f' i)) -> argmaxo f' n = argmaxo f n.
Proof.
  induction n as [|k IH]; intros H; [reflexivity|]. cbn [argmaxo].
  rewrite IH by (intros; apply H; lia).
  destruct k as [|k].
  - cbn [argmaxo]. rewrite (@oltb_off c (f 0) (f 0)) by (apply H; lia). reflexivity.
  - assert (B : argmaxo f (S k) < S k) by (apply argmaxo_lt; lia).
    rewrite (@oltb_off c (f (argmaxo f (S k))) (f (S k))) by (apply H; lia). reflexivity.
Qed.

Lemma argmax2o_masked_off M N ms c0 c c' :
  off M N c0 c c' -> argmax2o M N (maskedo M N ms c') = argmax2o M N (maskedo M N ms c).
Proof.
  intros H. unfold argmax2o.
  rewrite (@argmaxo_off c0 (flato N (maskedo M N ms c)) (flato N (maskedo M N ms c'))); [reflexivity|].
  intros i Hi. unfold flato, maskedo. destruct (flat_bounds _ _ Hi) as [B1 B2].
  destruct ms as [m|]; [destruct (Qle_bool _ _)|]; cbn [orel]; try exact I; apply H; assumption.
Qed.

Lemma argmax2o_bounds M N c : 0 < M -> 0 < N -> fst (argmax2o M N c) < M /\ snd (argmax2o M N c) < N.
Proof.
  intros HM HN. unfold argmax2o. cbn [fst snd]. apply flat_bounds. apply argmaxo_lt. nia.
Qed.

(* ---------------------------------------------------------------- parabolas *)
Definition oeq (a b : option Q) : Prop :=
  match a, b with Some x, Some y => x ==q y | None, None => True | _, _ => False end.

Lemma parab_off c v0 v1 v2 w0 w1 w2 :
  w0 ==q (v0 - c)%Q -> w1 ==q (v1 - c)%Q -> w2 ==q (v2 - c)%Q -> oeq (parab v0 v1 v2) (parab w0 w1 w2).
Proof.
  intros E0 E1 E2. unfold parab.
  assert (ED : (4 * w1 - 2 * w2 - 2 * w0 ==q 4 * v1 - 2 * v2 - 2 * v0)%Q) by (rewrite E0, E1, E2; ring).
  assert (EN : (w2 - w0 ==q v2 - v0)%Q) by (rewrite E0, E2; ring).
  assert (EB : Qeq_bool (4 * w1 - 2 * w2 - 2 * w0) 0 = Qeq_bool (4 * v1 - 2 * v2 - 2 * v0) 0)
    by (apply Qeqb_comp; [exact ED | reflexivity]).
  rewrite EB. destruct (Qeq_bool (4 * v1 - 2 * v2 - 2 * v0) 0); cbn [oeq]; [exact I|].
  rewrite EN, ED. reflexivity.
Qed.

Lemma tparab_off c v0 v1 v2 w0 w1 w2 :
  w0 ==q (v0 - c)%Q -> w1 ==q (v1 - c)%Q -> w2 ==q (v2 - c)%Q -> tparab w0 w1 w2 ==q tparab v0 v1 v2.
Proof.
  intros E0 E1 E2. unfold tparab.
  assert (ED : (4 * w1 - 2 * w2 - 2 * w0 ==q 4 * v1 - 2 * v2 - 2 * v0)%Q) by (rewrite E0, E1, E2; ring).
  assert (EN : (w2 - w0 ==q v2 - v0)%Q) by (rewrite E0, E2; ring).
  assert (EB : Qeq_bool (4 * w1 - 2 * w2 - 2 * w0) 0 = Qeq_bool (4 * v1 - 2 * v2 - 2 * v0) 0)
    by (apply Qeqb_comp; [exact ED | reflexivity]).
  rewrite EB. destruct (Qeq_bool (4 * v1 - 2 * v2 - 2 * v0) 0); [reflexivity|].
  rewrite EN, ED. reflexivity.
Qed.

Lemma par_off g c v0 v1 v2 w0 w1 w2 :
  w0 ==q (v0 - c)%Q -> w1 ==q (v1 - c)%Q -> w2 ==q (v2 - c)%Q -> oeq (par g v0 v1 v2) (par g w0 w1 w2).
Proof.
  intros E0 E1 E2. destruct g; cbn [par].
  - rewrite !gparab_tparab. cbn [oeq]. symmetry. apply (tparab_off E0 E1 E2).
  - apply (parab_off E0 E1 E2).
Qed.

Lemma qmod_comp x y n : x ==q y -> qmod x n ==q qmod y n.
Proof. intros E. unfold qmod. rewrite E at 1. rewrite (Qfloor_comp _ _ (Qdiv_comp _ _ E _ _ (Qeq_refl _))). reflexivity. Qed.

(* ---------------------------------------------------------------- NumPy *)
Definition st1_eq (r r' : option ((nat * nat) * (Q * Q))) : Prop :=
  match r, r' with
  | Some ((p, q), (x, y)), Some ((p', q'), (x', y')) => p = p' /\ q = q' /\ x ==q x' /\ y ==q y'
  | None, None => True
  | _, _ => False
  end.

Lemma np_stage1_off M N ms c0 cc cc' :
  0 < M -> 0 < N -> off M N c0 cc cc' -> st1_eq (np_stage1 M N ms cc) (np_stage1 M N ms cc').
Proof.
  intros HM HN H. unfold np_stage1. rewrite (argmax2o_masked_off ms H).
  pose proof (argmax2o_bounds (maskedo M N ms cc) HM HN) as B.
  destruct (argmax2o M N (maskedo M N ms cc)) as [p q]. cbn [fst snd] in B. destruct B as [Bp Bq].
  cbv zeta. rewrite !gparab_tparab. cbn [st1_eq].
  pose proof (@wrapi_lt M) as WM. pose proof (@wrapi_lt N) as WN.
  split; [reflexivity|]. split; [reflexivity|].
  split; apply qmod_comp; apply Qplus_comp; try reflexivity; symmetry; apply (@tparab_off c0);
    apply H; auto; unfold prv, nxt; auto.
Qed.

Definition wr_eq (r r' : option ((nat * nat) * (Q * Q))) : Prop := st1_eq r r'.

Lemma win_refine_off g W c1 loc loc' :
  off W W c1 loc loc' -> wr_eq (win_refine g W loc) (win_refine g W loc').
Proof.
  intros H. unfold win_refine. rewrite (argmax2_off H).
  destruct (argmax2 W W loc) as [lx ly].
  destruct ((lx =? 0) || (W <=? lx + 1) || (ly =? 0) || (W <=? ly + 1))%bool eqn:E.
  - cbn. repeat split; reflexivity.
  - rewrite !orb_false_iff in E. destruct E as [[[E1 E2] E3] E4].
    apply Nat.eqb_neq in E1, E3. apply Nat.leb_gt in E2, E4.
    pose proof (@par_off g c1 _ _ _ _ _ _ (H (lx - 1) ly ltac:(lia) ltac:(lia)) (H lx ly ltac:(lia) ltac:(lia))
                  (H (lx + 1) ly ltac:(lia) ltac:(lia))) as Px.
    pose proof (@par_off g c1 _ _ _ _ _ _ (H lx (ly - 1) ltac:(lia) ltac:(lia)) (H lx ly ltac:(lia) ltac:(lia))
                  (H lx (ly + 1) ltac:(lia) ltac:(lia))) as Py.
    destruct (par g (loc (lx - 1) ly) (loc lx ly) (loc (lx + 1) ly)) as [dx|],
             (par g (loc' (lx - 1) ly) (loc' lx ly) (loc' (lx + 1) ly)) as [dx'|]; cbn [oeq] in Px; try tauto;
    destruct (par g (loc lx (ly - 1)) (loc lx ly) (loc lx (ly + 1))) as [dy|],
             (par g (loc' lx (ly - 1)) (loc' lx ly) (loc' lx (ly + 1))) as [dy'|]; cbn [oeq] in Py; try tauto;
    cbn; auto.
Qed.

Definition res_eq (r r' : option (Q * Q)) : Prop :=
  match r, r' with
  | Some (a, b), Some (a', b') => a ==q a' /\ b ==q b'
  | None, None => True
  | _, _ => False
  end.

(* the window of the DC-zeroed spectrum is the window minus a constant, whatever (Qeq-equal)
   position it is taken at *)
Definition ups_off (W : nat) (c1 : Q) (ups ups' : Q -> Q -> nat -> nat -> Q) : Prop :=
  forall x y x' y', x ==q x' -> y ==q y' -> off W W c1 (ups x y) (ups' x' y').

Lemma np_offset_comp up x x' lx d d' : x ==q x' -> d ==q d' -> np_offset up x lx d ==q np_offset up x' lx d'.
Proof. intros Ex Ed. unfold np_offset. rewrite Ex, Ed. reflexivity. Qed.

Theorem np_shift_off M N ms up c0 c1 cc cc' ups ups' :
  0 < M -> 0 < N -> off M N c0 cc cc' -> ups_off (np_win up) c1 ups ups' ->
  res_eq (np_shift M N ms up cc ups) (np_shift M N ms up cc' ups').
Proof.
  intros HM HN H Hu. pose proof (@np_stage1_off M N ms c0 cc cc' HM HN H) as S.
  unfold np_shift.
  destruct (np_stage1 M N ms cc) as [[[p q] [x0 y0]]|], (np_stage1 M N ms cc') as [[[p' q'] [x0' y0']]|];
    cbn [st1_eq] in S; try tauto.
  destruct S as (-> & -> & Ex & Ey).
  destruct (up <=? 1).
  - cbn [res_eq]. split; apply centre_comp; assumption.
  - pose proof (@win_refine_off true (np_win up) c1 (ups x0 y0) (ups' x0' y0') (Hu _ _ _ _ Ex Ey)) as Wr.
    unfold wr_eq in Wr.
    destruct (win_refine true (np_win up) (ups x0 y0)) as [[[lx ly] [dx dy]]|],
             (win_refine true (np_win up) (ups' x0' y0')) as [[[lx' ly'] [dx' dy']]|];
      cbn [st1_eq] in Wr; try tauto.
    destruct Wr as (-> & -> & Edx & Edy).
    cbn [res_eq]. split; apply centre_comp; try assumption; apply np_offset_comp; assumption.
Qed.

(* ---------------------------------------------------------------- torch *)
Lemma torch_half_off M N c0 cc cc' :
  0 < M -> 0 < N -> off M N c0 cc cc' -> torch_half M N cc' = torch_half M N cc.
Proof.
  intros HM HN H. unfold torch_half. rewrite (argmax2_off H).
  pose proof (argmax2_bounds cc HM HN) as B.
  destruct (argmax2 M N cc) as [p q]. cbn [fst snd] in B. destruct B as [Bp Bq].
  pose proof (@wrapi_lt M) as WM. pose proof (@wrapi_lt N) as WN.
  assert (Tx : tparab (cc' (prv M p) q) (cc' p q) (cc' (nxt M p) q) ==q tparab (cc (prv M p) q) (cc p q) (cc (nxt M p) q))
    by (apply (@tparab_off c0); apply H; auto; unfold prv, nxt; auto).
  assert (Ty : tparab (cc' p (prv N q)) (cc' p q) (cc' p (nxt N q)) ==q tparab (cc p (prv N q)) (cc p q) (cc p (nxt N q)))
    by (apply (@tparab_off c0); apply H; auto; unfold prv, nxt; auto).
  cbv zeta.
  rewrite (@round_he_comp ((qN p + tparab (cc' (prv M p) q) (cc' p q) (cc' (nxt M p) q)) * 2)
             ((qN p + tparab (cc (prv M p) q) (cc p q) (cc (nxt M p) q)) * 2)) by (rewrite Tx; reflexivity).
  rewrite (@round_he_comp ((qN q + tparab (cc' p (prv N q)) (cc' p q) (cc' p (nxt N q))) * 2)
             ((qN q + tparab (cc p (prv N q)) (cc p q) (cc p (nxt N q))) * 2)) by (rewrite Ty; reflexivity).
  reflexivity.
Qed.

Lemma t_offset_comp up xs r d d' : d ==q d' -> t_offset up xs r d ==q t_offset up xs r d'.
Proof. intros Ed. unfold t_offset. rewrite Ed. reflexivity. Qed.

Theorem torch_shift_off M N up c0 c1 cc cc' ups ups' :
  0 < M -> 0 < N -> off M N c0 cc cc' -> ups_off (t_win up) c1 ups ups' ->
  res_eq (torch_shift M N up cc ups) (torch_shift M N up cc' ups').
Proof.
  intros HM HN H Hu. unfold torch_shift, torch_align. rewrite (torch_half_off HM HN H).
  destruct (torch_half M N cc) as [[p q] [x0 y0]].
  destruct (up <=? 2).
  - cbn [res_eq]. split; reflexivity.
  - set (cx := t_center up (t_round up x0)). set (cy := t_center up (t_round up y0)).
    pose proof (@win_refine_off false (t_win up) c1 (ups cx cy) (ups' cx cy)
                  (Hu _ _ _ _ (Qeq_refl cx) (Qeq_refl cy))) as Wr.
    unfold wr_eq in Wr.
    destruct (win_refine false (t_win up) (ups cx cy)) as [[[r c] [dx dy]]|],
             (win_refine false (t_win up) (ups' cx cy)) as [[[r' c'] [dx' dy']]|];
      cbn [st1_eq] in Wr; try tauto.
    destruct Wr as (-> & -> & Edx & Edy).
    cbn [res_eq]. split; apply centre_comp; try assumption; apply t_offset_comp; assumption.
Qed.

(* ---------------------------------------------------------------- the repaired NumPy estimator is total *)
(* every parabola is guarded: whatever the arrays hold, the result is a pair of numbers (before the
   repair a flat 3-point neighbourhood gave 0/0: Example C13_shipped_flat_peak_is_nan) *)
Theorem np_shift_total M N ms up cc ups : exists a b, np_shift M N ms up cc ups = Some (a, b).
Proof.
  unfold np_shift, np_stage1.
  destruct (argmax2o M N (maskedo M N ms cc)) as [p q]. cbv zeta. rewrite !gparab_tparab.
  destruct (up <=? 1); [eexists _, _; reflexivity|].
  unfold win_refine. destruct (argmax2 _ _ _) as [lx ly].
  destruct ((lx =? 0) || _ || _ || _)%bool; [eexists _, _; reflexivity|].
  cbn [par]. rewrite !gparab_tparab. eexists _, _; reflexivity.
Qed.

(* the zero_dc of the model is such an offset *)
Lemma zero_dc_off M N c : off M N (mean2 M N c) c (zero_dc M N c).
Proof. intros k l _ _. unfold zero_dc. reflexivity. Qed.

(* ================================================================ Part B *)
Unset Implicit Arguments.
From Coq Require Import ZArith List Lia Ring Arith Field.
From QV.lib Require Import FinSum DFT DFT2.
From QV.proof Require Import C13_Proofs_DFT C13_Proofs_CS.

Section C13_DC.
  Variable R : Type.
  Variables (rO rI : R) (radd rmul rsub : R -> R -> R) (ropp : R -> R).
  Variable Rth : ring_theory rO rI radd rmul rsub ropp (@eq R).
  Add Ring RringC13dc : Rth.
  Variable conj : R -> R.
  Hypothesis Cok : conj_ok radd rmul conj.
  Variables (N1 : nat) (w1 : Z -> R) (Ninv1 : R) (N2 : nat) (w2 : Z -> R) (Ninv2 : R).
  Hypothesis Rok1 : root_ok rO rI radd rmul conj N1 w1 Ninv1.
  Hypothesis Rok2 : root_ok rO rI radd rmul conj N2 w2 Ninv2.

  Local Notation "a [+] b" := (radd a b) (at level 50, left associativity).
  Local Notation "a [*] b" := (rmul a b) (at level 40, left associativity).
  Local Notation "a [-] b" := (rsub a b) (at level 50, left associativity).
  Local Notation sumn := (sumn rO radd).
  Local Notation dft2 := (dft2 rO radd rmul N1 w1 N2 w2).
  Local Notation idft2 := (idft2 rO radd rmul N1 w1 Ninv1 N2 w2 Ninv2).

  Let Npos1 : 0 < N1 := ro_pos _ _ _ _ _ _ _ _ _ Rok1.
  Let Npos2 : 0 < N2 := ro_pos _ _ _ _ _ _ _ _ _ Rok2.

  (* cc[0, 0] = 0 *)
  Definition zero00 (F : nat -> nat -> R) (k l : nat) : R :=
    match k, l with O, O => rO | _, _ => F k l end.

  (* the inverse transform of the spectrum with its (0,0) bin zeroed is the inverse transform
     minus the constant Ninv1 Ninv2 F[0,0] — at EVERY output index *)
  Theorem idft2_zero00 F j1 j2 :
    idft2 (zero00 F) j1 j2 = idft2 F j1 j2 [-] Ninv1 [*] Ninv2 [*] F 0 0.
  Proof.
    set (D := fun k1 k2 : nat => match k1, k2 with O, O => F 0 0 | _, _ => rO end).
    transitivity (rI [*] idft2 F j1 j2 [+] (ropp rI) [*] idft2 D j1 j2).
    - rewrite <- (idft2_linear Rth Cok Rok1 Rok2). apply (idft2_ext Rth Cok Rok1 Rok2).
      intros k1 k2 _ _. unfold zero00, D. destruct k1, k2; ring.
    - rewrite (idft2_at00 Rth Cok Rok1 Rok2 D).
      + unfold D. ring.
      + intros k1 k2 _ _ Hne. unfold D. destruct k1, k2; try reflexivity. destruct Hne; congruence.
  Qed.

  (* the correlation the repaired estimators form *)
  Definition cc_fourier0 (ref im : nat -> nat -> R) (j1 j2 : nat) : R :=
    idft2 (zero00 (fun k1 k2 => dft2 ref k1 k2 [*] conj (dft2 im k1 k2))) j1 j2.

  Local Notation cc_fourier := (cc_fourier R rO radd rmul conj N1 w1 Ninv1 N2 w2 Ninv2).

  Theorem cc_fourier0_is_offset ref im j1 j2 :
    cc_fourier0 ref im j1 j2
    = cc_fourier ref im j1 j2 [-] Ninv1 [*] Ninv2 [*] (dft2 ref 0 0 [*] conj (dft2 im 0 0)).
  Proof. unfold cc_fourier0, C13_Proofs_DFT.cc_fourier. apply idft2_zero00. Qed.

  (* ---------------------------------------------------------------- read-out *)
  Variable re : R -> Q.
  Hypothesis re_add : forall a b, (re (a [+] b) == re a + re b)%Q.

  Lemma re_sub' a b : (re (a [-] b) == re a - re b)%Q.
  Proof.
    assert (Z0 : (re rO == 0)%Q).
    { pose proof (re_add rO rO) as H. replace (rO [+] rO) with rO in H by ring. lra. }
    assert (Op : (re (ropp b) == - re b)%Q).
    { pose proof (re_add b (ropp b)) as H. replace (b [+] ropp b) with rO in H by ring. lra. }
    replace (a [-] b) with (a [+] ropp b) by ring. rewrite re_add, Op. ring.
  Qed.

  Definition ccQ0 (ref im : nat -> nat -> R) : nat -> nat -> Q := fun k l => re (cc_fourier0 ref im k l).
  Local Notation ccQ := (ccQ R rO radd rmul conj N1 w1 Ninv1 N2 w2 Ninv2 re).

  (* cc_real of the repaired code = cc_real of the full spectrum minus a constant *)
  Theorem ccQ0_off ref im :
    off N1 N2 (re (Ninv1 [*] Ninv2 [*] (dft2 ref 0 0 [*] conj (dft2 im 0 0)))) (ccQ ref im) (ccQ0 ref im).
  Proof.
    intros k l _ _. unfold ccQ0, C13_Proofs_DFT.ccQ. rewrite cc_fourier0_is_offset. apply re_sub'.
  Qed.

  (* ---------------------------------------------------------------- the upsampled window *)
  Variable E : Q -> R.
  Hypothesis E_ext : forall p q : Q, (p == q)%Q -> E p = E q.
  Hypothesis E_conj : forall q : Q, conj (E q) = E (- q)%Q.
  Hypothesis E_w1 : forall z : Z, E (inject_Z z / qN N1)%Q = w1 (- z)%Z.

  Local Notation kernel_product := (kernel_product R rO radd rmul N1 N2 E).

  Lemma E_0 q : (q == 0)%Q -> E q = rI.
  Proof.
    intros H. rewrite (E_ext q (inject_Z 0 / qN N1)%Q).
    - rewrite E_w1. apply (ro_0 _ _ _ _ _ _ _ _ _ Rok1).
    - rewrite H. unfold Qdiv. change (inject_Z 0) with 0%Q. ring.
  Qed.

  (* kernels whose zero-frequency column / row has phase 0 (both codes: np_freq n 0 = 0) *)
  Theorem kernel_product_zero00 F ph1 ph2 a b :
    (ph1 a 0%nat == 0)%Q -> (ph2 b 0%nat == 0)%Q ->
    kernel_product (zero00 F) ph1 ph2 a b = kernel_product F ph1 ph2 a b [-] F 0 0.
  Proof.
    intros H1 H2. unfold C13_Proofs_DFT.kernel_product.
    set (D := fun k l : nat => match k, l with O, O => F 0 0 | _, _ => rO end).
    transitivity (sumn N1 (fun k => E (ph1 a k) [*] sumn N2 (fun l => F k l [*] E (ph2 b l)))
                  [-] sumn N1 (fun k => E (ph1 a k) [*] sumn N2 (fun l => D k l [*] E (ph2 b l)))).
    - rewrite <- (sumn_sub Rth). apply (sumn_ext Rth). intros k _.
      transitivity (E (ph1 a k) [*] (sumn N2 (fun l => F k l [*] E (ph2 b l))
                                    [-] sumn N2 (fun l => D k l [*] E (ph2 b l)))); [|ring].
      f_equal. rewrite <- (sumn_sub Rth). apply (sumn_ext Rth). intros l _.
      unfold zero00, D. destruct k, l; ring.
    - f_equal. rewrite (sumn_single Rth N1 _ 0 Npos1).
      + rewrite (sumn_single Rth N2 _ 0 Npos2).
        * unfold D. rewrite (E_0 _ H1), (E_0 _ H2). ring.
        * intros l _ Hl. unfold D. destruct l; [congruence | ring].
      + intros k _ Hk. rewrite (sumn_ext Rth N2 _ (fun _ => rO)).
        * rewrite (sumn_const Rth). ring.
        * intros l _. unfold D. destruct k; [congruence|]. ring.
  Qed.

  Lemma np_freq_0 n : 0 < n -> np_freq n 0 = 0%Z.
  Proof.
    intros Hn. unfold np_freq. cbn [Z.of_nat Z.add].
    rewrite Z.mod_small; [lia|]. split; [apply Z.div_pos; lia | apply Z.div_lt; lia].
  Qed.

  Lemma np_kern_phase_0 n up x0 a : 0 < n -> (np_kern_phase n up x0 a 0%nat == 0)%Q.
  Proof. intros Hn. unfold np_kern_phase. rewrite (np_freq_0 n Hn). change (inject_Z 0) with 0%Q. ring. Qed.

  Lemma t_kern_phase_0 n up ctr a : 0 < n -> (t_kern_phase n up ctr a 0%nat == 0)%Q.
  Proof. intros Hn. unfold t_kern_phase. rewrite (np_freq_0 n Hn). change (inject_Z 0) with 0%Q. ring. Qed.

  (* xp.real(kern_row @ cc @ kern_col)  and  dftUpsample_torch(conj cc, ...).conj().real: np_window / t_window
     of proof/C13_Proofs_CS.v *)
  Local Notation np_window_of := (np_window R rO radd rmul N1 N2 re E).
  Local Notation t_window_of := (t_window R rO radd rmul conj N1 N2 re E).
  Local Notation cc_spec := (cc_spec R rO radd rmul conj N1 w1 N2 w2).

  Lemma np_kern_phase_ext n up x x' a k : (x == x')%Q -> (np_kern_phase n up x a k == np_kern_phase n up x' a k)%Q.
  Proof. intros H. unfold np_kern_phase. rewrite H. reflexivity. Qed.

  Lemma kernel_product_ext F ph1 ph2 ph1' ph2' a b :
    (forall k, (ph1 a k == ph1' a k)%Q) -> (forall l, (ph2 b l == ph2' b l)%Q) ->
    kernel_product F ph1 ph2 a b = kernel_product F ph1' ph2' a b.
  Proof.
    intros H1 H2. unfold C13_Proofs_DFT.kernel_product. apply (sumn_ext Rth). intros k _.
    rewrite (E_ext _ _ (H1 k)). f_equal. apply (sumn_ext Rth). intros l _. rewrite (E_ext _ _ (H2 l)). reflexivity.
  Qed.

  (* the window the repaired NumPy code hands to its argmax = the window of the full cross
     spectrum minus the constant re F[0,0], sample by sample, at any (Qeq-equal) position *)
  Theorem np_window_zero00_off F up :
    ups_off (np_win up) (re (F 0 0)) (np_window_of F up) (np_window_of (zero00 F) up).
  Proof.
    intros x y x' y' Ex Ey a b _ _. unfold np_window.
    rewrite (kernel_product_zero00 F _ _ a b (np_kern_phase_0 N1 up x' a Npos1) (np_kern_phase_0 N2 up y' b Npos2)).
    rewrite re_sub'.
    rewrite (kernel_product_ext F (np_kern_phase N1 up x') (np_kern_phase N2 up y')
               (np_kern_phase N1 up x) (np_kern_phase N2 up y) a b);
      [reflexivity | intros; apply np_kern_phase_ext; symmetry; assumption
                   | intros; apply np_kern_phase_ext; symmetry; assumption].
  Qed.

  Hypothesis re_conj : forall z, (re (conj z) == re z)%Q.

  Lemma t_kern_phase_ext n up c c' a k : (c == c')%Q -> (t_kern_phase n up c a k == t_kern_phase n up c' a k)%Q.
  Proof. intros H. unfold t_kern_phase. rewrite H. reflexivity. Qed.

  Theorem t_window_zero00_off F up :
    ups_off (t_win up) (re (F 0 0)) (t_window_of F up) (t_window_of (zero00 F) up).
  Proof.
    intros x y x' y' Ex Ey a b _ _. unfold t_window.
    rewrite !re_conj.
    rewrite (kernel_product_ext (fun k l => conj (zero00 F k l)) _ _
               (t_kern_phase N1 up x) (t_kern_phase N2 up y) a b)
      by (intros; apply t_kern_phase_ext; symmetry; assumption).
    assert (Ez : kernel_product (fun k l => conj (zero00 F k l)) (t_kern_phase N1 up x) (t_kern_phase N2 up y) a b
                 = kernel_product (zero00 (fun k l => conj (F k l))) (t_kern_phase N1 up x) (t_kern_phase N2 up y) a b).
    { unfold C13_Proofs_DFT.kernel_product. apply (sumn_ext Rth). intros k _. f_equal.
      apply (sumn_ext Rth). intros l _. f_equal. unfold zero00. destruct k, l; try reflexivity.
      apply (conj_0 Rth Cok). }
    rewrite Ez.
    rewrite (kernel_product_zero00 (fun k l => conj (F k l)) _ _ a b
               (t_kern_phase_0 N1 up x a Npos1) (t_kern_phase_0 N2 up y b Npos2)).
    rewrite re_sub', re_conj. reflexivity.
  Qed.

  (* ---------------------------------------------------------------- end to end *)
  (* what the repaired estimators return on the arrays they form (zeroed bin) is what the model
     returns on the full correlation and the full window: for EVERY pair of images, mask, factor *)
  Theorem numpy_zero_frequency_irrelevant ref im ms up :
    res_eq (np_shift N1 N2 ms up (ccQ ref im)
              (np_window_of (cc_spec ref im) up))
           (np_shift N1 N2 ms up (ccQ0 ref im)
              (np_window_of (zero00 (cc_spec ref im)) up)).
  Proof.
    apply (@np_shift_off N1 N2 ms up _ _ _ _ _ _ Npos1 Npos2 (ccQ0_off ref im) (np_window_zero00_off _ up)).
  Qed.

  Theorem torch_zero_frequency_irrelevant ref im up :
    res_eq (torch_shift N1 N2 up (ccQ ref im)
              (t_window_of (cc_spec ref im) up))
           (torch_shift N1 N2 up (ccQ0 ref im)
              (t_window_of (zero00 (cc_spec ref im)) up)).
  Proof.
    apply (@torch_shift_off N1 N2 up _ _ _ _ _ _ Npos1 Npos2 (ccQ0_off ref im) (t_window_zero00_off _ up)).
  Qed.
End C13_DC.

(* ---------------------------------------------------------------- transfer *)
Lemma res_eq_some r r' a b :
  res_eq r r' -> r = Some (a, b) -> exists a' b', r' = Some (a', b') /\ (a == a')%Q /\ (b == b')%Q.
Proof.
  intros H ->. destruct r' as [[a' b']|]; cbn [res_eq] in H; [|tauto]. exists a', b'. tauto.
Qed.

Lemma res_eq_some_l a b r' :
  res_eq (Some (a, b)) r' -> exists a' b', r' = Some (a', b') /\ (a == a')%Q /\ (b == b')%Q.
Proof. intros H. exact (res_eq_some _ _ _ _ H eq_refl). Qed.

(* a flat correlation array: 0/0 in the parabola as shipped, (0, 0) as repaired *)
Lemma flat_peak_shipped_nan_repaired_zero :
  np_stage1_shipped 4 4 None (fun _ _ => 1%Q) = None /\
  np_shift 4 4 None 1 (fun _ _ => 1%Q) (fun _ _ _ _ => 0%Q) = Some (centre 4 (qmod (qN 0 + 0) 4), centre 4 (qmod (qN 0 + 0) 4)).
Proof. split; vm_compute; reflexivity. Qed.
