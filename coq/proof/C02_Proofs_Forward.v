(* C02 — proofs about the forward pipeline over the abstract commutative ring of lib/DFT.v:
   centring = identity, detector DC position, code = reference composition, intensity
   conservation (probe normalisation via Parseval).  All for arbitrary N1 x N2, any number of
   slices and modes. *)
From Coq Require Import ZArith List Lia Ring Arith.
From QV.lib Require Import FinSum DFT DFT2.
From QV.model Require Import C02_Model.
From QV.proof Require Import C02_Proofs_Index.
Import ListNotations.

Section ForwardProofs.
  Variable R : Type.
  Variables (rO rI : R) (radd rmul rsub : R -> R -> R) (ropp : R -> R).
  Variable Rth : ring_theory rO rI radd rmul rsub ropp (@eq R).
  Add Ring RringC02 : Rth.
  Variable conj : R -> R.
  Hypothesis Cok : conj_ok radd rmul conj.
  Variables (N1 : nat) (w1 : Z -> R) (Ninv1 : R) (N2 : nat) (w2 : Z -> R) (Ninv2 : R).
  Hypothesis Rok1 : root_ok rO rI radd rmul conj N1 w1 Ninv1.
  Hypothesis Rok2 : root_ok rO rI radd rmul conj N2 w2 Ninv2.
  Set Default Proof Using "All".

  Notation "0" := rO.  Notation "1" := rI.
  Infix "+" := radd.   Infix "*" := rmul.  Infix "-" := rsub.  Notation "- x" := (ropp x).
  Notation sum2 := (sum2 rO radd N1 N2).
  Notation dft2 := (dft2 rO radd rmul N1 w1 N2 w2).
  Notation fmul2 := (fmul2 rO radd rmul N1 w1 Ninv1 N2 w2 Ninv2).
  Notation roll2 := (roll2 N1 N2).
  Notation fftshift2 := (fftshift2 N1 N2).
  Notation energy2 := (energy2 rO radd rmul conj N1 N2).
  Notation z1 := (zidx N1).
  Notation z2 := (zidx N2).
  Notation suml := (suml rO radd).
  Notation img := (img R).
  Notation propagate := (propagate rO radd rmul N1 w1 Ninv1 N2 w2 Ninv2).
  Notation subpixel_shift := (subpixel_shift rO radd rmul N1 w1 Ninv1 N2 w2 Ninv2).
  Notation overlap_loop := (overlap_loop rO radd rmul N1 w1 Ninv1 N2 w2 Ninv2).
  Notation exit_wave := (exit_wave rO radd rmul N1 w1 Ninv1 N2 w2 Ninv2).
  Notation mode_sum := (mode_sum rO radd).
  Notation pmul := (pmul rmul).

  Definition eq2 (a b : img) : Prop := forall i j, (i < N1)%nat -> (j < N2)%nat -> a i j = b i j.

  Let Npos1 : (0 < N1)%nat := ro_pos _ _ _ _ _ _ _ _ _ Rok1.
  Let Npos2 : (0 < N2)%nat := ro_pos _ _ _ _ _ _ _ _ _ Rok2.

  (* ---------------------------------------------------------------- centring + fftshift *)
  (* shift_array(a, s1, s2) for INTEGER shifts is the Fourier multiplier with the ramp
     w1(k1 s1) w2(k2 s2); followed by fftshift it is a roll by (s1 + N1/2, s2 + N2/2) *)
  Lemma roll2_outer_ext a b (F G : img) n1 n2 : eq2 F G -> roll2 a b F n1 n2 = roll2 a b G n1 n2.
  Proof.
    intros HFG. unfold DFT2.roll2. apply HFG; [apply (zidx_lt Rth Cok Rok1) | apply (zidx_lt Rth Cok Rok2)].
  Qed.

  Lemma shift_then_fftshift s1 s2 (x : img) n1 n2 :
    fftshift2 (fmul2 (fun k1 k2 => w1 (Z.of_nat k1 * s1)%Z * w2 (Z.of_nat k2 * s2)%Z) x) n1 n2
    = roll2 (Z.of_nat (N1 / 2) + s1)%Z (Z.of_nat (N2 / 2) + s2)%Z x n1 n2.
  Proof.
    unfold DFT2.fftshift2.
    rewrite <- (roll2_roll2 Rth Cok Rok1 Rok2 (Z.of_nat (N1 / 2)) (Z.of_nat (N2 / 2)) s1 s2 x n1 n2).
    apply roll2_outer_ext. intros i j Hi Hj.
    apply (fmul2_ramp_is_roll2 Rth Cok Rok1 Rok2); assumption.
  Qed.

  (* `no_shift`: com_fit = N/2.  When twice the shift is -N (N even) the composite is the identity *)
  Lemma centre_then_fftshift_id s1 s2 (x : img) n1 n2 :
    (2 * s1 = - Z.of_nat N1)%Z -> (2 * s2 = - Z.of_nat N2)%Z -> (n1 < N1)%nat -> (n2 < N2)%nat ->
    fftshift2 (fmul2 (fun k1 k2 => w1 (Z.of_nat k1 * s1)%Z * w2 (Z.of_nat k2 * s2)%Z) x) n1 n2 = x n1 n2.
  Proof.
    intros H1 H2 Hn1 Hn2. rewrite shift_then_fftshift.
    assert (E1 : (Z.of_nat (N1 / 2) + s1 = 0)%Z).
    { rewrite Nat2Z.inj_div. change (Z.of_nat 2) with 2%Z. lia. }
    assert (E2 : (Z.of_nat (N2 / 2) + s2 = 0)%Z).
    { rewrite Nat2Z.inj_div. change (Z.of_nat 2) with 2%Z. lia. }
    rewrite E1, E2. apply (roll2_0 Rth Cok Rok1 Rok2); assumption.
  Qed.

  (* any size (odd included): shifting by -floor(N/2) - d and fftshifting is a roll by -d *)
  Lemma centre_floor_origin d1 d2 (x : img) n1 n2 :
    fftshift2 (fmul2 (fun k1 k2 => w1 (Z.of_nat k1 * (- Z.of_nat (N1 / 2) - d1))%Z
                                    * w2 (Z.of_nat k2 * (- Z.of_nat (N2 / 2) - d2))%Z) x) n1 n2
    = roll2 (- d1)%Z (- d2)%Z x n1 n2.
  Proof.
    rewrite shift_then_fftshift. f_equal; lia.
  Qed.

  (* ---------------------------------------------------------------- detector DC position *)
  Lemma detector_dc_position (x : img) :
    fftshift2 (dft2 x) (N1 / 2)%nat (N2 / 2)%nat = sum2 x.
  Proof.
    unfold DFT2.fftshift2, DFT2.roll2.
    rewrite !Z.sub_diag.
    replace (z1 0%Z) with 0%nat by (symmetry; apply (zidx_small Rth Cok Rok1 0%nat Npos1)).
    replace (z2 0%Z) with 0%nat by (symmetry; apply (zidx_small Rth Cok Rok2 0%nat Npos2)).
    apply (dft2_dc Rth Cok Rok1 Rok2).
  Qed.

  Variable sN : R.                       (* 1 / sqrt(N1 N2) *)
  Notation farfield := (farfield_intensity rO radd rmul conj N1 w1 N2 w2 sN).

  Lemma detector_dc_intensity (modes : list img) :
    fftshift2 (mode_sum farfield modes) (N1 / 2)%nat (N2 / 2)%nat
    = suml (map (fun x => (sN * sum2 x) * conj (sN * sum2 x)) modes).
  Proof.
    unfold DFT2.fftshift2, DFT2.roll2. rewrite !Z.sub_diag.
    replace (z1 0%Z) with 0%nat by (symmetry; apply (zidx_small Rth Cok Rok1 0%nat Npos1)).
    replace (z2 0%Z) with 0%nat by (symmetry; apply (zidx_small Rth Cok Rok2 0%nat Npos2)).
    unfold C02_Model.mode_sum. f_equal. apply map_ext. intros x.
    unfold farfield_intensity. cbv zeta. rewrite (dft2_dc Rth Cok Rok1 Rok2). reflexivity.
  Qed.

  (* ---------------------------------------------------------------- multislice: loop = recursion *)
  Lemma overlap_loop_cons t0 t1 ts p ps probe :
    overlap_loop (t0 :: t1 :: ts) (p :: ps) probe = overlap_loop (t1 :: ts) ps (propagate p (pmul t0 probe)).
  Proof. reflexivity. Qed.

  Lemma overlap_loop_is_exit_wave ts : forall ps probe,
    length ps = pred (length ts) -> overlap_loop ts ps probe = exit_wave ts ps probe.
  Proof.
    induction ts as [|t0 ts IH]; intros ps probe Hlen; [reflexivity|].
    destruct ts as [|t1 ts].
    - destruct ps; reflexivity.
    - destruct ps as [|p ps]; [cbn in Hlen; lia|].
      rewrite overlap_loop_cons. cbn [C02_Model.exit_wave]. apply IH. cbn in *. lia.
  Qed.

  (* extensionality on the grid *)
  Lemma propagate_ext p p' x x' : eq2 p p' -> eq2 x x' -> eq2 (propagate p x) (propagate p' x').
  Proof.
    intros Hp Hx i j Hi Hj. unfold C02_Model.propagate.
    apply (fmul2_ext Rth Cok Rok1 Rok2); assumption.
  Qed.

  Lemma pmul_ext a a' b b' : eq2 a a' -> eq2 b b' -> eq2 (pmul a b) (pmul a' b').
  Proof. intros Ha Hb i j Hi Hj. unfold C02_Model.pmul. rewrite Ha, Hb by assumption. reflexivity. Qed.

  Lemma eq2_refl a : eq2 a a.
  Proof. intros i j _ _. reflexivity. Qed.

  Lemma exit_wave_ext ts : forall ts' ps psi psi',
    Forall2 eq2 ts ts' -> eq2 psi psi' -> eq2 (exit_wave ts ps psi) (exit_wave ts' ps psi').
  Proof.
    induction ts as [|t ts IH]; intros ts' ps psi psi' HF Hpsi; inversion HF as [|? t' ? ts'' Ht HF']; subst.
    - exact Hpsi.
    - destruct ts as [|t1 ts]; inversion HF' as [|? t1' ? ts3 Ht1 HF'']; subst.
      + cbn [C02_Model.exit_wave]. apply pmul_ext; assumption.
      + destruct ps as [|p ps]; cbn [C02_Model.exit_wave].
        * apply pmul_ext; assumption.
        * apply (IH (t1' :: ts3) ps _ _ HF').
          apply propagate_ext; [apply eq2_refl | apply pmul_ext; assumption].
  Qed.

  (* ---------------------------------------------------------------- gather: flat = window *)
  Lemma gather_flat_is_window (obj2 : Z -> Z -> R) H W r0 c0 i j :
    (0 < H)%Z -> (0 < W)%Z ->
    gather_flat N1 N2 (flatten obj2 W) H W r0 c0 i j = gather_window N1 N2 obj2 H W r0 c0 i j.
  Proof.
    intros HH HW. unfold gather_flat, gather_window, flatten.
    destruct (patch_index_decode H W (Z.of_nat N1) (Z.of_nat N2) r0 c0 (Z.of_nat i) (Z.of_nat j) HH HW)
      as [_ [Hd Hm]].
    rewrite Hd, Hm. reflexivity.
  Qed.

  Lemma farfield_ext x x' : eq2 x x' -> forall k1 k2, farfield x k1 k2 = farfield x' k1 k2.
  Proof.
    intros Hx k1 k2. unfold farfield_intensity. cbv zeta.
    rewrite (dft2_ext Rth Cok Rok1 Rok2 x x' k1 k2 Hx). reflexivity.
  Qed.

  (* the pipeline the code runs equals the reference composition, pointwise on the detector *)
  Lemma forward_is_composition (obj2 : list (Z -> Z -> R)) H W r0 c0 rr rc props probes k1 k2 :
    (0 < H)%Z -> (0 < W)%Z -> length props = pred (length obj2) ->
    forward_code rO radd rmul conj N1 w1 Ninv1 N2 w2 Ninv2 sN
                 (map (fun o => flatten o W) obj2) H W r0 c0 rr rc props probes k1 k2
    = forward_ref rO radd rmul conj N1 w1 Ninv1 N2 w2 Ninv2 sN obj2 H W r0 c0 rr rc props probes k1 k2.
  Proof.
    intros HH HW Hlen. unfold forward_code, forward_ref, DFT2.fftshift2, DFT2.roll2, C02_Model.mode_sum.
    f_equal. rewrite !map_map. apply map_ext. intros pr.
    apply farfield_ext.
    rewrite overlap_loop_is_exit_wave by (rewrite !map_length; exact Hlen).
    apply exit_wave_ext; [|apply eq2_refl].
    try rewrite map_map. clear Hlen.
    induction obj2 as [|o obj2 IH]; cbn [map]; constructor; [|exact IH].
    intros i j _ _. apply gather_flat_is_window; assumption.
  Qed.

  (* ---------------------------------------------------------------- intensity conservation *)
  Definition unit2 (t : img) : Prop := forall i j, (i < N1)%nat -> (j < N2)%nat -> t i j * conj (t i j) = 1.

  Lemma energy2_ext x x' : eq2 x x' -> energy2 x = energy2 x'.
  Proof.
    intros Hx. unfold DFT2.energy2. apply (sum2_ext Rth Cok Rok1 Rok2). intros i j Hi Hj.
    rewrite (Hx i j Hi Hj). reflexivity.
  Qed.

  Lemma energy2_pmul_unit t x : unit2 t -> energy2 (pmul t x) = energy2 x.
  Proof.
    intros Ht. unfold DFT2.energy2. apply (sum2_ext Rth Cok Rok1 Rok2). intros i j Hi Hj.
    unfold C02_Model.pmul. rewrite (conj_mul _ _ _ _ Cok).
    transitivity ((t i j * conj (t i j)) * (x i j * conj (x i j))); [ring|].
    rewrite (Ht i j Hi Hj). ring.
  Qed.

  Lemma energy2_propagate_unit p x : unit2 p -> energy2 (propagate p x) = energy2 x.
  Proof. intros Hp. unfold C02_Model.propagate. apply (fmul2_unit_energy Rth Cok Rok1 Rok2). exact Hp. Qed.

  Lemma energy2_exit_wave ts : forall ps psi,
    Forall unit2 ts -> Forall unit2 ps -> energy2 (exit_wave ts ps psi) = energy2 psi.
  Proof.
    induction ts as [|t ts IH]; intros ps psi Ht Hp; [reflexivity|].
    inversion Ht as [|? ? Ht0 Ht']; subst.
    destruct ts as [|t1 ts]; cbn [C02_Model.exit_wave].
    - apply energy2_pmul_unit. exact Ht0.
    - destruct ps as [|p ps].
      + apply energy2_pmul_unit. exact Ht0.
      + inversion Hp as [|? ? Hp0 Hp']; subst.
        transitivity (energy2 (propagate p (pmul t psi))); [apply (IH ps _ Ht' Hp')|].
        rewrite energy2_propagate_unit by exact Hp0.
        apply energy2_pmul_unit. exact Ht0.
  Qed.

  Lemma sum2_suml (A : Type) (g : A -> img) (l : list A) :
    sum2 (fun i j => suml (map (fun m => g m i j) l)) = suml (map (fun m => sum2 (g m)) l).
  Proof.
    induction l as [|m l IH]; cbn [map FinSum.suml].
    - apply (sum2_zero Rth Cok Rok1 Rok2).
    - rewrite <- IH. apply (sum2_add Rth Cok Rok1 Rok2).
  Qed.

  Hypothesis HsN : sN * sN = Ninv1 * Ninv2.
  Hypothesis HsNc : conj sN = sN.

  (* Parseval for the norm="ortho" transform: total far-field intensity = real-space energy *)
  Lemma farfield_total x : sum2 (farfield x) = energy2 x.
  Proof.
    unfold farfield_intensity. cbv zeta.
    transitivity ((sN * sN) * sum2 (fun k1 k2 => dft2 x k1 k2 * conj (dft2 x k1 k2))).
    - rewrite <- (sum2_scale_l Rth Cok Rok1 Rok2). apply (sum2_ext Rth Cok Rok1 Rok2). intros k1 k2 _ _.
      rewrite (conj_mul _ _ _ _ Cok), HsNc. ring.
    - rewrite HsN.
      pose proof (parseval2_energy Rth Cok Rok1 Rok2 x) as P. unfold DFT2.energy2 in P. rewrite P.
      pose proof (NN_inv Rth Cok Rok1 Rok2) as I.
      match goal with |- _ * (?a * ?b * ?e) = _ => transitivity (((Ninv1 * Ninv2) * (a * b)) * e); [ring|] end.
      rewrite I. unfold DFT2.energy2. ring.
  Qed.

  (* every predicted pattern carries the total probe intensity: for any number of slices with
     unit-modulus transmission, unit-modulus propagators and sub-pixel ramps, any number of modes *)
  Lemma forward_total_intensity (obj2 : list (Z -> Z -> R)) H W r0 c0 rr rc props probes :
    Forall unit2 (map (fun o => gather_window N1 N2 o H W r0 c0) obj2) ->
    Forall unit2 props ->
    unit2 (fun k1 k2 => rr k1 * rc k2) ->
    sum2 (forward_ref rO radd rmul conj N1 w1 Ninv1 N2 w2 Ninv2 sN obj2 H W r0 c0 rr rc props probes)
    = total_probe_intensity rO radd rmul conj N1 N2 probes.
  Proof.
    intros Hobj Hprops Hramp. unfold forward_ref, total_probe_intensity.
    rewrite (sum2_fftshift2 Rth Cok Rok1 Rok2). unfold C02_Model.mode_sum.
    rewrite (sum2_suml _ (fun x => farfield x)). rewrite map_map. f_equal. apply map_ext. intros pr.
    rewrite farfield_total. rewrite energy2_exit_wave by assumption.
    unfold C02_Model.subpixel_shift. apply energy2_propagate_unit. exact Hramp.
  Qed.

  (* _apply_weights scales every mode by one factor c: the total intensity scales by c conj c;
     choosing c with  c conj c * total = mean diffraction intensity  makes every predicted
     pattern sum equal the mean measured pattern sum *)
  Lemma total_intensity_scale c probes :
    total_probe_intensity rO radd rmul conj N1 N2 (scale_modes rmul c probes)
    = (c * conj c) * total_probe_intensity rO radd rmul conj N1 N2 probes.
  Proof.
    unfold total_probe_intensity, scale_modes. rewrite map_map.
    rewrite <- (suml_map_scale Rth). f_equal. apply map_ext. intros pr.
    unfold DFT2.energy2. rewrite <- (sum2_scale_l Rth Cok Rok1 Rok2).
    apply (sum2_ext Rth Cok Rok1 Rok2). intros i j _ _. rewrite (conj_mul _ _ _ _ Cok). ring.
  Qed.

  Lemma probe_normalisation (obj2 : list (Z -> Z -> R)) H W r0 c0 rr rc props probes c mean_i :
    Forall unit2 (map (fun o => gather_window N1 N2 o H W r0 c0) obj2) ->
    Forall unit2 props ->
    unit2 (fun k1 k2 => rr k1 * rc k2) ->
    (c * conj c) * total_probe_intensity rO radd rmul conj N1 N2 probes = mean_i ->
    sum2 (forward_ref rO radd rmul conj N1 w1 Ninv1 N2 w2 Ninv2 sN obj2 H W r0 c0 rr rc props
                      (scale_modes rmul c probes)) = mean_i.
  Proof.
    intros Hobj Hprops Hramp Hc.
    rewrite forward_total_intensity by assumption. rewrite total_intensity_scale. exact Hc.
  Qed.
End ForwardProofs.
