(* C10 proofs, part B2: the initial-probe scaling (_apply_weights and the weights setter). *)
From QV.lib Require Import Prelude C10_Cplx.
From QV.model Require Import C10_Model.
From Coq Require Import QArith Qcanon Field.
Local Close Scope Q_scope.
Local Open Scope Qc_scope.

Lemma qcsum_map_mul k l : qcsum (map (fun x => x * k) l) = qcsum l * k.
Proof. induction l as [|x l IH]; cbn [map qcsum]; [ring | rewrite IH; ring]. Qed.

Lemma qcsum_map_div s l : qcsum (map (fun x => x / s) l) = qcsum l / s.
Proof.
  unfold Qcdiv. induction l as [|x l IH]; cbn [map qcsum]; [ring | rewrite IH; ring].
Qed.

Lemma qcsum_norm_weights raw : qcsum raw <> 0 -> qcsum (norm_weights raw) = 1.
Proof. intros H. unfold norm_weights. rewrite qcsum_map_div. field. exact H. Qed.

Lemma qcsum_nonneg l : Forall (fun x => 0 < x) l -> 0 <= qcsum l.
Proof.
  induction 1 as [|x l Hx Hl IH]; cbn [qcsum]; [apply Qcle_refl|].
  apply Qc_add_nonneg; [apply Qclt_le_weak; exact Hx | exact IH].
Qed.

Lemma qcsum_pos l : l <> [] -> Forall (fun x => 0 < x) l -> 0 < qcsum l.
Proof.
  intros Hne H. destruct H as [|x l Hx Hl]; [congruence|]. cbn [qcsum].
  apply Qc_add_pos_nonneg; [exact Hx | apply qcsum_nonneg; exact Hl].
Qed.

Lemma Qc_pos_neq0 x : 0 < x -> x <> 0.
Proof. intros H E. apply Qclt_not_eq in H. congruence. Qed.

(* the second rescaling puts exactly w_i * (current total) into mode i *)
Lemma reweight_step t : t <> 0 -> forall w I1,
  length w = length I1 -> Forall (fun x => x <> 0) I1 ->
  map (fun wx => snd wx * (fst wx / (snd wx / t))) (combine w I1) = map (fun wi => wi * t) w.
Proof.
  intros Ht. induction w as [|wi w IH]; intros [|x I1] Hl Hnz; cbn [combine map length] in *;
    try congruence; try reflexivity.
  inversion Hnz as [|? ? Hx Hnz']; subst. f_equal.
  - cbn [fst snd]. field. split; assumption.
  - apply IH; [congruence | exact Hnz'].
Qed.

Lemma apply_weights_closed mean w I :
  length w = length I -> mean <> 0 -> qcsum I <> 0 -> Forall (fun x => x <> 0) I ->
  apply_weights mean w I = map (fun wi => wi * mean) w.
Proof.
  intros Hl Hm Hs Hnz. unfold apply_weights.
  assert (Hk : mean / qcsum I <> 0).
  { intro E. apply Hm. assert (X : mean = mean / qcsum I * qcsum I) by (field; exact Hs).
    rewrite X, E. ring. }
  assert (Ht : qcsum (map (fun x => x * (mean / qcsum I)) I) = mean).
  { rewrite qcsum_map_mul. field. exact Hs. }
  rewrite Ht. apply reweight_step; [exact Hm | rewrite map_length; exact Hl |].
  apply Forall_forall. intros y Hy. apply in_map_iff in Hy. destruct Hy as [x [E Hx]]. subst y.
  rewrite Forall_forall in Hnz. intro E. apply Qcmult_integral in E.
  destruct E as [E|E]; [exact (Hnz x Hx E) | exact (Hk E)].
Qed.

(* total intensity = mean intensity when the weights sum to one *)
Lemma weights_total_gen mean w I :
  length w = length I -> mean <> 0 -> qcsum I <> 0 -> Forall (fun x => x <> 0) I -> qcsum w = 1 ->
  qcsum (apply_weights mean w I) = mean.
Proof.
  intros Hl Hm Hs Hnz Hw. rewrite apply_weights_closed by assumption.
  rewrite qcsum_map_mul, Hw. ring.
Qed.

Lemma pos_hyps raw I :
  length raw = length I -> qcsum raw <> 0 -> Forall (fun x => 0 < x) I ->
  qcsum I <> 0 /\ Forall (fun x => x <> 0) I.
Proof.
  intros Hl Hr Hp. split.
  - apply Qc_pos_neq0. apply qcsum_pos; [|exact Hp]. intro E. subst I.
    destruct raw; [apply Hr; reflexivity | discriminate Hl].
  - eapply Forall_impl; [|exact Hp]. apply Qc_pos_neq0.
Qed.

(* requested weights `raw` (any list with non-zero sum), non-zero modes, positive mean intensity *)
Theorem weights_total : forall mean raw I,
  length raw = length I -> 0 < mean -> qcsum raw <> 0 -> Forall (fun x => 0 < x) I ->
  qcsum (apply_weights mean (norm_weights raw) I) = mean.
Proof.
  intros mean raw I Hl Hm Hr Hp. destruct (pos_hyps raw I Hl Hr Hp) as [Hs Hnz].
  apply weights_total_gen; auto.
  - unfold norm_weights. rewrite map_length. exact Hl.
  - apply Qc_pos_neq0. exact Hm.
  - apply qcsum_norm_weights. exact Hr.
Qed.

Theorem weights_ratio : forall mean raw I,
  length raw = length I -> 0 < mean -> qcsum raw <> 0 -> Forall (fun x => 0 < x) I ->
  map (fun x => x / qcsum (apply_weights mean (norm_weights raw) I)) (apply_weights mean (norm_weights raw) I)
  = map (fun w => w / qcsum raw) raw.
Proof.
  intros mean raw I Hl Hm Hr Hp. rewrite (weights_total mean raw I Hl Hm Hr Hp).
  destruct (pos_hyps raw I Hl Hr Hp) as [Hs Hnz].
  pose proof (Qc_pos_neq0 _ Hm) as Hm0.
  rewrite apply_weights_closed; auto; [| unfold norm_weights; rewrite map_length; exact Hl].
  unfold norm_weights. rewrite !map_map. apply map_ext. intros w. field. split; assumption.
Qed.

(* default weights [1 - 0.02 (n-1), 0.02, ..., 0.02] sum to one *)
Lemma qc_of_nat_S k : qc_of_nat (S k) = qc_of_nat k + 1.
Proof.
  unfold qc_of_nat. apply Qc_is_canon. cbn [this Q2Qc Qcplus].
  rewrite !Qred_correct. rewrite Nat2Z.inj_succ. unfold Z.succ. rewrite inject_Z_plus.
  change (this 1) with 1%Q. ring.
Qed.

Lemma qcsum_repeat c k : qcsum (repeat c k) = c * qc_of_nat k.
Proof.
  induction k as [|k IH]; cbn [repeat qcsum].
  - assert (E : qc_of_nat 0 = 0) by (apply Qc_is_canon; reflexivity). rewrite E. ring.
  - rewrite IH, qc_of_nat_S. ring.
Qed.

Lemma default_weights_sum n : (0 < n)%nat -> qcsum (default_weights n) = 1.
Proof.
  destruct n as [|k]; [lia|]. intros _. cbn [default_weights qcsum]. rewrite qcsum_repeat. ring.
Qed.

Lemma default_weights_length n : length (default_weights n) = n.
Proof. destruct n as [|k]; cbn; [reflexivity | rewrite repeat_length; reflexivity]. Qed.

Theorem weights_total_default : forall mean I,
  I <> [] -> 0 < mean -> Forall (fun x => 0 < x) I ->
  qcsum (apply_weights mean (default_weights (length I)) I) = mean.
Proof.
  intros mean I Hne Hm Hp.
  apply weights_total_gen.
  - apply default_weights_length.
  - apply Qc_pos_neq0. exact Hm.
  - apply Qc_pos_neq0. apply qcsum_pos; assumption.
  - eapply Forall_impl; [|exact Hp]. apply Qc_pos_neq0.
  - apply default_weights_sum. destruct I; [congruence | cbn; lia].
Qed.

(* the per-mode squared factors reproduce apply_weights *)
Lemma weight_scales_spec mean w I :
  map (fun sx => fst sx * snd sx) (combine (weight_scales mean w I) I) = apply_weights mean w I.
Proof.
  unfold weight_scales, apply_weights.
  set (k := mean / qcsum I). set (t := qcsum (map (fun x => x * k) I)). clearbody k t.
  revert I. induction w as [|wi w IH]; intros [|x I]; cbn [map combine]; try reflexivity.
  f_equal; [cbn [fst snd]; ring | apply IH].
Qed.
