(* C04 — concrete instances of the hypotheses of the round-3 theorems (non-vacuity): Gaussian rationals,
   frequency vectors K = Z x Z, phases Z with the character E = w4 (4th roots of unity), an even real aperture,
   an even aberration surface, the 4 x 4 grid with its signed frequencies (Nyquist index read as frequency 0:
   the fftfreq value -N/2 of an even axis is NOT odd-symmetric, see C04.audit.md). *)
From Coq Require Import ZArith List Bool Arith Lia Ring QArith Qcanon.
From QV.lib Require Import Prelude FinSum DFT DFT2 DFT_Inst.
From QV.model Require Import C04_Model C04_Gamma_Model.
From QV.proof Require Import C04_Proofs_Inst.
Import ListNotations.
Local Close Scope Q_scope.
Local Open Scope Z_scope.
Unset Implicit Arguments.

Definition Kz := (Z * Z)%type.
Definition kadd2 (a b : Kz) : Kz := (fst a + fst b, snd a + snd b).
Definition kneg2 (a : Kz) : Kz := (- fst a, - snd a).
Definition kzero2 : Kz := (0, 0).
Lemma kneg2_add a b : kneg2 (kadd2 a b) = kadd2 (kneg2 a) (kneg2 b).
Proof. destruct a, b. unfold kneg2, kadd2; cbn [fst snd]. f_equal; try ring. Qed.
Lemma kneg2_invol a : kneg2 (kneg2 a) = a.
Proof. destruct a. unfold kneg2; cbn [fst snd]. f_equal; try ring. Qed.
Lemma kzero2_l a : kadd2 kzero2 a = a.
Proof. destruct a. reflexivity. Qed.

Definition exA (v : Kz) : C := (Q2Qc (inject_Z (1 + fst v * fst v)), 0%Qc).
Definition exchi (v : Kz) : Z := fst v * fst v + snd v * snd v.
Definition exchi0 (v : Kz) : Z := 0.
Lemma exA_real v : cconj (exA v) = exA v.
Proof. apply creal_conj. Qed.
Lemma exA_even v : exA (kneg2 v) = exA v.
Proof. destruct v as [a b]. unfold exA, kneg2; cbn [fst snd]. replace (- a * - a) with (a * a) by ring. reflexivity. Qed.
Lemma exchi_even v : exchi (kneg2 v) = exchi v.
Proof. destruct v as [a b]. unfold exchi, kneg2; cbn [fst snd]. ring. Qed.
Lemma w4_add a b : w4 (a + b) = cmul (w4 a) (w4 b).
Proof. exact (ro_add _ _ _ _ _ _ _ _ _ C_root_ok a b). Qed.
Lemma w4_conj a : cconj (w4 a) = w4 (- a).
Proof. exact (ro_conj _ _ _ _ _ _ _ _ _ C_root_ok a). Qed.
Lemma w4_chi0 v : w4 (exchi0 v) = c1.
Proof. exact (ro_0 _ _ _ _ _ _ _ _ _ C_root_ok). Qed.

Definition exmi : C := (0%Qc, (- (1))%Qc).
Lemma exmi_conj : cconj exmi = copp exmi.
Proof. unfold cconj, copp, exmi; cbn [fst snd]. f_equal; try ring. Qed.
Definition exninv (v : Kz) : C := c1.
Definition expair (g v : Kz) : Z := fst g * fst v + snd g * snd v.
Lemma expair_neg g v : expair g (kneg2 v) = - expair g v.
Proof. destruct g, v. unfold expair, kneg2; cbn [fst snd]. ring. Qed.
Definition exsgn (v : Kz) : C := c1.

(* signed frequency of an index of the 4-point axis, Nyquist read as 0 *)
Definition c4 (k : nat) : Z := match k with 1%nat => 1 | 3%nat => -1 | _ => 0 end.
Definition exqof (k1 k2 : nat) : Kz := (c4 k1, c4 k2).
Lemma exqof_neg k1 k2 : (k1 < 4)%nat -> (k2 < 4)%nat -> exqof (negidx 4 k1) (negidx 4 k2) = kneg2 (exqof k1 k2).
Proof.
  intros H1 H2.
  destruct k1 as [|[|[|[|k1]]]]; try lia; destruct k2 as [|[|[|[|k2]]]]; try lia; reflexivity.
Qed.

(* an OVERLAPPING family of sub-masks: the whole mask and mB *)
Local Open Scope nat_scope.
Lemma ex_over_ok : forall part, In part [mfull; mB] ->
  same_shape mfull part /\ submask mfull part /\ (1 <= (fun _ : mask2 => 2%nat) part)%nat /\
  cmul (bf_weights c0 cadd (ctx_n part) (ctx_wt wone part)) (cinv (bf_weights c0 cadd (ctx_n part) (ctx_wt wone part))) = c1.
Proof.
  intros part [<-|[<-|[]]]; (split; [reflexivity|]); (split; [apply C04_Proofs_Base.submask_refl || apply mB_sub|]); (split; [lia|]);
    apply weight_inv; auto.
Qed.
Lemma ex_over_lt : forall part m, In part [mfull; mB] -> In m (index_map mfull part) -> m < ctx_n mfull.
Proof.
  intros part m Hp Hm. replace (ctx_n mfull) with 5 by reflexivity.
  destruct Hp as [<-|[<-|[]]]; vm_compute in Hm; intuition lia.
Qed.
Lemma ex_over_indices : concat (map (index_map mfull) [mfull; mB]) = [0; 1; 2; 3; 4; 1; 2; 4].
Proof. reflexivity. Qed.
