(* C05 — to(device) + reconnect_optimizer_to_parameters: establishes the binding invariant from
   the weaker post-unpickling invariant; with the state re-keyed BY PARAMETER (repaired code)
   it is the identity on the id-free view. *)
From QV.lib Require Import Prelude.
From QV.model Require Import C05_Model.
From QV.proof Require Import C05_Proofs_Base.
Set Implicit Arguments.

Section Reconnect.
  Variables V M L R C SS : Type.
  Implicit Types (s : st V M L R C SS) (h : heap V M R SS) (m : mdl C) (w : bool) (ms t : list (mdl C)).

  (* ------------------------------------------------------------------ state re-keying *)
  Lemma st_lookup_app (l1 l2 : list (id * pstate M)) r :
    st_lookup (l1 ++ l2) r = match st_lookup l1 r with Some x => Some x | None => st_lookup l2 r end.
  Proof.
    induction l1 as [|[k q] t IH]; cbn; [reflexivity|].
    destruct (Nat.eqb k r); [reflexivity|exact IH].
  Qed.

  Definition rk (st0 : list (id * pstate M)) (pr : id * id) : list (id * pstate M) :=
    match st_lookup st0 (fst pr) with Some ps => [(snd pr, ps)] | None => [] end.

  Lemma rk_keys st0 prs x : In x (map fst (flat_map (rk st0) prs)) -> In x (map snd prs).
  Proof.
    induction prs as [|[a b] t IH]; cbn; [auto|].
    rewrite map_app, in_app_iff. intros [Hin|Hin].
    - unfold rk in Hin. cbn in Hin. destruct (st_lookup st0 a); cbn in Hin; [|contradiction].
      destruct Hin as [<-|[]]. now left.
    - right. now apply IH.
  Qed.

  Lemma rk_lookup st0 prs a b :
    NoDup (map snd prs) -> In (a, b) prs -> st_lookup (flat_map (rk st0) prs) b = st_lookup st0 a.
  Proof.
    induction prs as [|[a0 b0] t IH]; cbn; intros Hnd Hin; [contradiction|].
    inversion Hnd as [|? ? Hni Hnd']; subst.
    rewrite st_lookup_app. destruct Hin as [E|Hin].
    - inversion E; subst. unfold rk at 1. cbn [fst snd].
      destruct (st_lookup st0 a) as [ps|] eqn:El; cbn.
      + now rewrite Nat.eqb_refl.
      + apply st_lookup_not_in. intros Hk. apply Hni. eapply rk_keys. exact Hk.
    - assert (Hne : b0 <> b).
      { intros ->. apply Hni. change b with (snd (a, b)). now apply in_map. }
      unfold rk at 1. cbn [fst snd]. destruct (st_lookup st0 a0); cbn.
      + destruct (Nat.eqb_spec b0 b); [contradiction|]. now apply IH.
      + now apply IH.
  Qed.

  Lemma combine_fst (A B : Type) (l : list A) (l' : list B) :
    length l = length l' -> map fst (combine l l') = l.
  Proof.
    revert l'. induction l as [|x t IH]; intros [|y t'] E; cbn in *; try discriminate; [reflexivity|].
    f_equal. apply IH. lia.
  Qed.
  Lemma combine_snd (A B : Type) (l : list A) (l' : list B) :
    length l = length l' -> map snd (combine l l') = l'.
  Proof.
    revert l'. induction l as [|x t IH]; intros [|y t'] E; cbn in *; try discriminate; [reflexivity|].
    f_equal. apply IH. lia.
  Qed.

  Lemma rekey_by_param_view (old new : list id) (st0 : list (id * pstate M)) :
    NoDup new -> length old = length new ->
    map (st_lookup (rekey_by_param old new st0)) new = map (st_lookup st0) old.
  Proof.
    intros Hnd Hlen.
    change (rekey_by_param old new st0) with (flat_map (rk st0) (combine old new)).
    rewrite <- (combine_snd old new Hlen) at 2. rewrite <- (combine_fst old new Hlen) at 3.
    rewrite !map_map. apply map_ext_in. intros [a b] Hin. cbn [fst snd].
    apply rk_lookup; [|exact Hin]. now rewrite combine_snd.
  Qed.

  (* ------------------------------------------------------------------ frames *)
  (* two heaps that agree on everything model m can reach *)
  Definition agree_for h h' m : Prop :=
    hnext h' = hnext h /\ (forall j, hp h' j = hp h j) /\
    (forall o, mopt m = Some o -> ho h' o = ho h o) /\
    (forall x, msched m = Some x -> hs h' x = hs h x).

  Lemma agree_bound h h' m : agree_for h h' m -> bound h m -> bound h' m.
  Proof.
    intros (En & _ & Eo & Es) (Hnd & Hlt & Ho & Hs). unfold bound. rewrite En.
    split; [exact Hnd|]. split; [exact Hlt|]. split.
    - destruct (mopt m) as [o|]; [|exact Ho]. now rewrite (Eo o eq_refl).
    - destruct (msched m) as [x|]; [|exact I]. now rewrite (Es x eq_refl).
  Qed.
  Lemma agree_prebound h h' m : agree_for h h' m -> prebound h m -> prebound h' m.
  Proof.
    intros (En & _ & Eo & Es) (Hnd & Hlt & Ho & Hs). unfold prebound. rewrite En.
    split; [exact Hnd|]. split; [exact Hlt|]. split.
    - destruct (mopt m) as [o|]; [|exact Ho]. now rewrite (Eo o eq_refl).
    - destruct (msched m) as [x|]; [|exact I]. now rewrite (Es x eq_refl).
  Qed.
  Lemma agree_view h h' m : agree_for h h' m -> mview_of h' m = mview_of h m.
  Proof.
    intros (_ & Ep & Eo & Es). unfold mview_of. f_equal.
    - apply map_ext. exact Ep.
    - destruct (mopt m) as [o|]; [|reflexivity]. now rewrite (Eo o eq_refl).
    - destruct (msched m) as [x|]; [|reflexivity]. now rewrite (Es x eq_refl).
  Qed.

  (* ------------------------------------------------------------------ one model *)
  (* what reconnect_model leaves untouched, unconditionally *)
  Lemma reconnect_model_frame w h m :
    hnext (fst (reconnect_model w h m)) = hnext h /\
    (forall j, hp (fst (reconnect_model w h m)) j = hp h j) /\
    (forall o, mopt m <> Some o -> ho (fst (reconnect_model w h m)) o = ho h o) /\
    (forall x, msched m <> Some x -> hs (fst (reconnect_model w h m)) x = hs h x) /\
    mcons (snd (reconnect_model w h m)) = mcons m.
  Proof.
    unfold reconnect_model.
    destruct (mopt m) as [o|] eqn:Em; [|cbn; auto].
    destruct (ho h o) as [ob|] eqn:Eo; [|cbn; auto].
    destruct (mparams m) as [|p ps] eqn:Ep; [cbn; auto|].
    cbn [fst snd hnext hp ho hs]. repeat split; auto.
    - intros o' Hne. apply fupd_neq. congruence.
    - intros x Hne. destruct (msched m) as [x0|]; [|reflexivity].
      destruct (hs h x0); [|reflexivity]. apply fupd_neq. congruence.
  Qed.

  Lemma reconnect_model_bound w h m :
    prebound h m -> snd (reconnect_model w h m) = m /\ bound (fst (reconnect_model w h m)) m.
  Proof.
    intros (Hnd & Hlt & Ho & Hs). unfold reconnect_model, bound.
    destruct (mopt m) as [o|] eqn:Em.
    2:{ cbn [fst snd]. split; [reflexivity|]. rewrite Ho. repeat split; auto. }
    destruct Ho as (Hlo & Hne & ob & Eo & Elen & Hndo). rewrite Eo.
    destruct (mparams m) as [|p ps] eqn:Ep; [congruence|].
    cbn [fst snd hnext hp ho hs]. split; [reflexivity|].
    split; [exact Hnd|]. split; [exact Hlt|]. split.
    - split; [exact Hlo|]. split; [discriminate|].
      eexists. split; [apply fupd_eq|]. reflexivity.
    - destruct (msched m) as [x|] eqn:Ex; [|exact I].
      destruct Hs as (Hlx & _ & sb & Esb). rewrite Esb. split; [exact Hlx|].
      eexists. split; [apply fupd_eq|]. reflexivity.
  Qed.

  (* repaired re-keying: identity on the model's own view *)
  Lemma reconnect_model_view h m :
    prebound h m -> mview_of (fst (reconnect_model false h m)) m = mview_of h m.
  Proof.
    intros (Hnd & Hlt & Ho & Hs). unfold reconnect_model.
    destruct (mopt m) as [o|] eqn:Em; [|reflexivity].
    destruct Ho as (Hlo & Hne & ob & Eo & Elen & Hndo). rewrite Eo.
    destruct (mparams m) as [|p ps] eqn:Ep; [congruence|].
    cbn [fst]. unfold mview_of. rewrite Em, Ep. cbn [hp ho hs]. rewrite fupd_eq, Eo.
    cbn [okind olr oparams ostate]. f_equal.
    - rewrite rekey_by_param_view; [reflexivity|exact Hnd|exact Elen].
    - destruct (msched m) as [x|] eqn:Ex; [|reflexivity].
      destruct Hs as (Hlx & _ & sb & Esb). rewrite Esb, fupd_eq. reflexivity.
  Qed.

  Lemma reconnect_model_agree w h m m2 :
    sep m m2 -> agree_for h (fst (reconnect_model w h m)) m2.
  Proof.
    intros (_ & Ho & Hs). destruct (reconnect_model_frame w h m) as (En & Ep & Eo & Es & _).
    split; [exact En|]. split; [exact Ep|]. split.
    - intros o E. apply Eo. intros E'. exact (Ho o E' E).
    - intros x E. apply Es. intros E'. exact (Hs x E' E).
  Qed.

  (* ------------------------------------------------------------------ all models *)
  Lemma reconnect_all_cons w h m t :
    reconnect_all w h (m :: t) =
    (fst (reconnect_all w (fst (reconnect_model w h m)) t),
     snd (reconnect_model w h m) :: snd (reconnect_all w (fst (reconnect_model w h m)) t)).
  Proof.
    cbn [reconnect_all]. destruct (reconnect_model w h m) as [h1 m1]. cbn [fst snd].
    destruct (reconnect_all w h1 t) as [h2 t2]. reflexivity.
  Qed.

  Lemma reconnect_all_frame w ms : forall h,
    hnext (fst (reconnect_all w h ms)) = hnext h /\
    (forall j, hp (fst (reconnect_all w h ms)) j = hp h j) /\
    (forall o, Forall (fun m => mopt m <> Some o) ms -> ho (fst (reconnect_all w h ms)) o = ho h o) /\
    (forall x, Forall (fun m => msched m <> Some x) ms -> hs (fst (reconnect_all w h ms)) x = hs h x) /\
    map mcons (snd (reconnect_all w h ms)) = map mcons ms.
  Proof.
    induction ms as [|m t IH]; intros h; [cbn; auto|].
    rewrite reconnect_all_cons. cbn [fst snd map].
    destruct (reconnect_model_frame w h m) as (En & Ep & Eo & Es & Ec).
    destruct (IH (fst (reconnect_model w h m))) as (En' & Ep' & Eo' & Es' & Ec').
    split; [congruence|]. split; [intros j; now rewrite Ep'|]. split; [|split].
    - intros o Hf. inversion Hf; subst. rewrite Eo' by assumption. now apply Eo.
    - intros x Hf. inversion Hf; subst. rewrite Es' by assumption. now apply Es.
    - now rewrite Ec, Ec'.
  Qed.

  Lemma reconnect_all_agree w ms h m0 :
    Forall (fun m => sep m0 m) ms -> agree_for h (fst (reconnect_all w h ms)) m0.
  Proof.
    intros Hsep. destruct (reconnect_all_frame w ms h) as (En & Ep & Eo & Es & _).
    split; [exact En|]. split; [exact Ep|]. split.
    - intros o E. apply Eo. eapply Forall_impl; [|exact Hsep].
      intros m (_ & Ho & _). now apply Ho.
    - intros x E. apply Es. eapply Forall_impl; [|exact Hsep].
      intros m (_ & _ & Hs). now apply Hs.
  Qed.

  Lemma reconnect_all_bound w ms : forall h,
    ForallOrdPairs sep ms -> Forall (prebound h) ms ->
    snd (reconnect_all w h ms) = ms /\ Forall (bound (fst (reconnect_all w h ms))) ms.
  Proof.
    induction ms as [|m t IH]; intros h Hsep Hpre; [cbn; auto|].
    inversion Hsep as [|? ? Hm Ht]; subst. inversion Hpre as [|? ? Hpm Hpt]; subst.
    rewrite reconnect_all_cons. cbn [fst snd].
    destruct (reconnect_model_bound w Hpm) as (Em & Hb).
    set (h1 := fst (reconnect_model w h m)) in *.
    assert (Hpt1 : Forall (prebound h1) t).
    { rewrite Forall_forall in *. intros m2 Hin. eapply agree_prebound; [|now apply Hpt].
      apply reconnect_model_agree. now apply Hm. }
    destruct (IH h1 Ht Hpt1) as (Et & Hbt). split; [now rewrite Em, Et|].
    constructor; [|exact Hbt].
    eapply agree_bound; [|exact Hb]. now apply reconnect_all_agree.
  Qed.

  Lemma reconnect_all_view ms : forall h,
    ForallOrdPairs sep ms -> Forall (prebound h) ms ->
    map (mview_of (fst (reconnect_all false h ms))) ms = map (mview_of h) ms.
  Proof.
    induction ms as [|m t IH]; intros h Hsep Hpre; [reflexivity|].
    inversion Hsep as [|? ? Hm Ht]; subst. inversion Hpre as [|? ? Hpm Hpt]; subst.
    rewrite reconnect_all_cons. cbn [fst snd map].
    set (h1 := fst (reconnect_model false h m)) in *.
    assert (Hpt1 : Forall (prebound h1) t).
    { rewrite Forall_forall in *. intros m2 Hin. eapply agree_prebound; [|now apply Hpt].
      apply reconnect_model_agree. now apply Hm. }
    f_equal.
    - rewrite (agree_view (reconnect_all_agree false h1 Hm)). now apply reconnect_model_view.
    - rewrite (IH h1 Ht Hpt1). apply map_ext_in. intros m2 Hin.
      apply agree_view. apply reconnect_model_agree. rewrite Forall_forall in Hm. now apply Hm.
  Qed.

  (* ------------------------------------------------------------------ to(device) *)
  Lemma to_dev_eq w s :
    to_dev w s = {| hh := fst (reconnect_all w (hh s) (models (rc s)));
                    rc := {| models := snd (reconnect_all w (hh s) (models (rc s)));
                             losses := losses (rc s); lrs := lrs (rc s) |} |}.
  Proof. unfold to_dev. destruct (reconnect_all w (hh s) (models (rc s))). reflexivity. Qed.

  Lemma to_dev_losses w s : losses (rc (to_dev w s)) = losses (rc s).
  Proof. now rewrite to_dev_eq. Qed.
  Lemma to_dev_lrs w s : lrs (rc (to_dev w s)) = lrs (rc s).
  Proof. now rewrite to_dev_eq. Qed.
  Lemma to_dev_cons w s : map mcons (models (rc (to_dev w s))) = map mcons (models (rc s)).
  Proof. rewrite to_dev_eq. cbn. apply reconnect_all_frame. Qed.

  (* to(device) turns the post-unpickling invariant into the binding invariant, whichever
     re-keying is used *)
  Lemma to_dev_binding w s : loaded_inv s -> binding_inv (to_dev w s).
  Proof.
    intros (Hsep & Hpre). rewrite to_dev_eq. unfold binding_inv. cbn [hh rc models].
    destruct (reconnect_all_bound w (h:=hh s) Hsep Hpre) as (E & Hb). rewrite E. now split.
  Qed.

  Lemma to_dev_models w s : loaded_inv s -> models (rc (to_dev w s)) = models (rc s).
  Proof.
    intros (Hsep & Hpre). rewrite to_dev_eq. cbn [rc models].
    now destruct (reconnect_all_bound w (h:=hh s) Hsep Hpre).
  Qed.

  (* repaired re-keying: to(device) is the identity on the id-free view *)
  Lemma view_to_dev s : loaded_inv s -> view_of (to_dev false s) = view_of s.
  Proof.
    intros Hl. pose proof Hl as (Hsep & Hpre). unfold view_of.
    rewrite to_dev_losses, to_dev_lrs, (to_dev_models false Hl). f_equal.
    rewrite to_dev_eq. cbn [hh]. now apply reconnect_all_view.
  Qed.
End Reconnect.
