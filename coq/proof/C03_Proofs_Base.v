(* C03 — heap discipline of model/C03_Model.v: the heap only grows (no cell is ever
   overwritten), every operation either appends one dataset record or replaces the record of
   its target, and the coherence invariant is preserved by every operation. *)
From Coq Require Import QArith String.
From QV.lib Require Import Prelude C03_Slice.
From QV.model Require Import C03_Model.
From Coq Require Import List.
Import ListNotations.
Local Close Scope Q_scope.
Local Open Scope list_scope.

(* ------------------------------------------------------------------ generic list facts *)
Lemma set_nth_length (A : Type) i (v : A) l : length (set_nth i v l) = length l.
Proof.
  unfold set_nth. destruct (i <? length l) eqn:E; [|reflexivity].
  apply Nat.ltb_lt in E. rewrite app_length. cbn [length].
  rewrite firstn_length, skipn_length. lia.
Qed.

Lemma nth_set_nth_eq (A : Type) i (v : A) l d : i < length l -> nth i (set_nth i v l) d = v.
Proof.
  intros H. unfold set_nth. apply Nat.ltb_lt in H as E. rewrite E.
  rewrite app_nth2; rewrite firstn_length; [|lia].
  replace (i - Nat.min i (length l)) with 0 by lia. reflexivity.
Qed.

Lemma nth_set_nth_neq (A : Type) i j (v : A) l d : i <> j -> nth j (set_nth i v l) d = nth j l d.
Proof.
  intros H. unfold set_nth. destruct (i <? length l) eqn:E; [|reflexivity].
  apply Nat.ltb_lt in E.
  destruct (Nat.lt_ge_cases j i) as [Hlt|Hge].
  - rewrite app_nth1 by (rewrite firstn_length; lia).
    rewrite <- (firstn_skipn i l) at 2. rewrite app_nth1 by (rewrite firstn_length; lia). reflexivity.
  - rewrite app_nth2 by (rewrite firstn_length; lia). rewrite firstn_length.
    replace (j - Nat.min i (length l)) with (S (j - S i)) by lia. cbn [nth].
    rewrite <- (firstn_skipn (S i) l) at 2.
    destruct (Nat.lt_ge_cases j (length l)) as [Hj|Hj].
    + rewrite app_nth2 by (rewrite firstn_length; lia). rewrite firstn_length.
      f_equal. lia.
    + rewrite !nth_overflow; [reflexivity| |]; rewrite ?app_length, ?firstn_length, ?skipn_length; lia.
Qed.

Lemma nth_app_l (A : Type) (l r : list A) i d : i < length l -> nth i (l ++ r) d = nth i l d.
Proof. intros H. apply app_nth1. exact H. Qed.

Lemma nth_app_new (A : Type) (l : list A) x d : nth (length l) (l ++ [x]) d = x.
Proof. rewrite app_nth2 by lia. rewrite Nat.sub_diag. reflexivity. Qed.

Lemma repeat_length' (A : Type) (x : A) n : length (repeat x n) = n.
Proof. apply repeat_length. Qed.

(* ------------------------------------------------------------------ the heap only grows *)
Definition ext (s s' : state) : Prop :=
  (exists a, arrs s' = arrs s ++ a) /\ (exists n, nums s' = nums s ++ n) /\
  (exists u, strs s' = strs s ++ u).

Lemma ext_refl s : ext s s.
Proof. repeat split; exists []; rewrite app_nil_r; reflexivity. Qed.

Lemma ext_trans a b c : ext a b -> ext b c -> ext a c.
Proof.
  intros (Ha & Hn & Hu) (Ha' & Hn' & Hu').
  destruct Ha as [x Hx], Hn as [y Hy], Hu as [z Hz], Ha' as [x' Hx'], Hn' as [y' Hy'], Hu' as [z' Hz'].
  repeat split.
  - exists (x ++ x'). rewrite Hx', Hx, app_assoc. reflexivity.
  - exists (y ++ y'). rewrite Hy', Hy, app_assoc. reflexivity.
  - exists (z ++ z'). rewrite Hz', Hz, app_assoc. reflexivity.
Qed.

Lemma ext_get_arr s s' i : ext s s' -> i < length (arrs s) -> get_arr s' i = get_arr s i.
Proof. intros ([a Ha] & _) H. unfold get_arr. rewrite Ha. apply app_nth1. exact H. Qed.
Lemma ext_get_num s s' i : ext s s' -> i < length (nums s) -> get_num s' i = get_num s i.
Proof. intros (_ & [a Ha] & _) H. unfold get_num. rewrite Ha. apply app_nth1. exact H. Qed.
Lemma ext_get_str s s' i : ext s s' -> i < length (strs s) -> get_str s' i = get_str s i.
Proof. intros (_ & _ & [a Ha]) H. unfold get_str. rewrite Ha. apply app_nth1. exact H. Qed.

Lemma ext_len_arr s s' : ext s s' -> length (arrs s) <= length (arrs s').
Proof. intros ([a Ha] & _). rewrite Ha, app_length. lia. Qed.
Lemma ext_len_num s s' : ext s s' -> length (nums s) <= length (nums s').
Proof. intros (_ & [a Ha] & _). rewrite Ha, app_length. lia. Qed.
Lemma ext_len_str s s' : ext s s' -> length (strs s) <= length (strs s').
Proof. intros (_ & _ & [a Ha]). rewrite Ha, app_length. lia. Qed.

(* changing only the dataset table does not touch the heap *)
Lemma ext_dss_only s s' :
  arrs s' = arrs s -> nums s' = nums s -> strs s' = strs s -> ext s s'.
Proof. intros H1 H2 H3. repeat split; exists []; rewrite app_nil_r; assumption. Qed.

Lemma ext_alloc_arr s a : ext s (fst (alloc_arr s a)).
Proof. repeat split; cbn; [exists [a] | exists [] | exists []]; rewrite ?app_nil_r; reflexivity. Qed.
Lemma ext_alloc_num s l : ext s (fst (alloc_num s l)).
Proof. repeat split; cbn; [exists [] | exists [l] | exists []]; rewrite ?app_nil_r; reflexivity. Qed.
Lemma ext_alloc_str s l : ext s (fst (alloc_str s l)).
Proof. repeat split; cbn; [exists [] | exists [] | exists [l]]; rewrite ?app_nil_r; reflexivity. Qed.

(* ------------------------------------------------------------------ invariant *)
Definition wf_ds (s : state) (d : ds) : Prop :=
  d_arr d < length (arrs s) /\ d_origin d < length (nums s) /\
  d_sampling d < length (nums s) /\ d_units d < length (strs s).

Definition coh_ds (s : state) (d : ds) : Prop :=
  let n := ndim (get_arr s (d_arr d)) in
  length (get_num s (d_origin d)) = n /\ length (get_num s (d_sampling d)) = n /\
  length (get_str s (d_units d)) = n /\ cls_ok (d_cls d) n.

Definition good_ds (s : state) (d : ds) : Prop := wf_ds s d /\ coh_ds s d.
Definition Inv (s : state) : Prop := Forall (good_ds s) (dss s).

Lemma good_ext s s' d : ext s s' -> good_ds s d -> good_ds s' d.
Proof.
  intros He [(Ha & Ho & Hs & Hu) (C1 & C2 & C3 & C4)].
  split.
  - repeat split.
    + pose proof (ext_len_arr _ _ He). lia.
    + pose proof (ext_len_num _ _ He). lia.
    + pose proof (ext_len_num _ _ He). lia.
    + pose proof (ext_len_str _ _ He). lia.
  - unfold coh_ds. rewrite (ext_get_arr _ _ _ He Ha), (ext_get_num _ _ _ He Ho), (ext_get_num _ _ _ He Hs),
      (ext_get_str _ _ _ He Hu). repeat split; assumption.
Qed.

Lemma Inv_get s t : Inv s -> t < length (dss s) -> good_ds s (get_ds s t).
Proof.
  intros HI Ht. unfold Inv in HI. rewrite Forall_forall in HI. apply HI.
  unfold get_ds. apply nth_In. exact Ht.
Qed.

(* the two shapes of a state change *)
Lemma Inv_append s s' d :
  Inv s -> ext s s' -> dss s' = dss s ++ [d] -> good_ds s' d -> Inv s'.
Proof.
  intros HI He Hd Hg. unfold Inv. rewrite Hd. apply Forall_app. split.
  - eapply Forall_impl; [|exact HI]. intros x Hx. eapply good_ext; eassumption.
  - constructor; [exact Hg|constructor].
Qed.

Lemma Forall_set_nth (A : Type) (P : A -> Prop) i v l : Forall P l -> P v -> Forall P (set_nth i v l).
Proof.
  intros Hl Hv. unfold set_nth. destruct (i <? length l); [|exact Hl].
  apply Forall_app. split.
  - rewrite Forall_forall in *. intros x Hx. apply Hl. eapply In_firstn. exact Hx.
  - constructor; [exact Hv|]. rewrite Forall_forall in *. intros x Hx. apply Hl. eapply In_skipn. exact Hx.
Qed.

Lemma Inv_replace s s' t d :
  Inv s -> ext s s' -> dss s' = set_nth t d (dss s) -> good_ds s' d -> Inv s'.
Proof.
  intros HI He Hd Hg. unfold Inv. rewrite Hd. apply Forall_set_nth; [|exact Hg].
  eapply Forall_impl; [|exact HI]. intros x Hx. eapply good_ext; eassumption.
Qed.

(* ------------------------------------------------------------------ monadic inversion *)
Lemma bind_ok (A B : Type) (r : res A) (f : A -> res B) b :
  bind r f = Ok b -> exists a, r = Ok a /\ f a = Ok b.
Proof. destruct r as [a|e]; cbn; intros H; [exists a; auto | discriminate]. Qed.

Ltac inv_bind H :=
  let x := fresh "x" in let Hx := fresh "Hx" in
  apply bind_ok in H; destruct H as (x & Hx & H).

(* ------------------------------------------------------------------ validators *)
Lemma validate_ndinfo_len v n l : validate_ndinfo v n = Ok l -> length l = n.
Proof.
  destruct v as [q|l0| | | | |k|ll]; cbn [validate_ndinfo]; intros H; try discriminate.
  - injection H as <-. apply repeat_length.
  - destruct (length l0 =? n) eqn:E; [|discriminate]. injection H as <-. apply Nat.eqb_eq. exact E.
  - destruct (rectangular ll); [|discriminate].
    destruct (length (concat ll) =? n) eqn:E; [|discriminate]. injection H as <-. apply Nat.eqb_eq. exact E.
Qed.

Lemma validate_units_len v n l : validate_units v n = Ok l -> length l = n.
Proof.
  destruct v as [q|l0|]; cbn [validate_units]; intros H; try discriminate.
  - injection H as <-. apply repeat_length.
  - destruct (length l0 =? n) eqn:E; [|discriminate]. injection H as <-. apply Nat.eqb_eq. exact E.
Qed.

Lemma validate_ndinfo_list l n : length l = n -> validate_ndinfo (NList l) n = Ok l.
Proof. intros H. cbn. apply Nat.eqb_eq in H. rewrite H. reflexivity. Qed.
Lemma validate_units_list l n : length l = n -> validate_units (UList l) n = Ok l.
Proof. intros H. cbn. apply Nat.eqb_eq in H. rewrite H. reflexivity. Qed.

(* ------------------------------------------------------------------ ensure_ndim *)
Lemma ensure_ndim_spec s aid k s1 aid1 :
  ensure_ndim s aid k = Ok (s1, aid1) -> aid < length (arrs s) ->
  ext s s1 /\ dss s1 = dss s /\ aid1 < length (arrs s1) /\ ndim (get_arr s1 aid1) = k /\
  a_flat (get_arr s1 aid1) = a_flat (get_arr s aid) /\
  (ndim (get_arr s aid) = k -> s1 = s /\ aid1 = aid).
Proof.
  unfold ensure_ndim. intros H Ha.
  destruct (ndim (get_arr s aid) <? k) eqn:E1.
  - injection H as <- <-. apply Nat.ltb_lt in E1. unfold alloc_view, alloc_arr. cbn [fst snd].
    set (a' := mkArr (a_root (get_arr s aid)) (repeat 1 (k - ndim (get_arr s aid)) ++ a_shape (get_arr s aid))
                     (a_flat (get_arr s aid))).
    set (s1 := mkState (arrs s ++ [a']) (nums s) (strs s) (dss s)).
    assert (Hg : get_arr s1 (length (arrs s)) = a') by (unfold get_arr, s1; cbn [arrs]; apply nth_app_new).
    split; [apply (ext_alloc_arr s a')|]. split; [reflexivity|].
    split; [unfold s1; cbn [arrs]; rewrite app_length; cbn [length]; lia|].
    rewrite Hg. unfold a', ndim. cbn [a_shape a_flat]. rewrite app_length, repeat_length.
    unfold ndim in E1. split; [lia|]. split; [reflexivity|]. intros. lia.
  - destruct (k <? ndim (get_arr s aid)) eqn:E2; [discriminate|].
    injection H as <- <-. apply Nat.ltb_ge in E1, E2.
    split; [apply ext_refl|]. split; [reflexivity|]. split; [exact Ha|].
    split; [lia|]. split; [reflexivity|]. intros; split; reflexivity.
Qed.

(* ------------------------------------------------------------------ construct / from_array *)
(* what a successful construction produces *)
Definition built (s s' : state) (c : tag) (aid : nat) (ov sv : list Q) (uv : list string) : Prop :=
  ext s s' /\
  exists d, dss s' = dss s ++ [d] /\ good_ds s' d /\ d_arr d = aid /\ d_cls d = c /\
            get_arr s' aid = get_arr s aid /\
            get_num s' (d_origin d) = ov /\ get_num s' (d_sampling d) = sv /\
            get_str s' (d_units d) = uv /\
            d_origin d = length (nums s) /\ d_sampling d = S (length (nums s)) /\
            d_units d = length (strs s).

Lemma construct_spec s c aid o sa u s' :
  construct s c aid o sa u = Ok s' -> aid < length (arrs s) ->
  cls_ok c (ndim (get_arr s aid)) ->
  exists ov sv uv,
    validate_ndinfo o (ndim (get_arr s aid)) = Ok ov /\
    validate_ndinfo sa (ndim (get_arr s aid)) = Ok sv /\
    validate_units u (ndim (get_arr s aid)) = Ok uv /\
    built s s' c aid ov sv uv.
Proof.
  unfold construct. intros H Ha Hc.
  inv_bind H. rename x into ov, Hx into Ho.
  inv_bind H. rename x into sv, Hx into Hs.
  inv_bind H. rename x into uv, Hx into Hu.
  unfold alloc_num, alloc_str in H. cbn [fst snd nums strs arrs dss] in H.
  injection H as <-.
  exists ov, sv, uv. repeat split; try assumption.
  - exists []. cbn. rewrite app_nil_r. reflexivity.
  - exists [ov; sv]. cbn. rewrite <- app_assoc. reflexivity.
  - exists [uv]. reflexivity.
  - eexists. split; [reflexivity|].
    assert (Hlen : length ((nums s ++ [ov]) ++ [sv]) = S (S (length (nums s))))
      by (rewrite !app_length; cbn; lia).
    unfold good_ds, wf_ds, coh_ds, get_arr, get_num, get_str.
    cbn [d_arr d_origin d_sampling d_units d_cls arrs nums strs add_ds].
    rewrite nth_app_new.
    rewrite (app_nth1 (nums s ++ [ov]) [sv]) by (rewrite app_length; cbn; lia).
    rewrite !nth_app_new.
    rewrite !app_length. cbn [length].
    apply validate_ndinfo_len in Ho. apply validate_ndinfo_len in Hs. apply validate_units_len in Hu.
    unfold get_arr in Ho, Hs, Hu, Hc.
    repeat split; try lia; try assumption; try reflexivity.
Qed.

Lemma from_array_spec s c aid o sa u s' :
  from_array s c aid o sa u = Ok s' -> aid < length (arrs s) ->
  exists s1 aid1 ov sv uv,
    match tag_ndim c with None => Ok (s, aid) | Some k => ensure_ndim s aid k end = Ok (s1, aid1) /\
    a_flat (get_arr s1 aid1) = a_flat (get_arr s aid) /\
    (cls_ok c (ndim (get_arr s aid)) -> s1 = s /\ aid1 = aid) /\
    ext s s1 /\ dss s1 = dss s /\ aid1 < length (arrs s1) /\
    validate_ndinfo (match o with Some v => v | None => NScalar 0%Q end) (ndim (get_arr s1 aid1)) = Ok ov /\
    validate_ndinfo (match sa with Some v => v | None => NScalar 1%Q end) (ndim (get_arr s1 aid1)) = Ok sv /\
    validate_units (match u with Some v => v | None => UList (default_units c (ndim (get_arr s1 aid1))) end)
                   (ndim (get_arr s1 aid1)) = Ok uv /\
    built s1 s' c aid1 ov sv uv.
Proof.
  unfold from_array. intros H Ha.
  inv_bind H. destruct x as [s1 aid1].
  assert (Hpre : ext s s1 /\ dss s1 = dss s /\ aid1 < length (arrs s1) /\
                 cls_ok c (ndim (get_arr s1 aid1)) /\
                 a_flat (get_arr s1 aid1) = a_flat (get_arr s aid) /\
                 (cls_ok c (ndim (get_arr s aid)) -> s1 = s /\ aid1 = aid)).
  { unfold cls_ok. destruct (tag_ndim c) as [k|].
    - destruct (ensure_ndim_spec _ _ _ _ _ Hx Ha) as (E1 & E2 & E3 & E4 & E5 & E6).
      split; [exact E1|]. split; [exact E2|]. split; [exact E3|]. split; [exact E4|]. split; [exact E5|exact E6].
    - injection Hx as <- <-. split; [apply ext_refl|]. split; [reflexivity|]. split; [exact Ha|].
      split; [exact I|]. split; [reflexivity|]. intros _. split; reflexivity. }
  destruct Hpre as (E1 & E2 & E3 & E4 & E5 & E6).
  destruct (construct_spec _ _ _ _ _ _ _ H E3 E4) as (ov & sv & uv & V1 & V2 & V3 & B).
  exists s1, aid1, ov, sv, uv.
  split; [exact Hx|]. split; [exact E5|]. split; [exact E6|]. split; [exact E1|]. split; [exact E2|].
  split; [exact E3|]. split; [exact V1|]. split; [exact V2|]. split; [exact V3|exact B].
Qed.

(* the part of the specification every caller needs *)
Lemma from_array_built s c aid o sa u s' :
  from_array s c aid o sa u = Ok s' -> aid < length (arrs s) ->
  ext s s' /\ exists d, dss s' = dss s ++ [d] /\ good_ds s' d /\ d_cls d = c /\
                        a_flat (get_arr s' (d_arr d)) = a_flat (get_arr s aid).
Proof.
  intros H Ha.
  destruct (from_array_spec _ _ _ _ _ _ _ H Ha)
    as (s1 & aid1 & ov & sv & uv & _ & F & _ & E1 & E2 & E3 & _ & _ & _ & (B1 & d & B2 & B3 & B4 & B5 & B6 & _)).
  split; [eapply ext_trans; eassumption|].
  exists d. rewrite <- E2. repeat split; try assumption; try apply B3.
  rewrite B4, B6. exact F.
Qed.

(* ------------------------------------------------------------------ setters *)
Lemma put_ds_dss s t d : dss (put_ds s t d) = set_nth t d (dss s).
Proof. reflexivity. Qed.

Lemma good_same_arr s d aid :
  good_ds s d -> aid < length (arrs s) -> ndim (get_arr s aid) = ndim (get_arr s (d_arr d)) ->
  good_ds s (mkDs aid (d_origin d) (d_sampling d) (d_units d) (d_cls d)).
Proof.
  intros [(Ha & Ho & Hs & Hu) (C1 & C2 & C3 & C4)] Hlt Hn.
  split; [repeat split; assumption|].
  unfold coh_ds. cbn [d_arr d_origin d_sampling d_units d_cls]. rewrite Hn.
  repeat split; assumption.
Qed.

Lemma set_array_spec s t aid s' :
  set_array s t aid = Ok s' -> Inv s -> t < length (dss s) -> aid < length (arrs s) ->
  ext s s' /\ exists d, dss s' = set_nth t d (dss s) /\ good_ds s' d /\
    d_origin d = d_origin (get_ds s t) /\ d_sampling d = d_sampling (get_ds s t) /\
    d_units d = d_units (get_ds s t) /\ d_cls d = d_cls (get_ds s t) /\
    a_flat (get_arr s' (d_arr d)) = a_flat (get_arr s aid) /\
    (ndim (get_arr s aid) = ndim (get_arr s (d_arr (get_ds s t))) -> arrs s' = arrs s /\ d_arr d = aid).
Proof.
  unfold set_array. intros H HI Ht Ha.
  inv_bind H. destruct x as [s1 aid1]. injection H as <-.
  destruct (ensure_ndim_spec _ _ _ _ _ Hx Ha) as (E1 & E2 & E3 & E4 & E5 & E6).
  pose proof (Inv_get _ _ HI Ht) as Hg.
  assert (He : ext s (put_ds s1 t (mkDs aid1 (d_origin (get_ds s t)) (d_sampling (get_ds s t))
                                       (d_units (get_ds s t)) (d_cls (get_ds s t))))).
  { eapply ext_trans; [exact E1|]. apply ext_dss_only; reflexivity. }
  split; [exact He|].
  eexists. split; [rewrite put_ds_dss, E2; reflexivity|].
  split.
  - apply (good_ext _ _ _ E1) in Hg.
    assert (G : good_ds s1 (mkDs aid1 (d_origin (get_ds s t)) (d_sampling (get_ds s t))
                                 (d_units (get_ds s t)) (d_cls (get_ds s t)))).
    { apply good_same_arr; [exact Hg|exact E3|].
      rewrite E4. symmetry. destruct Hg as [(Hw & _) _].
      rewrite (ext_get_arr _ _ _ E1); [reflexivity|]. apply (Inv_get _ _ HI Ht). }
    eapply good_ext; [|exact G]. apply ext_dss_only; reflexivity.
  - cbn [d_origin d_sampling d_units d_cls d_arr].
    split; [reflexivity|]. split; [reflexivity|]. split; [reflexivity|]. split; [reflexivity|].
    split; [exact E5|]. intros Hn. destruct (E6 Hn) as [-> ->]. split; reflexivity.
Qed.

Lemma set_num_good s d l i :
  good_ds s d -> length l = ndim (get_arr s (d_arr d)) -> i = length (nums s) ->
  good_ds (fst (alloc_num s l)) (mkDs (d_arr d) i (d_sampling d) (d_units d) (d_cls d)) /\
  good_ds (fst (alloc_num s l)) (mkDs (d_arr d) (d_origin d) i (d_units d) (d_cls d)).
Proof.
  intros Hg Hl ->.
  pose proof (good_ext _ _ _ (ext_alloc_num s l) Hg) as [(Ha & Ho & Hs & Hu) (C1 & C2 & C3 & C4)].
  unfold good_ds, wf_ds, coh_ds in *. cbn [fst alloc_num arrs nums strs dss d_arr d_origin d_sampling d_units d_cls] in *.
  unfold get_arr, get_num, get_str in *. cbn [arrs nums strs] in *.
  rewrite !nth_app_new. rewrite app_length in *. cbn [length] in *.
  repeat split; try lia; try assumption.
Qed.

(* ------------------------------------------------------------------ copy *)
Lemma copy_spec s t s' :
  copy_ds s t = Ok s' -> Inv s -> t < length (dss s) ->
  ext s s' /\ exists d, dss s' = dss s ++ [d] /\ good_ds s' d /\
    d_cls d = d_cls (get_ds s t) /\
    a_shape (get_arr s' (d_arr d)) = a_shape (get_arr s (d_arr (get_ds s t))) /\
    a_flat (get_arr s' (d_arr d)) = a_flat (get_arr s (d_arr (get_ds s t))) /\
    get_num s' (d_origin d) = get_num s (d_origin (get_ds s t)) /\
    get_num s' (d_sampling d) = get_num s (d_sampling (get_ds s t)) /\
    get_str s' (d_units d) = get_str s (d_units (get_ds s t)) /\
    length (arrs s) <= d_arr d /\ length (nums s) <= d_origin d /\ length (nums s) <= d_sampling d /\
    length (strs s) <= d_units d.
Proof.
  unfold copy_ds. intros H HI Ht.
  pose proof (Inv_get _ _ HI Ht) as [(Wa & Wo & Ws & Wu) (C1 & C2 & C3 & C4)].
  set (d0 := get_ds s t) in *. set (a := get_arr s (d_arr d0)) in *.
  unfold alloc_fresh, alloc_arr in H. cbn [fst snd] in H.
  set (s0 := mkState (arrs s ++ [mkArr (length (arrs s)) (a_shape a) (a_flat a)]) (nums s) (strs s) (dss s)) in *.
  assert (E0 : ext s s0) by (apply (ext_alloc_arr s (mkArr (length (arrs s)) (a_shape a) (a_flat a)))).
  assert (Hnew : get_arr s0 (length (arrs s)) = mkArr (length (arrs s)) (a_shape a) (a_flat a))
    by (unfold get_arr, s0; cbn [arrs]; apply nth_app_new).
  assert (Hlt : length (arrs s) < length (arrs s0)) by (unfold s0; cbn [arrs]; rewrite app_length; cbn; lia).
  destruct (from_array_spec _ _ _ _ _ _ _ H Hlt)
    as (s1 & aid1 & ov & sv & uv & _ & _ & Hsame & _ & _ & _ & V1 & V2 & V3 & B).
  assert (Hc : cls_ok (d_cls d0) (ndim (get_arr s0 (length (arrs s))))).
  { rewrite Hnew. unfold ndim. cbn [a_shape]. exact C4. }
  destruct (Hsame Hc) as [-> ->].
  rewrite Hnew in V1, V2, V3. unfold ndim in V1, V2, V3. cbn [a_shape] in V1, V2, V3.
  fold (ndim a) in V1, V2, V3.
  rewrite validate_ndinfo_list in V1 by exact C1. injection V1 as <-.
  rewrite validate_ndinfo_list in V2 by exact C2. injection V2 as <-.
  rewrite validate_units_list in V3 by exact C3. injection V3 as <-.
  destruct B as (B1 & d & B2 & B3 & B4 & B5 & B6 & B7 & B8 & B9 & B10 & B11 & B12).
  assert (Hn0 : nums s0 = nums s) by reflexivity. assert (Hs0 : strs s0 = strs s) by reflexivity.
  rewrite Hn0 in B10, B11. rewrite Hs0 in B12.
  split; [eapply ext_trans; eassumption|].
  exists d. split; [exact B2|]. split; [exact B3|]. split; [exact B5|].
  rewrite B4, B6, Hnew. cbn [a_shape a_flat].
  repeat split; try assumption; try reflexivity.
  all: lia.
Qed.
