(* C04 — closed statements of the round-3 extension (kernel factors, Hermitian multipliers, fftfreq index
   convention, object state), proved from the section lemmas of C04_Proofs_Gamma.v / C04_Proofs_Prlx.v.
   props/C04_Properties.v restates them with `exact`. *)
From Coq Require Import ZArith List Bool Arith Lia Ring Permutation.
From QV.lib Require Import Prelude Chunks FinSum DFT DFT2.
From QV.model Require Import C04_Model C04_Gamma_Model.
From QV.proof Require Import C04_Proofs_Base C04_Proofs C04_Proofs_Front C04_Proofs_Prlx C04_Proofs_Gamma.
Import ListNotations.
Unset Implicit Arguments.
Local Open Scope nat_scope.

Lemma C04_gamma_closed_form_main :
  forall (R : Type) (rO rI : R) (radd rmul rsub : R -> R -> R) (ropp : R -> R)
         (Rth : ring_theory rO rI radd rmul rsub ropp (@eq R)) (conj : R -> R) (Cok : conj_ok radd rmul conj)
         (K : Type) (kadd : K -> K -> K) (kneg : K -> K) (Ph : Type) (padd : Ph -> Ph -> Ph) (pneg : Ph -> Ph)
         (E : Ph -> R) (A : K -> R) (chi : K -> Ph) (k q : K),
    (forall a b, E (padd a b) = rmul (E a) (E b)) -> (forall a, conj (E a) = E (pneg a)) ->
    (forall v, conj (A v) = A v) ->
    gamma rmul rsub conj kadd kneg E A chi k q = gamma_closed rmul rsub kadd kneg padd pneg E A chi k q.
Proof. intros. eapply gamma_closed_form; try eassumption. split; assumption. Qed.

Lemma C04_gamma_zero_aberration_main :
  forall (R : Type) (rO rI : R) (radd rmul rsub : R -> R -> R) (ropp : R -> R)
         (Rth : ring_theory rO rI radd rmul rsub ropp (@eq R)) (conj : R -> R) (Cok : conj_ok radd rmul conj)
         (K : Type) (kadd : K -> K -> K) (kneg : K -> K) (Ph : Type)
         (E : Ph -> R) (A : K -> R) (chi : K -> Ph) (k q : K),
    (forall v, conj (A v) = A v) -> (forall v, E (chi v) = rI) ->
    gamma rmul rsub conj kadd kneg E A chi k q = rmul (A k) (rsub (A (ksub kadd kneg q k)) (A (kadd q k)))
    /\ conj (gamma rmul rsub conj kadd kneg E A chi k q) = gamma rmul rsub conj kadd kneg E A chi k q.
Proof. intros R rO rI radd rmul rsub ropp Rth conj Cok K kadd kneg Ph E A chi k q Ha H0.
  exact (gamma_zero_aberration R rO rI radd rmul rsub ropp Rth conj Cok K kadd kneg Ph (fun a _ => a) (fun a => a) E A chi k q Ha H0). Qed.

Lemma C04_gamma_hermitian_main :
  forall (R : Type) (rO rI : R) (radd rmul rsub : R -> R -> R) (ropp : R -> R)
         (Rth : ring_theory rO rI radd rmul rsub ropp (@eq R)) (conj : R -> R) (Cok : conj_ok radd rmul conj)
         (K : Type) (kadd : K -> K -> K) (kneg : K -> K) (Ph : Type)
         (E : Ph -> R) (A : K -> R) (chi : K -> Ph) (k q : K),
    (forall a b, kneg (kadd a b) = kadd (kneg a) (kneg b)) -> (forall a, kneg (kneg a) = a) ->
    (forall v, A (kneg v) = A v) -> (forall v, chi (kneg v) = chi v) ->
    gamma rmul rsub conj kadd kneg E A chi k (kneg q) = ropp (conj (gamma rmul rsub conj kadd kneg E A chi k q)).
Proof.
  intros R rO rI radd rmul rsub ropp Rth conj Cok K kadd kneg Ph E A chi k q Hd Hi HA Hc.
  exact (gamma_hermitian R rO rI radd rmul rsub ropp Rth conj Cok K kadd kneg Ph (fun a _ => a) (fun a => a) E A chi k q (Logic.conj Hd Hi) (even_from_parts R rO rI radd rmul rsub ropp Rth conj Cok K kadd kneg Ph (fun a _ => a) (fun a => a) E A chi HA Hc)).
Qed.

Lemma C04_gamma_power_symmetric_main :
  forall (R : Type) (rO rI : R) (radd rmul rsub : R -> R -> R) (ropp : R -> R)
         (Rth : ring_theory rO rI radd rmul rsub ropp (@eq R)) (conj : R -> R) (Cok : conj_ok radd rmul conj)
         (K : Type) (kadd : K -> K -> K) (kneg : K -> K) (Ph : Type)
         (E : Ph -> R) (A : K -> R) (chi : K -> Ph) (k q : K),
    (forall a b, kneg (kadd a b) = kadd (kneg a) (kneg b)) -> (forall a, kneg (kneg a) = a) ->
    (forall v, A (kneg v) = A v) -> (forall v, chi (kneg v) = chi v) ->
    gamma_power rmul rsub conj kadd kneg E A chi k (kneg q) = gamma_power rmul rsub conj kadd kneg E A chi k q.
Proof.
  intros R rO rI radd rmul rsub ropp Rth conj Cok K kadd kneg Ph E A chi k q Hd Hi HA Hc. unfold gamma_power.
  exact (gamma_power_symmetric R rO rI radd rmul rsub ropp Rth conj Cok K kadd kneg Ph (fun a _ => a) (fun a => a) E A chi k q (Logic.conj Hd Hi) (even_from_parts R rO rI radd rmul rsub ropp Rth conj Cok K kadd kneg Ph (fun a _ => a) (fun a => a) E A chi HA Hc)).
Qed.

Lemma C04_gamma_dc_zero_main :
  forall (R : Type) (rO rI : R) (radd rmul rsub : R -> R -> R) (ropp : R -> R)
         (Rth : ring_theory rO rI radd rmul rsub ropp (@eq R)) (conj : R -> R) (Cok : conj_ok radd rmul conj)
         (K : Type) (kadd : K -> K -> K) (kneg : K -> K) (Ph : Type)
         (E : Ph -> R) (A : K -> R) (chi : K -> Ph) (k k0 : K),
    (forall v, A (kneg v) = A v) -> (forall v, chi (kneg v) = chi v) -> (forall a, kadd k0 a = a) ->
    gamma rmul rsub conj kadd kneg E A chi k k0 = rO.
Proof.
  intros R rO rI radd rmul rsub ropp Rth conj Cok K kadd kneg Ph E A chi k k0 HA Hc H0.
  exact (gamma_dc_zero R rO rI radd rmul rsub ropp Rth conj Cok K kadd kneg Ph (fun a _ => a) (fun a => a) E A chi k k0 (even_from_parts R rO rI radd rmul rsub ropp Rth conj Cok K kadd kneg Ph (fun a _ => a) (fun a => a) E A chi HA Hc) H0).
Qed.

Lemma C04_sideband_multiplier_hermitian_main :
  forall (R : Type) (rO rI : R) (radd rmul rsub : R -> R -> R) (ropp : R -> R)
         (Rth : ring_theory rO rI radd rmul rsub ropp (@eq R)) (conj : R -> R) (Cok : conj_ok radd rmul conj)
         (K : Type) (kadd : K -> K -> K) (kneg : K -> K) (Ph : Type)
         (E : Ph -> R) (A : K -> R) (chi : K -> Ph) (mi : R) (ninv : K -> R) (k q : K),
    (forall a b, kneg (kadd a b) = kadd (kneg a) (kneg b)) -> (forall a, kneg (kneg a) = a) ->
    (forall v, A (kneg v) = A v) -> (forall v, chi (kneg v) = chi v) ->
    conj mi = ropp mi -> (forall v, conj (ninv v) = ninv v) -> (forall v, ninv (kneg v) = ninv v) ->
    conj (sb_factor rmul rsub conj kadd kneg E A chi mi ninv k q) = sb_factor rmul rsub conj kadd kneg E A chi mi ninv k (kneg q).
Proof.
  intros R rO rI radd rmul rsub ropp Rth conj Cok K kadd kneg Ph E A chi mi ninv k q Hd Hi HA Hc Hm Hr Hs.
  exact (sb_factor_hermitian R rO rI radd rmul rsub ropp Rth conj Cok K kadd kneg Ph (fun a _ => a) (fun a => a) E A chi mi ninv k q (Logic.conj Hd Hi) (even_from_parts R rO rI radd rmul rsub ropp Rth conj Cok K kadd kneg Ph (fun a _ => a) (fun a => a) E A chi HA Hc) Hm Hr Hs).
Qed.

Lemma C04_parallax_multiplier_hermitian_main :
  forall (R : Type) (radd rmul : R -> R -> R) (conj : R -> R) (Cok : conj_ok radd rmul conj)
         (K : Type) (kneg : K -> K) (Ph : Type) (padd : Ph -> Ph -> Ph) (pneg : Ph -> Ph)
         (E : Ph -> R) (pair : K -> K -> Ph) (sgn : K -> R) (grad q : K),
    (forall a b, E (padd a b) = rmul (E a) (E b)) -> (forall a, conj (E a) = E (pneg a)) ->
    (forall g v, pair g (kneg v) = pneg (pair g v)) ->
    (forall v, conj (sgn v) = sgn v) -> (forall v, sgn (kneg v) = sgn v) ->
    conj (prlx_factor rmul E pair sgn grad q) = prlx_factor rmul E pair sgn grad (kneg q).
Proof.
  intros R radd rmul conj Cok K kneg Ph padd pneg E pair sgn grad q Ha Hc Hp Hr Hs.
  unfold prlx_factor. rewrite (conj_mul _ _ _ _ Cok), Hc, Hr, Hp, Hs. reflexivity.
Qed.

Lemma C04_hermitian_multiplier_real_main :
  forall (R : Type) (rO rI : R) (radd rmul rsub : R -> R -> R) (ropp : R -> R)
         (Rth : ring_theory rO rI radd rmul rsub ropp (@eq R)) (conj : R -> R) (Cok : conj_ok radd rmul conj)
         (N1 : nat) (w1 : Z -> R) (Ninv1 : R) (N2 : nat) (w2 : Z -> R) (Ninv2 : R)
         (Rok1 : root_ok rO rI radd rmul conj N1 w1 Ninv1) (Rok2 : root_ok rO rI radd rmul conj N2 w2 Ninv2)
         (h x : img R) (n1 n2 : nat),
    (forall k1 k2, k1 < N1 -> k2 < N2 -> conj (h k1 k2) = h (negidx N1 k1) (negidx N2 k2)) ->
    (forall i j, i < N1 -> j < N2 -> conj (x i j) = x i j) ->
    conj (fmul2 rO radd rmul N1 w1 Ninv1 N2 w2 Ninv2 h x n1 n2) = fmul2 rO radd rmul N1 w1 Ninv1 N2 w2 Ninv2 h x n1 n2.
Proof. intros. eapply hermitian_multiplier_real; eassumption. Qed.

(* multiplier kernels (all five are): Hermitian multiplier x envelope and a real virtual image => the corrected
   image is the full complex result of the inverse transform over W -- the `.real` discards nothing *)
Lemma C04_hermitian_kernel_real_part_lossless_main :
  forall (R : Type) (rO rI : R) (radd rmul rsub : R -> R -> R) (ropp : R -> R)
         (Rth : ring_theory rO rI radd rmul rsub ropp (@eq R)) (conj : R -> R) (Cok : conj_ok radd rmul conj) (half : R) (rinv : R -> R)
         (n1 : nat) (ws1 : Z -> R) (ninv1 : R) (n2 : nat) (ws2 : Z -> R) (ninv2 : R)
         (Roks1 : root_ok rO rI radd rmul conj n1 ws1 ninv1) (Roks2 : root_ok rO rI radd rmul conj n2 ws2 ninv2)
         (N1 : nat) (w1 : Z -> R) (Ninv1 : R) (N2 : nat) (w2 : Z -> R) (Ninv2 : R)
         (Rok1 : root_ok rO rI radd rmul conj N1 w1 Ninv1) (Rok2 : root_ok rO rI radd rmul conj N2 w2 Ninv2)
         (u : nat) (Hu : 1 <= u) (HN1 : N1 = n1 * u) (HN2 : N2 = n2 * u)
         (Hws1 : forall a : Z, ws1 a = w1 (Z.of_nat u * a)%Z) (Hws2 : forall a : Z, ws2 a = w2 (Z.of_nat u * a)%Z)
         (g : nat * nat -> img R) (wtd : nat * nat -> R) (env garbage : img R) (stack : nat -> img R)
         (full sub : mask2) (b j : nat) (d : img R) (r1 r2 : nat),
    rmul half (radd rI rI) = rI ->
    (forall k1 k2, k1 < N1 -> k2 < N2 ->
        conj (rmul (g (ctx_pix sub j) k1 k2) (env k1 k2))
        = rmul (g (ctx_pix sub j) (negidx N1 k1) (negidx N2 k2)) (env (negidx N1 k1) (negidx N2 k2))) ->
    (forall i k, conj ((stack (nth j (index_map full sub) 0)) i k) = (stack (nth j (index_map full sub) 0)) i k) ->
    1 <= b -> j < ctx_n sub -> r1 < N1 -> r2 < N2 ->
    nth j (recon_mask_single rO radd rmul conj half rinv n1 n2 ws1 ws2 N1 N2 w1 w2 Ninv1 Ninv2 (kern_mult rmul g) wtd stack env garbage full sub b) d r1 r2
    = rmul (fmul2 rO radd rmul N1 w1 Ninv1 N2 w2 Ninv2
              (fun k1 k2 => rmul (g (ctx_pix sub j) k1 k2) (env k1 k2))
              (upsample2 rO u (fun x1 x2 => rsub ((stack (nth j (index_map full sub) 0)) x1 x2) (rmul (rmul ninv1 ninv2) (sum2 rO radd n1 n2 ((stack (nth j (index_map full sub) 0))))))) r1 r2)
           (rinv (bf_weights rO radd (ctx_n sub) (ctx_wt wtd sub))).
Proof.
  intros R rO rI radd rmul rsub ropp Rth conj Cok half rinv n1 ws1 ninv1 n2 ws2 ninv2 Roks1 Roks2
         N1 w1 Ninv1 N2 w2 Ninv2 Rok1 Rok2 u Hu HN1 HN2 Hws1 Hws2 g wtd env garbage stack full sub b j d r1 r2
         Hhalf Hh Hreal Hb Hj H1 H2.
  rewrite (parallax_multiplier_lemma R rO rI radd rmul rsub ropp Rth conj Cok half rinv n1 ws1 ninv1 n2 ws2 ninv2
             Roks1 Roks2 N1 w1 Ninv1 N2 w2 Ninv2 Rok1 Rok2 u Hu HN1 HN2 Hws1 Hws2 g wtd env garbage stack
             full sub b j d r1 r2 Hb Hj H1 H2).
  f_equal.
  apply (re_of_real R rO rI radd rmul rsub ropp Rth conj half Hhalf).
  apply (hermitian_multiplier_real R rO rI radd rmul rsub ropp Rth conj Cok N1 w1 Ninv1 N2 w2 Ninv2 Rok1 Rok2).
  - exact Hh.
  - intros i k _ _.
    apply (up2_real R rO rI radd rmul rsub ropp Rth conj Cok u).
    apply (centred_real R rO rI radd rmul rsub ropp Rth conj Cok n1 ws1 ninv1 n2 ws2 ninv2 Roks1 Roks2).
    exact Hreal.
Qed.

(* from symmetry in the frequency vector to symmetry on the index grid *)
Lemma C04_grid_multiplier_hermitian_main :
  forall (R : Type) (conj : R -> R) (K : Type) (kneg : K -> K) (N1 N2 : nat) (qof : nat -> nat -> K) (F : K -> R),
    (forall q, conj (F q) = F (kneg q)) ->
    (forall k1 k2, k1 < N1 -> k2 < N2 -> qof (negidx N1 k1) (negidx N2 k2) = kneg (qof k1 k2)) ->
    forall k1 k2, k1 < N1 -> k2 < N2 -> conj (F (qof k1 k2)) = F (qof (negidx N1 k1) (negidx N2 k2)).
Proof. intros R conj K kneg N1 N2 qof F HF Hq k1 k2 H1 H2. rewrite (Hq k1 k2 H1 H2). apply HF. Qed.

Lemma C04_ramp_fftfreq_index_main :
  forall (R : Type) (rO rI : R) (radd rmul rsub : R -> R -> R) (ropp : R -> R)
         (Rth : ring_theory rO rI radd rmul rsub ropp (@eq R)) (conj : R -> R) (Cok : conj_ok radd rmul conj)
         (N : nat) (w : Z -> R) (Ninv : R) (Rok : root_ok rO rI radd rmul conj N w Ninv) (k : nat) (s : Z),
    w (signed_idx N k * s)%Z = w (Z.of_nat k * s)%Z.
Proof. intros. eapply ramp_signed_idx; eassumption. Qed.

Lemma C04_state_history_independent_main :
  forall (In Args Res : Type) (f : In -> Args -> Res) (i : In) (before : list Args) (a : Args),
    corrected (run_calls f (construct Res i) (before ++ [a])) = Some (f i a)
    /\ corrected (reconstruct_call f (construct Res i) a) = Some (f i a)
    /\ inputs (run_calls f (construct Res i) (before ++ [a])) = i.
Proof.
  intros. destruct (state_history_independent In Args Res f i before a) as [H1 H2].
  repeat split; try assumption. apply state_inputs_preserved.
Qed.

(* a ramp that is the character of an INTEGER shift (s1, s2) is Hermitian on the index grid, for every grid size
   (incl. even sizes with their self-conjugate Nyquist index) *)
Lemma C04_integer_ramp_hermitian_main :
  forall (R : Type) (rO rI : R) (radd rmul rsub : R -> R -> R) (ropp : R -> R)
         (Rth : ring_theory rO rI radd rmul rsub ropp (@eq R)) (conj : R -> R) (Cok : conj_ok radd rmul conj)
         (N1 : nat) (w1 : Z -> R) (Ninv1 : R) (N2 : nat) (w2 : Z -> R) (Ninv2 : R)
         (Rok1 : root_ok rO rI radd rmul conj N1 w1 Ninv1) (Rok2 : root_ok rO rI radd rmul conj N2 w2 Ninv2)
         (s1 s2 : Z) (k1 k2 : nat),
    k1 < N1 -> k2 < N2 ->
    conj (rmul (w1 (Z.of_nat k1 * s1)%Z) (w2 (Z.of_nat k2 * s2)%Z))
    = rmul (w1 (Z.of_nat (negidx N1 k1) * s1)%Z) (w2 (Z.of_nat (negidx N2 k2) * s2)%Z).
Proof.
  intros R rO rI radd rmul rsub ropp Rth conj Cok N1 w1 Ninv1 N2 w2 Ninv2 Rok1 Rok2 s1 s2 k1 k2 H1 H2.
  rewrite (conj_mul _ _ _ _ Cok), (ro_conj _ _ _ _ _ _ _ _ _ Rok1), (ro_conj _ _ _ _ _ _ _ _ _ Rok2).
  rewrite (w_negidx Rth Cok Rok1 k1 s1 H1), (w_negidx Rth Cok Rok2 k2 s2 H2). reflexivity.
Qed.

(* any family of sub-masks (overlapping, not covering): no complementarity needed *)
Lemma C04_submask_any_family_main :
  forall (R : Type) (rO rI : R) (radd rmul rsub : R -> R -> R) (ropp : R -> R)
         (Rth : ring_theory rO rI radd rmul rsub ropp (@eq R)) (conj : R -> R) (half : R) (rinv : R -> R)
         (n1 : nat) (ws1 : Z -> R) (n2 : nat) (ws2 : Z -> R)
         (N1 : nat) (w1 : Z -> R) (Ninv1 : R) (N2 : nat) (w2 : Z -> R) (Ninv2 : R)
         (kern : nat * nat -> img R -> img R) (wtd : nat * nat -> R) (env garbage : img R) (stack : nat -> img R)
         (full : mask2) (parts : list mask2) (bsz : mask2 -> nat) (bF : nat) (d : img R) (r1 r2 : nat),
    (forall part, In part parts ->
        same_shape full part /\ submask full part /\ 1 <= bsz part /\ rmul (bf_weights rO radd (ctx_n part) (ctx_wt wtd part)) (rinv (bf_weights rO radd (ctx_n part) (ctx_wt wtd part))) = rI) ->
    (forall part m, In part parts -> In m (index_map full part) -> m < ctx_n full) ->
    1 <= bF -> rmul (bf_weights rO radd (ctx_n full) (ctx_wt wtd full)) (rinv (bf_weights rO radd (ctx_n full) (ctx_wt wtd full))) = rI ->
    suml rO radd (map (fun part => rmul (bf_weights rO radd (ctx_n part) (ctx_wt wtd part)) (corrected_bf rO radd (recon_mask_single rO radd rmul conj half rinv n1 n2 ws1 ws2 N1 N2 w1 w2 Ninv1 Ninv2 kern wtd stack env garbage full part (bsz part)) r1 r2)) parts)
    = suml rO radd (map (fun m => rmul (bf_weights rO radd (ctx_n full) (ctx_wt wtd full)) (nth m (recon_mask_single rO radd rmul conj half rinv n1 n2 ws1 ws2 N1 N2 w1 w2 Ninv1 Ninv2 kern wtd stack env garbage full full bF) d r1 r2))
                   (concat (map (index_map full) parts))).
Proof. intros. eapply submask_any_family_lemma; try eassumption; try exact (fun P : img R => P). Qed.
