(* C01 / C14 — the load side, part 1: what the three restoration loops of `_recursive_load` and
   the loops of `_deserialize_container` compute on a group that is `base ++ pieces es`. *)
From QV.lib Require Import Prelude.
From QV.model Require Import C01_Model.
From QV.proof Require Import C01_Proofs_Base C01_Proofs_Enc.
From Coq Require Import String Ascii.
Local Open Scope string_scope.
Local Open Scope list_scope.

(* ------------------------------------------------------------------ generic list lemmas *)
Lemma flat_map_filter_map {A B C} (f : B -> list C) (p : B -> bool) (g : A -> B) l :
  flat_map f (filter p (map g l)) = flat_map (fun x => if p (g x) then f (g x) else []) l.
Proof.
  induction l as [|x l IH]; cbn [map filter flat_map]; [reflexivity|].
  destruct (p (g x)); cbn [flat_map]; rewrite IH; reflexivity.
Qed.

Lemma filter_flat_map_id {A B} (p : B -> bool) (f : A -> list B) l :
  (forall x y, In x l -> In y (f x) -> p y = true) -> filter p (flat_map f l) = flat_map f l.
Proof.
  induction l as [|x l IH]; cbn [flat_map filter]; intros H; [reflexivity|].
  rewrite filter_app, IH by (intros x' y Hx Hy; apply (H x' y); [right; exact Hx | exact Hy]).
  f_equal. clear IH. assert (Hx : forall y, In y (f x) -> p y = true) by (intros y Hy; apply (H x y); [left; reflexivity | exact Hy]).
  induction (f x) as [|y r IHr]; cbn [filter]; [reflexivity|].
  rewrite (Hx y (or_introl eq_refl)), IHr; [reflexivity|]. intros y' Hy'. apply Hx. right. exact Hy'.
Qed.

Lemma flat_map_nil {A B} (f : A -> list B) l : (forall x, In x l -> f x = []) -> flat_map f l = [].
Proof.
  induction l as [|x l IH]; cbn [flat_map]; intros H; [reflexivity|].
  rewrite (H x (or_introl eq_refl)), IH; [reflexivity|]. intros y Hy. apply H. right. exact Hy.
Qed.

(* ------------------------------------------------------------------ sclass facts *)
Lemma is_class_sclass c v : is_class c v = true <-> sclass_of v = c.
Proof. unfold is_class. destruct c, (sclass_of v); split; intros; congruence. Qed.

Lemma is_class_cases v :
  (is_class SAttr v = true /\ is_class SArr v = false /\ is_class SGrp v = false) \/
  (is_class SAttr v = false /\ is_class SArr v = true /\ is_class SGrp v = false) \/
  (is_class SAttr v = false /\ is_class SArr v = false /\ is_class SGrp v = true).
Proof. unfold is_class. destruct (sclass_of v); intuition. Qed.

Lemma sclass_norm v : sclass_of (norm v) = sclass_of v.
Proof. destruct v as [| | | | | |dt n| | | | | | | | | | |]; try reflexivity. destruct n; reflexivity. Qed.

Lemma is_class_norm c v : is_class c (norm v) = is_class c v.
Proof. unfold is_class. rewrite sclass_norm. reflexivity. Qed.

Lemma is_path_SAttr v : is_path v = true -> sclass_of v = SAttr.
Proof. destruct v; cbn; intros; congruence. Qed.

(* ------------------------------------------------------------------ pieces as three flat_maps *)
Definition pattrs1 (kv : string * value) : smap jval := n_attrs (piece (snd kv) (fst kv)).
Definition parrs1 (kv : string * value) : smap sarr := n_arrays (piece (snd kv) (fst kv)).
Definition pgrps1 (kv : string * value) : list (string * node) := n_groups (piece (snd kv) (fst kv)).

Lemma n_attrs_pieces es : n_attrs (pieces es) = flat_map pattrs1 es.
Proof. induction es as [|[k v] r IH]; cbn [pieces flat_map]; [reflexivity|]. unfold napp. cbn [n_attrs]. rewrite IH. reflexivity. Qed.
Lemma n_arrays_pieces es : n_arrays (pieces es) = flat_map parrs1 es.
Proof. induction es as [|[k v] r IH]; cbn [pieces flat_map]; [reflexivity|]. unfold napp. cbn [n_arrays]. rewrite IH. reflexivity. Qed.
Lemma n_groups_pieces es : n_groups (pieces es) = flat_map pgrps1 es.
Proof. induction es as [|[k v] r IH]; cbn [pieces flat_map]; [reflexivity|]. unfold napp. cbn [n_groups]. rewrite IH. reflexivity. Qed.

Lemma pieces_eta es : pieces es = Group (n_attrs (pieces es)) (n_arrays (pieces es)) (n_groups (pieces es)).
Proof. destruct (pieces es); reflexivity. Qed.

Lemma pattrs1_eq k v :
  pattrs1 (k, v) = if is_class SAttr v
                   then (k, jscalar v) :: (if is_path v then [(sapp k ".is_path", JBool true)] else [])
                   else [].
Proof. unfold pattrs1, piece, is_class. cbn [fst snd]. destruct (sclass_of v); reflexivity. Qed.
Lemma parrs1_eq k v : parrs1 (k, v) = if is_class SArr v then [(k, stored v)] else [].
Proof. unfold parrs1, piece, is_class. cbn [fst snd]. destruct (sclass_of v); reflexivity. Qed.
Lemma pgrps1_eq k v : pgrps1 (k, v) = if is_class SGrp v then [(k, subg v)] else [].
Proof. unfold pgrps1, piece, is_class. cbn [fst snd]. destruct (sclass_of v); reflexivity. Qed.

(* ------------------------------------------------------------------ lookups in pieces *)
Lemma lookup_single {A} k k' (x : A) : lookup k [(k', x)] = if String.eqb k k' then Some x else None.
Proof. reflexivity. Qed.

Lemma piece_lookups v k :
  lookup k (n_attrs (piece v k)) = (if is_class SAttr v then Some (jscalar v) else None) /\
  lookup (sapp k ".is_path") (n_attrs (piece v k)) = (if is_path v then Some (JBool true) else None) /\
  lookup k (n_arrays (piece v k)) = (if is_class SArr v then Some (stored v) else None) /\
  lookup k (n_groups (piece v k)) = (if is_class SGrp v then Some (subg v) else None).
Proof.
  assert (Hf : String.eqb (sapp k ".is_path") k = false).
  { apply String.eqb_neq. apply flag_neq_self. }
  unfold piece, is_class. destruct (sclass_of v) eqn:Ec; cbn [n_attrs n_arrays n_groups lookup];
    rewrite ?String.eqb_refl, ?Hf.
  - repeat split. destruct (is_path v); cbn [lookup]; rewrite ?String.eqb_refl; reflexivity.
  - repeat split. destruct (is_path v) eqn:Ep; [|reflexivity]. apply is_path_SAttr in Ep. congruence.
  - repeat split. destruct (is_path v) eqn:Ep; [|reflexivity]. apply is_path_SAttr in Ep. congruence.
Qed.

Lemma piece_other_lookups v k0 k :
  k <> k0 -> plain k -> plain k0 ->
  lookup k (n_attrs (piece v k0)) = None /\ lookup (sapp k ".is_path") (n_attrs (piece v k0)) = None /\
  lookup k (n_arrays (piece v k0)) = None /\ lookup k (n_groups (piece v k0)) = None.
Proof.
  intros Hne Hp Hp0. repeat split; apply lookup_notin; intros Hi.
  - apply piece_attr_keys in Hi. destruct Hi as [Hi|Hi]; [congruence | exact (plain_neq_flag _ _ Hp Hi)].
  - apply piece_attr_keys in Hi. destruct Hi as [Hi|Hi].
    + exact (plain_neq_flag _ _ Hp0 (eq_sym Hi)).
    + apply flag_inj in Hi. congruence.
  - apply piece_array_keys in Hi. congruence.
  - apply piece_group_keys in Hi. congruence.
Qed.

Lemma pieces_lookups es k v :
  NoDup (ekeys es) -> Forall plain (ekeys es) -> In (k, v) es ->
  lookup k (n_attrs (pieces es)) = (if is_class SAttr v then Some (jscalar v) else None) /\
  lookup (sapp k ".is_path") (n_attrs (pieces es)) = (if is_path v then Some (JBool true) else None) /\
  lookup k (n_arrays (pieces es)) = (if is_class SArr v then Some (stored v) else None) /\
  lookup k (n_groups (pieces es)) = (if is_class SGrp v then Some (subg v) else None).
Proof.
  induction es as [|[k0 v0] r IH]; intros Hnd Hpl Hin; [destruct Hin|].
  cbn [ekeys map fst] in Hnd, Hpl. inversion Hnd as [|? ? Hnk Hnd']; subst. inversion Hpl as [|? ? Hp0 Hpl']; subst.
  cbn [pieces]. unfold napp. cbn [n_attrs n_arrays n_groups]. rewrite !lookup_app.
  destruct Hin as [He|Hin].
  - injection He as -> ->.
    destruct (piece_lookups v k) as (H1 & H2 & H3 & H4). rewrite H1, H2, H3, H4.
    destruct (pieces_absent r k Hpl' Hp0 Hnk) as (A1 & A2 & A3 & A4). rewrite A1, A2, A3, A4.
    repeat split; match goal with |- context [if ?b then _ else _] => destruct b; reflexivity end.
  - assert (Hk : In k (ekeys r)) by (apply in_map_iff; exists (k, v); split; [reflexivity | exact Hin]).
    assert (Hne : k <> k0) by (intros ->; exact (Hnk Hk)).
    assert (Hp : plain k) by (rewrite Forall_forall in Hpl'; apply Hpl'; exact Hk).
    destruct (piece_other_lookups v0 k0 k Hne Hp Hp0) as (A1 & A2 & A3 & A4). rewrite A1, A2, A3, A4.
    apply IH; assumption.
Qed.

(* ------------------------------------------------------------------ decoding one stored value *)
Lemma attr_value_norm v k a :
  sclass_of v = SAttr -> path_flag k a = is_path v -> attr_value k (jscalar v) a = norm v.
Proof.
  intros Hc Hf. unfold attr_value.
  destruct v as [| | | | | |dt n| | | | | | | | | | |]; cbn in Hc; try discriminate; cbn [jscalar is_path norm jval_to_value] in *;
    try reflexivity.
  - rewrite Hf. reflexivity.
  - rewrite Hf. reflexivity.
  - destruct n; reflexivity.
Qed.

Lemma array_to_np_write a : arr_ok a = true -> array_to_np (write_ndarray a) = a.
Proof.
  destruct a as [dt sh d]. unfold arr_ok, write_ndarray, array_to_np. cbn [a_shape a_dtype a_data s_arr s_attrs].
  intros H. apply andb_true_iff in H. destruct H as [Hsh Hd].
  destruct sh as [|s0 sh']; [reflexivity|].
  destruct (has_zero (s0 :: sh')) eqn:Ez.
  - cbn [a_shape s_arr s_attrs lookup]. cbn.
    destruct d as [h| |]; try discriminate. apply Z.eqb_eq in Hd. subst h.
    f_equal. unfold jints. rewrite map_map. cbn. f_equal. rewrite map_id. reflexivity.
  - cbn [a_shape s_arr]. rewrite Ez. reflexivity.
Qed.

Lemma arr_ok_opaque a : arr_ok a = true -> exists h, a_data a = AOpaque h.
Proof.
  unfold arr_ok. intros H. apply andb_true_iff in H. destruct H as [_ H].
  destruct (a_data a) as [h| |]; try discriminate. exists h. reflexivity.
Qed.

Lemma write_ndarray_data_opaque a : arr_ok a = true -> exists h, a_data (s_arr (write_ndarray a)) = AOpaque h.
Proof.
  intros H. destruct (arr_ok_opaque a H) as [h Hh]. unfold write_ndarray.
  destruct (a_shape a); [exists h; exact Hh|]. destruct (has_zero _); [exists 0%Z; reflexivity | exists h; exact Hh].
Qed.

Lemma array_value_stored_arr a : arr_ok a = true -> array_value (write_ndarray a) = VArr a.
Proof.
  intros H. unfold array_value. destruct (write_ndarray_data_opaque a H) as [h Hh]. rewrite Hh.
  rewrite array_to_np_write by exact H. reflexivity.
Qed.

Lemma array_raw_stored a : arr_ok a = true -> array_raw (write_ndarray a) = VArr a.
Proof. apply array_value_stored_arr. Qed.

(* ------------------------------------------------------------------ the attribute loop *)
Section AttrLoop.
  Variable a : smap jval.                    (* the whole attribute map (for the .is_path lookups) *)
  Variable metaP : string -> bool.           (* names the loop skips *)
  Variable es : list (string * value).
  Hypothesis Hflag : forall k v, In (k, v) es -> is_class SAttr v = true -> path_flag k a = is_path v.
  Hypothesis Hmeta : forall k v, In (k, v) es -> metaP (sapp k ".is_path") = true.

  Definition attr_step (kj : string * jval) : list (string * value) :=
    match kj with (k, j) => if metaP k then [] else [(k, attr_value k j a)] end.

  Lemma attr_loop_pieces :
    flat_map attr_step (n_attrs (pieces es)) =
    flat_map (fun kv => if is_class SAttr (snd kv) && negb (metaP (fst kv)) then [(fst kv, norm (snd kv))] else []) es.
  Proof.
    rewrite n_attrs_pieces, flat_map_flat_map. apply flat_map_ext_in. intros [k v] Hin.
    rewrite pattrs1_eq. cbn [fst snd]. destruct (is_class SAttr v) eqn:Ec; [|reflexivity].
    cbn [flat_map attr_step andb].
    assert (Hfl : flat_map attr_step (if is_path v then [(sapp k ".is_path", JBool true)] else []) = []).
    { destruct (is_path v); [|reflexivity]. cbn [flat_map attr_step]. rewrite (Hmeta k v Hin). reflexivity. }
    rewrite Hfl, app_nil_r. destruct (metaP k); [reflexivity|]. cbn [negb].
    rewrite attr_value_norm; [reflexivity | apply is_class_sclass; exact Ec | apply Hflag; assumption].
  Qed.
End AttrLoop.

(* path flags in  base ++ attrs-of-pieces ++ extra *)
Lemma path_flag_in_pieces base extra es k v :
  NoDup (ekeys es) -> Forall plain (ekeys es) -> In (k, v) es ->
  Forall (fun kj => plain (fst kj)) base -> Forall (fun kj => plain (fst kj)) extra ->
  path_flag k (base ++ n_attrs (pieces es) ++ extra) = is_path v.
Proof.
  intros Hnd Hpl Hin Hb He. unfold path_flag. rewrite !lookup_app.
  assert (Hno : forall m : smap jval, Forall (fun kj => plain (fst kj)) m -> lookup (sapp k ".is_path") m = None).
  { intros m Hm. apply lookup_notin. intros Hi. apply in_map_iff in Hi. destruct Hi as [[k' j] [Hk Hi]].
    rewrite Forall_forall in Hm. specialize (Hm _ Hi). cbn [fst] in *. subst k'.
    unfold plain in Hm. rewrite ends_with_app in Hm. discriminate. }
  rewrite (Hno base Hb).
  destruct (pieces_lookups es k v Hnd Hpl Hin) as (_ & H2 & _ & _). rewrite H2.
  destruct (is_path v); [reflexivity|]. rewrite (Hno extra He). reflexivity.
Qed.

(* ------------------------------------------------------------------ the arrays loop *)
Lemma arr_loop_pieces {B} (step : string * sarr -> list B) es :
  flat_map step (n_arrays (pieces es)) =
  flat_map (fun kv => if is_class SArr (snd kv) then step (fst kv, stored (snd kv)) else []) es.
Proof.
  rewrite n_arrays_pieces, flat_map_flat_map. apply flat_map_ext_in. intros [k v] _.
  rewrite parrs1_eq. cbn [fst snd]. destruct (is_class SArr v); cbn [flat_map]; [apply app_nil_r | reflexivity].
Qed.

(* ------------------------------------------------------------------ the sub-group loop *)
Lemma map_groups_app f skip l1 l2 : map_groups f skip (l1 ++ l2) = map_groups f skip l1 ++ map_groups f skip l2.
Proof.
  induction l1 as [|[k s] r IH]; cbn [map_groups app]; [reflexivity|]. destruct (skip k); rewrite IH; reflexivity.
Qed.

Lemma collect_kv_app l1 l2 v1 v2 :
  collect_kv l1 = Some v1 -> collect_kv l2 = Some v2 -> collect_kv (l1 ++ l2) = Some (v1 ++ v2).
Proof.
  revert v1. induction l1 as [|[k [x| |]] r IH]; cbn [collect_kv app]; intros v1 H1 H2.
  - injection H1 as <-. exact H2.
  - destruct (collect_kv r) as [vr|] eqn:E; [|discriminate]. injection H1 as <-.
    rewrite (IH vr eq_refl H2). reflexivity.
  - apply IH; assumption.
  - discriminate.
Qed.

Section GroupLoop.
  Variable f : node -> res.
  Variable skip : string -> bool.
  Variable out : string -> value -> list (string * value).     (* what entry (k, v) contributes *)
  Variable es : list (string * value).
  Hypothesis Hout : forall k v, In (k, v) es -> is_class SGrp v = true -> skip k = false ->
                                (f (subg v) = RSkip /\ out k v = []) \/ (exists w, f (subg v) = RVal w /\ out k v = [(k, w)]).
  Hypothesis Hskip : forall k v, In (k, v) es -> is_class SGrp v = true -> skip k = true -> out k v = [].

  Lemma group_loop_pieces :
    collect_kv (map_groups f skip (n_groups (pieces es))) =
    Some (flat_map (fun kv => if is_class SGrp (snd kv) then out (fst kv) (snd kv) else []) es).
  Proof.
    rewrite n_groups_pieces. revert Hout Hskip. induction es as [|[k v] r IH]; intros Ho Hs; cbn [flat_map]; [reflexivity|].
    rewrite map_groups_app. apply collect_kv_app.
    - rewrite pgrps1_eq. cbn [fst snd]. destruct (is_class SGrp v) eqn:Ec; [|reflexivity].
      cbn [map_groups]. destruct (skip k) eqn:Es.
      + rewrite (Hs k v (or_introl eq_refl) Ec Es). reflexivity.
      + destruct (Ho k v (or_introl eq_refl) Ec Es) as [[Hf Hw]|[w [Hf Hw]]]; rewrite Hf, Hw; reflexivity.
    - apply IH.
      + intros k' v' Hin. apply Ho. right. exact Hin.
      + intros k' v' Hin. apply Hs. right. exact Hin.
  Qed.
End GroupLoop.

(* lookups in the restored sub-groups of a container (no skipping) *)
Lemma lookup_map_groups f (l : list (string * node)) k :
  lookup k (map_groups f (fun _ => false) l) = match lookup k l with Some sub => Some (f sub) | None => None end.
Proof.
  induction l as [|[k' s] r IH]; cbn [map_groups lookup]; [reflexivity|].
  destruct (String.eqb k k'); [reflexivity | exact IH].
Qed.

(* ------------------------------------------------------------------ sequence length *)
Lemma seq_len_app l1 l2 : seq_len (l1 ++ l2) = Nat.max (seq_len l1) (seq_len l2).
Proof.
  unfold seq_len. induction l1 as [|k r IH]; cbn [app fold_right]; [reflexivity|].
  rewrite IH. destruct (idx_of k); [lia | reflexivity].
Qed.

Lemma seq_len_le ks n : (forall k i, In k ks -> idx_of k = Some i -> i < n) -> seq_len ks <= n.
Proof.
  unfold seq_len. induction ks as [|k r IH]; cbn [fold_right]; intros H; [lia|].
  assert (IH' := IH (fun k' i Hk => H k' i (or_intror Hk))).
  destruct (idx_of k) as [i|] eqn:E; [|exact IH']. specialize (H k i (or_introl eq_refl) E). lia.
Qed.

Lemma seq_len_ge ks k i : In k ks -> idx_of k = Some i -> S i <= seq_len ks.
Proof.
  unfold seq_len. induction ks as [|k' r IH]; cbn [fold_right]; intros Hin E; [destruct Hin|].
  destruct Hin as [->|Hin].
  - rewrite E. lia.
  - specialize (IH Hin E). destruct (idx_of k'); lia.
Qed.
