(* C01 / C14 — the round-trip theorems: nested induction on values, then save_file / load_file. *)
From QV.lib Require Import Prelude.
From QV.model Require Import C01_Model.
From QV.proof Require Import C01_Proofs_Base C01_Proofs_Enc C01_Proofs_Dec C01_Proofs_Struct C01_Proofs_Main.
From Coq Require Import String Ascii.
Local Open Scope string_scope.
Local Open Scope list_scope.

(* ------------------------------------------------------------------ values stored as arrays *)
Lemma wf_arr_value b v : wf_value b v = true -> is_class SArr v = true -> array_value (stored v) = norm v.
Proof.
  intros Hw Hc. apply is_class_sclass in Hc. destruct v; cbn in Hc; try discriminate.
  - cbn [stored norm]. apply array_value_stored_arr. exact Hw.
  - reflexivity.
Qed.

Lemma wf_arr_raw v : wf_value true v = true -> is_class SArr v = true -> array_raw (stored v) = norm v.
Proof.
  intros Hw Hc. apply is_class_sclass in Hc. destruct v; cbn in Hc; try discriminate.
  - cbn [stored norm]. apply array_raw_stored. exact Hw.
  - reflexivity.
Qed.

Lemma wf_true_false v : wf_value true v = true -> wf_value false v = true.
Proof.
  destruct v as [| | | | | | | |k tys meta h| |bg s| | | | | | |]; cbn [wf_value]; try (intros H; exact H).
  intros H. apply andb_true_iff in H. destruct H as [H1 H2]. rewrite H1. destruct k; reflexivity.
Qed.

(* ------------------------------------------------------------------ type check after a container / blob / logger *)
Lemma tc_nonobj st sn v :
  sclass_of v = SGrp -> is_obj v = false -> (forall bg s, v <> VRng bg s) ->
  type_checked st (RVal (norm v)) = if load_type_skipped st v then RSkip else RVal (prune_load sn st (norm v)).
Proof.
  intros Hc Ho Hr. cbn [type_checked]. rewrite (lts_grp_nonrng st v Hc Hr), (exact_ty_norm_grp v Hc).
  rewrite prune_load_nonobj by (rewrite is_obj_norm; exact Ho). reflexivity.
Qed.

Section SeqDispatch.
  Variables (st : list string) (dobj dcont : node -> res) (ct : string) (l : list value).
  Let g := match numeric_seq l with
           | Some (r, ns) => fast_group ct r ns
           | None => hgroup ("_container_type", JStr ct) (ientries 0 l) [] end.
  Lemma obj_sub_seq : obj_sub st dobj dcont g = type_checked st (dcont g).
  Proof.
    unfold g. destruct (numeric_seq l) as [[r ns]|]; [reflexivity|].
    apply obj_sub_container. rewrite app_nil_r. apply clean_pieces_items.
  Qed.
  Lemma cont_sub_seq : cont_sub dobj dcont g = dcont g.
  Proof. unfold g. destruct (numeric_seq l) as [[r ns]|]; [reflexivity | apply cont_sub_container]. Qed.
End SeqDispatch.

(* ------------------------------------------------------------------ the induction *)
Definition P (v : value) : Prop :=
  (wf_value false v = true -> is_class SGrp v = true -> forall sn st,
     obj_sub st (decode_obj sn st) decode_container (subg v) =
     if load_type_skipped st v then RSkip else RVal (prune_load sn st (norm v)))
  /\ (wf_value true v = true -> is_class SGrp v = true ->
      cont_sub (decode_obj [] []) decode_container (subg v) = RVal (norm v)).

Lemma wf_seq_parts (b : bool) l :
  (forallb (wf_value true) l && nums_ok l)%bool = true -> forall v, In v l -> wf_value true v = true.
Proof. intros H v Hi. apply andb_true_iff in H. destruct H as [H _]. rewrite forallb_forall in H. exact (H v Hi). Qed.

Lemma P_seq ct l v :
  (String.eqb ct "list" || String.eqb ct "tuple" || String.eqb ct "set")%bool = true ->
  subg v = match numeric_seq l with
           | Some (r, ns) => fast_group ct r ns
           | None => hgroup ("_container_type", JStr ct) (ientries 0 l) [] end ->
  norm v = seq_ctor ct (norm_seq norm l) ->
  sclass_of v = SGrp -> is_obj v = false -> (forall bg s, v <> VRng bg s) ->
  (forall b, wf_value b v = (forallb (wf_value true) l && nums_ok l)%bool) ->
  Forall P l -> P v.
Proof.
  intros Hct Hsub Hnorm Hc Ho Hr Hwf IH. rewrite Forall_forall in IH.
  assert (D : wf_value false v = true -> decode_container (subg v) = RVal (norm v)).
  { intros Hw. rewrite Hwf in Hw. rewrite Hsub, Hnorm. apply decode_seq_group; [exact Hct | |].
    - intros x Hx. apply wf_arr_raw. exact (wf_seq_parts false l Hw x Hx).
    - intros x Hx Ec. destruct (IH x Hx) as [_ H2]. apply H2; [exact (wf_seq_parts false l Hw x Hx) | exact Ec]. }
  split.
  - intros Hw _ sn st. rewrite Hsub, obj_sub_seq, <- Hsub, (D Hw). apply tc_nonobj; assumption.
  - intros Hw _. rewrite Hsub, cont_sub_seq, <- Hsub. apply D. rewrite Hwf in *. exact Hw.
Qed.

Lemma class_of_hd m c rest : class_of (("_autoserialize", autoserialize_meta m c) :: rest) = Some (m, c).
Proof. reflexivity. Qed.

(* decoding the group of an object whose fields satisfy P *)
Lemma decode_obj_fields sn st m c l extra :
  wf_value false (VObj m c l) = true -> Forall (fun kv => P (snd kv)) l -> extra_ok extra ->
  decode_obj sn st (hgroup ("_autoserialize", autoserialize_meta m c) l extra) =
  RVal (prune_load sn st (norm (VObj m c l))).
Proof.
  intros Hw IH Hex. cbn [wf_value] in Hw. destruct (wf_fields_keys false l Hw) as (Hnd & Hk & Hf).
  rewrite Forall_forall in IH.
  apply decode_obj_struct; [exact Hnd | exact Hk | exact Hex | |].
  - intros k v Hi. apply (wf_arr_value false). exact (Hf k v Hi).
  - intros k v Hi Ec. destruct (IH (k, v) Hi) as [H1 _]. cbn [snd] in H1. apply H1; [exact (Hf k v Hi) | exact Ec].
Qed.

Theorem P_all v : P v.
Proof.
  induction v using value_ind'; try (split; intros _ Hc; apply is_class_sclass in Hc; discriminate Hc).
  - (* blob *)
    split.
    + intros Hw _ sn st. cbn [wf_value] in Hw. apply andb_true_iff in Hw. destruct Hw as [Hm _].
      rewrite (subg_blob k tys meta h Hm), (obj_sub_blob st _ _ k meta _ _ (clean_meta meta Hm)), (decode_blob_subg k tys meta h Hm).
      apply (tc_nonobj st sn (VBlob k tys meta h)); [reflexivity | reflexivity | discriminate].
    + intros Hw _. cbn [wf_value] in Hw. apply andb_true_iff in Hw. destruct Hw as [Hm Hk].
      rewrite (subg_blob k tys meta h Hm), (cont_sub_blob _ _ k meta _ _ (clean_meta meta Hm)), (decode_blob_subg k tys meta h Hm);
        [reflexivity|]. destruct k; try discriminate; tauto.
  - (* logger *)
    assert (D : forall b, wf_value b (VLogger c n l) = true ->
                decode_logger (subg (VLogger c n l)) = RVal (VLogger c n l)).
    { intros b Hw. cbn [wf_value] in Hw. unfold decode_logger. cbn. rewrite Hw. reflexivity. }
    split.
    + intros Hw _ sn st.
      change (obj_sub st (decode_obj sn st) decode_container (subg (VLogger c n l)))
        with (type_checked st (decode_logger (subg (VLogger c n l)))).
      rewrite (D false Hw). apply (tc_nonobj st sn (VLogger c n l)); [reflexivity | reflexivity | discriminate].
    + intros Hw _.
      change (cont_sub (decode_obj [] []) decode_container (subg (VLogger c n l)))
        with (decode_logger (subg (VLogger c n l))).
      apply (D true Hw).
  - (* rng *)
    split.
    + intros Hw _ sn st. reflexivity.
    + intros Hw _. reflexivity.
  - (* list *)
    apply (P_seq "list" l); try reflexivity; [apply subg_list | discriminate | exact H].
  - (* tuple *)
    apply (P_seq "tuple" l); try reflexivity; [apply subg_tuple | discriminate | exact H].
  - (* set *)
    apply (P_seq "set" l); try reflexivity; [apply subg_set | discriminate | exact H].
  - (* dict *)
    assert (D : forall b, wf_value b (VDict l) = true ->
                subg (VDict l) = hgroup ("_container_type", JStr "dict") l [] /\
                clean (n_attrs (pieces l) ++ []) /\
                decode_container (hgroup ("_container_type", JStr "dict") l []) = RVal (norm (VDict l))).
    { intros b Hw. cbn [wf_value] in Hw. destruct (wf_fields_keys true l Hw) as (Hnd & Hk & Hf).
      rewrite Forall_forall in H. split; [apply subg_dict; assumption|]. split; [rewrite app_nil_r; apply clean_pieces_kok; exact Hk|].
      apply decode_dict_group; [exact Hnd | exact Hk | |].
      - intros k v Hi. apply wf_arr_raw. exact (Hf k v Hi).
      - intros k v Hi Ec. destruct (H (k, v) Hi) as [_ H2]. cbn [snd] in H2. apply H2; [exact (Hf k v Hi) | exact Ec]. }
    split.
    + intros Hw _ sn st. destruct (D false Hw) as (Hs & Hc & Hd). rewrite Hs.
      unfold hgroup at 1. rewrite (obj_sub_container st _ _ "dict" _ _ _ Hc). fold (hgroup ("_container_type", JStr "dict") l []).
      rewrite Hd. apply (tc_nonobj st sn (VDict l)); [reflexivity | reflexivity | discriminate].
    + intros Hw _. destruct (D true Hw) as (Hs & Hc & Hd). rewrite Hs.
      unfold hgroup at 1. rewrite cont_sub_container. exact Hd.
  - (* object *)
    assert (Hs : forall b, wf_value b (VObj m c l) = true ->
                 subg (VObj m c l) = hgroup ("_autoserialize", autoserialize_meta m c) l [] /\
                 clean (n_attrs (pieces l) ++ [])).
    { intros b Hw. cbn [wf_value] in Hw. destruct (wf_fields_keys false l Hw) as (Hnd & Hk & _).
      split; [apply subg_obj; assumption | rewrite app_nil_r; apply clean_pieces_kok; exact Hk]. }
    split.
    + intros Hw _ sn st. destruct (Hs false Hw) as [Hg Hc]. rewrite Hg.
      unfold hgroup at 1. rewrite (obj_sub_autoser st _ _ _ _ _ _ Hc), class_of_hd.
      fold (hgroup ("_autoserialize", autoserialize_meta m c) l []).
      rewrite (decode_obj_fields sn st m c l [] Hw H (Forall_nil _)).
      change (load_type_skipped st (VObj m c l)) with (mem (cls_name m c) st).
      destruct (mem (cls_name m c) st) eqn:Em; [reflexivity|].
      cbn [norm prune_load type_checked]. change (exact_ty (VObj m c ?x)) with (cls_name m c). rewrite Em. reflexivity.
    + intros Hw _. destruct (Hs true Hw) as [Hg Hc]. rewrite Hg.
      unfold hgroup at 1. rewrite (cont_sub_autoser _ _ _ _ _ _ Hc).
      fold (hgroup ("_autoserialize", autoserialize_meta m c) l []).
      rewrite (decode_obj_fields [] [] m c l [] Hw H (Forall_nil _)). rewrite prune_load_nil. reflexivity.
  - (* tensorboard writer *)
    split.
    + intros Hw _ sn st.
      change (obj_sub st (decode_obj sn st) decode_container (subg (VTbWriter d q f s)))
        with (type_checked st (RVal (VTbWriter d q f s))).
      apply (tc_nonobj st sn (VTbWriter d q f s)); [reflexivity | reflexivity | discriminate].
    + intros Hw _. reflexivity.
Qed.

(* ------------------------------------------------------------------ save_file / load_file *)
Lemma jstrs_map l : jstrs (Some (JList (map JStr l))) = l.
Proof. cbn [jstrs]. induction l as [|x r IH]; cbn [map flat_map]; [reflexivity|]. rewrite IH. reflexivity. Qed.

Definition skip_meta (sn st : list string) : smap jval :=
  [("_autoserialize_skip_names", JList (map JStr sn)); ("_autoserialize_skip_types", JList (map JStr st))].

Lemma skip_meta_ok sn st : extra_ok (skip_meta sn st).
Proof. repeat constructor. Qed.

(* write_skip_metadata on the group of a well-formed object *)
Lemma write_skip_metadata_shape sn st hd es :
  clean (n_attrs (pieces es)) -> fst hd = "_autoserialize" ->
  set_attr "_autoserialize_skip_types" (JList (map JStr st))
           (set_attr "_autoserialize_skip_names" (JList (map JStr sn)) (hgroup hd es []))
  = hgroup hd es (skip_meta sn st).
Proof.
  intros Hc Hh. destruct hd as [k0 x]. cbn [fst] in Hh. subst k0. unfold hgroup. rewrite app_nil_r. cbn [set_attr].
  rewrite (set_key_absent "_autoserialize_skip_names").
  2:{ lk. apply Hc. reflexivity. }
  cbn [app]. rewrite (set_key_absent "_autoserialize_skip_types").
  2:{ lk. rewrite lookup_app, (Hc "_autoserialize_skip_types" eq_refl). reflexivity. }
  cbn [app]. rewrite <- app_assoc. reflexivity.
Qed.

(* load() of a file whose root group is that of a well-formed object, with recorded skip lists *)
Theorem load_saved_obj usn ust sn st m c l :
  wf_value false (VObj m c l) = true ->
  load_file usn ust (set_attr "_autoserialize_skip_types" (JList (map JStr st))
                       (set_attr "_autoserialize_skip_names" (JList (map JStr sn)) (subg (VObj m c l))))
  = RVal (prune_load (usn ++ sn) (ust ++ filter (fun t => negb (mem t ust)) st) (norm (VObj m c l))).
Proof.
  intros Hw. pose proof Hw as Hw'. cbn [wf_value] in Hw'. destruct (wf_fields_keys false l Hw') as (Hnd & Hk & _).
  pose proof (clean_pieces_kok l Hk) as Hc.
  rewrite (subg_obj m c l Hnd Hk), (write_skip_metadata_shape sn st ("_autoserialize", autoserialize_meta m c) l Hc eq_refl).
  unfold load_file, hgroup. cbn [n_attrs]. unfold has_key. lk.
  rewrite !lookup_app, (Hc "_autoserialize_skip_names" eq_refl), (Hc "_autoserialize_skip_types" eq_refl).
  unfold skip_meta. lk. rewrite !jstrs_map.
  fold (skip_meta sn st). fold (hgroup ("_autoserialize", autoserialize_meta m c) l (skip_meta sn st)).
  apply decode_obj_fields; [exact Hw | | apply skip_meta_ok].
  apply Forall_forall. intros kv _. apply P_all.
Qed.

Lemma encode_root_subg m c l : encode_root [] [] (VObj m c l) = subg (VObj m c l).
Proof. reflexivity. Qed.

(* C01: save then load is the normal form *)
Theorem roundtrip v : wf_obj v = true -> load_file [] [] (save_file [] [] v) = RVal (norm v).
Proof.
  destruct v; cbn [wf_obj]; try discriminate. intros Hw.
  unfold save_file. rewrite encode_root_subg.
  rewrite (load_saved_obj [] [] [] [] cmod cname fields Hw). cbn [app filter]. rewrite prune_load_nil. reflexivity.
Qed.

(* load-time skip lists on a file saved without skipping *)
Theorem load_skip_plain_file usn ust v :
  wf_obj v = true -> load_file usn ust (save_file [] [] v) = RVal (prune_load usn ust (norm v)).
Proof.
  destruct v; cbn [wf_obj]; try discriminate. intros Hw.
  unfold save_file. rewrite encode_root_subg.
  rewrite (load_saved_obj usn ust [] [] cmod cname fields Hw). cbn [filter]. rewrite !app_nil_r. reflexivity.
Qed.
