(* C12 — proofs about the alias-handler model (coq/model/C12_Model.v).  Axiom-free. *)
From Coq Require Import QArith List String Bool Ascii Lia.
From QV.model Require Import C12_Model.
Import ListNotations.
Local Open Scope string_scope.
Local Open Scope list_scope.

Definition or_else {A : Type} (a b : option A) : option A :=
  match a with Some x => Some x | None => b end.

Lemma last_opt_app {A : Type} (l1 l2 : list A) :
  last_opt (l1 ++ l2) = or_else (last_opt l2) (last_opt l1).
Proof.
  induction l1 as [| x t IH]; simpl.
  - destruct (last_opt l2); reflexivity.
  - rewrite IH. destruct (last_opt l2); simpl; [reflexivity |]. reflexivity.
Qed.

Lemma or_else_assoc {A : Type} (a b c : option A) : or_else a (or_else b c) = or_else (or_else a b) c.
Proof. destruct a; reflexivity. Qed.

Lemma assoc_set {A : Type} (s k : string) (v : A) (l : list (string * A)) :
  assoc s (set k v l) = if String.eqb s k then Some v else assoc s l.
Proof.
  induction l as [| [k' v'] t IH]; simpl.
  - destruct (String.eqb s k); reflexivity.
  - destruct (String.eqb_spec k k') as [-> | Hkk']; simpl.
    + destruct (String.eqb s k'); reflexivity.
    + rewrite IH. destruct (String.eqb_spec s k') as [-> | Hsk'].
      * destruct (String.eqb_spec k' k) as [E | _]; [congruence | reflexivity].
      * reflexivity.
Qed.

(* one item *)
Lemma assoc_apply_write (s symbol : string) (q : Q) (acc : out) :
  assoc s (apply_write (write_of symbol q) acc)
  = or_else (last_opt (writes_val s symbol (VNum q))) (assoc s acc).
Proof.
  simpl. destruct (write_of symbol q) as [[k q'] |]; simpl; [| reflexivity].
  rewrite assoc_set. destruct (String.eqb s k); reflexivity.
Qed.

(* ------------------------------------------------------------------ setter (nested dictionaries) *)
Lemma process_val_spec :
  forall (v : val) (symbol : string) (acc : out) (s : string),
    assoc s (process_val symbol v acc) = or_else (last_opt (writes_val s symbol v)) (assoc s acc).
Proof.
  fix IH 1. intros v symbol acc s. destruct v as [| q | d].
  - reflexivity.
  - apply assoc_apply_write.
  - cbn [process_val writes_val]. revert acc.
    induction d as [| [k v'] t IHt]; intros acc.
    + reflexivity.
    + rewrite IHt. rewrite (IH v' k acc s). rewrite last_opt_app. apply or_else_assoc.
Qed.

Lemma process_items_spec (d : pydict) (acc : out) (s : string) :
  assoc s (process_items d acc) = or_else (last_opt (writes s d)) (assoc s acc).
Proof.
  revert acc. induction d as [| [k v] t IH]; intros acc; simpl.
  - reflexivity.
  - rewrite IH, process_val_spec, last_opt_app. apply or_else_assoc.
Qed.

Lemma assoc_app_notin {A : Type} (s : string) (l1 l2 : list (string * A)) :
  assoc s (l1 ++ l2) = or_else (assoc s l1) (assoc s l2).
Proof.
  induction l1 as [| [k v] t IH]; simpl; [reflexivity |].
  destruct (String.eqb s k); [reflexivity | exact IH].
Qed.

Lemma getd_fill_zeros (syms : list string) (m : nat) (acc : out) (s : string) :
  getd (fill_zeros syms m acc) s = getd acc s.
Proof.
  revert acc. induction syms as [| x t IH]; intros acc; simpl; [reflexivity |].
  rewrite IH. destruct (order_of x) as [o |]; [| reflexivity].
  destruct (Nat.leb o m && negb (mem x (map fst acc))); [| reflexivity].
  unfold getd. rewrite assoc_app_notin. destruct (assoc s acc); simpl; [reflexivity |].
  destruct (String.eqb s x); reflexivity.
Qed.

Definition written (s : string) (d : pydict) : Q :=
  match last_opt (writes s d) with Some q => q | None => 0%Q end.

Lemma setter_spec (mo : option nat) (d : pydict) (o : out) (s : string) :
  setter mo d = Ok o -> getd o s = written s d.
Proof.
  unfold setter. destruct (valid_keys _ d); [| discriminate]. intros H. injection H as <-.
  assert (E : getd (process_items d []) s = written s d).
  { unfold getd, written. rewrite process_items_spec. simpl. destruct (last_opt (writes s d)); reflexivity. }
  unfold fill. destruct mo as [m |]; [rewrite getd_fill_zeros |]; exact E.
Qed.

(* ------------------------------------------------------------------ validate *)
Lemma validate_items_spec (d : pydict) (acc o : out) (s : string) :
  validate_items d acc = Ok o -> assoc s o = or_else (last_opt (writes s d)) (assoc s acc).
Proof.
  revert acc. induction d as [| [k v] t IH]; intros acc H; simpl in *.
  - injection H as <-. reflexivity.
  - destruct v as [| q | d'].
    + rewrite (IH _ H). reflexivity.
    + rewrite (IH _ H). rewrite assoc_apply_write, last_opt_app. apply or_else_assoc.
    + discriminate.
Qed.

Lemma validate_spec (d : pydict) (o : out) (s : string) :
  validate d = Ok o -> getd o s = written s d.
Proof.
  unfold validate. destruct (valid_keys _ d); [| discriminate]. intros H.
  unfold getd, written. rewrite (validate_items_spec d [] o s H). simpl.
  destruct (last_opt (writes s d)); reflexivity.
Qed.

Lemma validate_flat (d : pydict) (o : out) : validate d = Ok o -> flat d.
Proof.
  unfold validate. destruct (valid_keys _ d); [| discriminate].
  generalize (@nil (string * Q)). induction d as [| [k v] t IH]; intros acc H k0 v0 Hin d' E.
  - destruct Hin.
  - simpl in H. destruct Hin as [Hh | Ht].
    + injection Hh as -> ->. subst v0. discriminate.
    + destruct v as [| q | d'']; try discriminate; eapply IH; eauto.
Qed.

(* ------------------------------------------------------------------ standardize *)
Lemma assoc_in {A : Type} (k : string) (l : list (string * A)) (v : A) : assoc k l = Some v -> In (k, v) l.
Proof.
  induction l as [| [k' v'] t IH]; simpl; [discriminate |].
  destruct (String.eqb_spec k k') as [-> | _]; intros H.
  - injection H as ->. now left.
  - right. now apply IH.
Qed.

(* the write that standardize performs for an accepted key is write_of *)
Lemma std_step (k : string) (q : Q) :
  String.eqb k "defocus" = false ->
  mem (match assoc k polar_aliases with Some c => c | None => k end) polar_symbols = true ->
  write_of k q = Some (match assoc k polar_aliases with Some c => c | None => k end, q).
Proof.
  intros Hd Hm. unfold write_of. rewrite Hd.
  destruct (assoc k polar_aliases) as [c |] eqn:Ea.
  - apply assoc_in in Ea. cbv [polar_aliases In] in Ea.
    repeat (destruct Ea as [Ea | Ea]; [injection Ea as <- <-; try discriminate Hd; reflexivity |]).
    destruct Ea.
  - rewrite Hm. reflexivity.
Qed.

Lemma std_defocus (q : Q) : write_of "defocus" q = Some ("C10", Qopp q).
Proof. reflexivity. Qed.

Lemma standardize_items_spec (d : pydict) (acc o : out) (s : string) :
  standardize_items d acc = Ok o -> assoc s o = or_else (last_opt (writes s d)) (assoc s acc).
Proof.
  revert acc. induction d as [| [k v] t IH]; intros acc H.
  - simpl in H. injection H as <-. reflexivity.
  - cbn [standardize_items] in H. cbn [writes].
    destruct (String.eqb_spec k "defocus") as [-> | Hk].
    + destruct v as [| q | d']; try discriminate.
      rewrite (IH _ H). rewrite last_opt_app, <- or_else_assoc. f_equal.
      change (set "C10" (Qopp q) acc) with (apply_write (write_of "defocus" q) acc).
      apply assoc_apply_write.
    + destruct (mem _ polar_symbols) eqn:Hm; [| discriminate].
      destruct v as [| q | d']; try discriminate.
      rewrite (IH _ H). rewrite last_opt_app, <- or_else_assoc. f_equal.
      rewrite <- assoc_apply_write. rewrite (std_step k q); [reflexivity | | exact Hm].
      destruct (String.eqb_spec k "defocus"); [contradiction | reflexivity].
Qed.

Lemma standardize_spec (d : pydict) (o : out) (s : string) :
  standardize d = Ok o -> getd o s = written s d.
Proof.
  unfold standardize. intros H. unfold getd, written.
  rewrite (standardize_items_spec d [] o s H). simpl. destruct (last_opt (writes s d)); reflexivity.
Qed.

(* ------------------------------------------------------------------ the headline facts *)
Inductive handler := HValidate | HStandardize | HSetter (max_order : option nat).

Definition run_handler (h : handler) (d : pydict) : result out :=
  match h with
  | HValidate => validate d
  | HStandardize => standardize d
  | HSetter mo => setter mo d
  end.

Lemma handler_spec (h : handler) (d : pydict) (o : out) (s : string) :
  run_handler h d = Ok o -> getd o s = written s d.
Proof. destruct h; simpl; [apply validate_spec | apply standardize_spec | apply setter_spec]. Qed.

Lemma handlers_agree (h1 h2 : handler) (d : pydict) (o1 o2 : out) (s : string) :
  run_handler h1 d = Ok o1 -> run_handler h2 d = Ok o2 -> getd o1 s = getd o2 s.
Proof. intros H1 H2. rewrite (handler_spec h1 d o1 s H1), (handler_spec h2 d o2 s H2). reflexivity. Qed.

(* items that do not touch C10 *)
Lemma writes_val_other (s k : string) (v : val) :
  (forall d', v <> VDict d') ->
  (forall q, match write_of k q with Some (k', _) => String.eqb s k' = false | None => True end) ->
  writes_val s k v = [].
Proof.
  intros Hf Hw. destruct v as [| q | d']; [reflexivity | | exfalso; eapply Hf; reflexivity].
  simpl. specialize (Hw q). destruct (write_of k q) as [[k' q'] |]; [rewrite Hw |]; reflexivity.
Qed.

Lemma writes_app (s : string) (d1 d2 : pydict) : writes s (d1 ++ d2) = writes s d1 ++ writes s d2.
Proof. induction d1 as [| [k v] t IH]; simpl; [reflexivity | rewrite IH, app_assoc; reflexivity]. Qed.

(* which keys assign to C10: exactly "C10" and "defocus" *)
Lemma c10_writers (k : string) (q : Q) :
  k <> "C10" -> k <> "defocus" ->
  match write_of k q with Some (k', _) => String.eqb "C10" k' = false | None => True end.
Proof.
  intros H1 H2. unfold write_of.
  destruct (mem k polar_symbols) eqn:Hm.
  - destruct (String.eqb_spec "C10" k) as [E | _]; [congruence | reflexivity].
  - destruct (String.eqb_spec k "defocus") as [E | _]; [contradiction |].
    destruct (assoc k polar_aliases) as [c |] eqn:Ea; [| exact I].
    apply assoc_in in Ea. cbv [polar_aliases In] in Ea.
    repeat (destruct Ea as [Ea | Ea]; [injection Ea as <- <-; try contradiction; reflexivity |]).
    destruct Ea.
Qed.

Lemma writes_c10_none (d : pydict) :
  flat d -> (forall k v, In (k, v) d -> k <> "C10" /\ k <> "defocus") -> writes "C10" d = [].
Proof.
  induction d as [| [k v] t IH]; intros Hf Hk; simpl; [reflexivity |].
  rewrite IH.
  - rewrite app_nil_r. apply writes_val_other.
    + apply (Hf k v). now left.
    + intros q. destruct (Hk k v) as [H1 H2]; [now left |]. now apply c10_writers.
  - intros k0 v0 Hin. apply (Hf k0 v0). now right.
  - intros k0 v0 Hin. apply (Hk k0 v0). now right.
Qed.

(* 'defocus' = v, and no later item names C10 or defocus: C10 = -v, in all three handlers *)
Lemma defocus_alias (h : handler) (d1 d2 : pydict) (v : Q) (o : out) :
  run_handler h (d1 ++ ("defocus", VNum v) :: d2) = Ok o ->
  flat d2 -> (forall k x, In (k, x) d2 -> k <> "C10" /\ k <> "defocus") ->
  getd o "C10" = Qopp v.
Proof.
  intros H Hf Hk. rewrite (handler_spec h _ o "C10" H). unfold written.
  rewrite writes_app. simpl. rewrite (writes_c10_none d2 Hf Hk).
  rewrite last_opt_app. reflexivity.
Qed.

(* 'C10' = v given after (or without) 'defocus': C10 = v *)
Lemma c10_direct (h : handler) (d1 d2 : pydict) (v : Q) (o : out) :
  run_handler h (d1 ++ ("C10", VNum v) :: d2) = Ok o ->
  flat d2 -> (forall k x, In (k, x) d2 -> k <> "C10" /\ k <> "defocus") ->
  getd o "C10" = v.
Proof.
  intros H Hf Hk. rewrite (handler_spec h _ o "C10" H). unfold written.
  rewrite writes_app. simpl. rewrite (writes_c10_none d2 Hf Hk).
  rewrite last_opt_app. reflexivity.
Qed.

(* every other alias is a plain renaming, every symbol is stored unchanged *)
Lemma alias_renames (h : handler) (d1 d2 : pydict) (k target : string) (v : Q) (o : out) :
  run_handler h (d1 ++ (k, VNum v) :: d2) = Ok o ->
  write_of k v = Some (target, v) ->
  writes target d2 = [] ->
  getd o target = v.
Proof.
  intros H Hw Hn. rewrite (handler_spec h _ o target H). unfold written.
  rewrite writes_app. simpl. rewrite Hw, String.eqb_refl, Hn. rewrite last_opt_app. reflexivity.
Qed.
