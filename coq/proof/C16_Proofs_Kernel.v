(* C16 — round-3 proofs about model/C16_Model_Kernel.v:
   the sub-pixel shift ramp and the Fresnel kernel as SHAPES over an abstract character
   E : P -> R (P a commutative ring of phases, E (a+b) = E a * E b, E 0 = 1, conj (E a) = E (-a)):
   unit modulus, inverse (negated shift / distance), additivity, conjugate = negated distance are
   DERIVED from the shape, so the operator theorems of C16_Proofs.v hold for the kernels the code
   builds without unit-modulus / character hypotheses; the library's forward pass (sub-pixel
   shifted probes, multislice with Fresnel kernels, descan ramp) keeps the summed intensity;
   gradient_step identities; gather / scatter adjointness slice by slice. *)
From Coq Require Import ZArith List Lia Ring Arith.
From QV.lib Require Import FinSum DFT DFT2.
From QV.model Require Import C16_Model C16_Model_Kernel.
From QV.proof Require Import C16_Proofs.
Import ListNotations.

(* ============================================================================ slices: any ring *)
Section SliceAdjoint.
  Variable R : Type.
  Variables (rO rI : R) (radd rmul rsub : R -> R -> R) (ropp : R -> R).
  Variable Rth : ring_theory rO rI radd rmul rsub ropp (@eq R).

  (* sum over slices of <obj_s[idx], v_s> = sum over slices of <obj_s, sum_patches(v_s, idx)> *)
  Theorem scatter_adjoint_gather_slices (size : nat) (idx : list nat) :
    Forall (fun i => (i < size)%nat) idx ->
    forall (objs : list (nat -> R)) (valss : list (list R)),
    ldot_slices rO radd rmul (gather_slices objs idx) valss
    = adot_slices rO radd rmul size objs (scatter_slices rO radd idx valss).
  Proof.
    intros Hidx objs. induction objs as [|o objs IH]; intros valss; [reflexivity|].
    destruct valss as [|v valss]; [reflexivity|].
    cbn [gather_slices scatter_slices map ldot_slices adot_slices].
    rewrite (scatter_adjoint_gather Rth size o idx v Hidx). f_equal. apply IH.
  Qed.
End SliceAdjoint.

(* ============================================================================ kernels *)
Section KernelProofs.
  Variable R : Type.
  Variables (rO rI : R) (radd rmul rsub : R -> R -> R) (ropp : R -> R).
  Variable Rth : ring_theory rO rI radd rmul rsub ropp (@eq R).
  Add Ring RringKer : Rth.
  Variable conj : R -> R.
  Hypothesis Cok : conj_ok radd rmul conj.
  Variables (N1 : nat) (w1 : Z -> R) (Ninv1 : R) (N2 : nat) (w2 : Z -> R) (Ninv2 : R).
  Hypothesis Rok1 : root_ok rO rI radd rmul conj N1 w1 Ninv1.
  Hypothesis Rok2 : root_ok rO rI radd rmul conj N2 w2 Ninv2.
  (* the ring of phases and the character *)
  Variable P : Type.
  Variables (pO pI : P) (padd pmul psub : P -> P -> P) (popp : P -> P).
  Variable Pth : ring_theory pO pI padd pmul psub popp (@eq P).
  Add Ring PringKer : Pth.
  Variable E : P -> R.
  Hypothesis E_add : forall a b, E (padd a b) = rmul (E a) (E b).
  Hypothesis E_zero : E pO = rI.
  Hypothesis E_conj : forall a, conj (E a) = E (popp a).
  Set Default Proof Using "All".

  Notation "0" := rO.  Notation "1" := rI.
  Infix "+" := radd.   Infix "*" := rmul.  Infix "-" := rsub.
  Infix "+'" := padd (at level 50, left associativity).
  Infix "*'" := pmul (at level 40, left associativity).
  Notation "-' x" := (popp x) (at level 35, right associativity).
  Notation img := (nat -> nat -> R).
  Notation abs2 := (abs2 rmul conj).
  Notation energy2 := (energy2 rO radd rmul conj N1 N2).
  Notation eq2 := (eq2 R N1 N2).
  Notation unit1 := (unit1 R rI rmul conj).
  Notation unit2 := (unit2 R rI rmul conj N1 N2).
  Notation ramp2 := (ramp2 rmul).
  Notation pmul_i := (C16_Model.pmul rmul).
  Notation fmul2 := (fmul2 rO radd rmul N1 w1 Ninv1 N2 w2 Ninv2).
  Notation fourier_shift := (fourier_shift rO radd rmul N1 w1 Ninv1 N2 w2 Ninv2).
  Notation propagate := (propagate rO radd rmul N1 w1 Ninv1 N2 w2 Ninv2).
  Notation overlap_projection := (overlap_projection rO radd rmul N1 w1 Ninv1 N2 w2 Ninv2).
  Notation forward_operator := (forward_operator rO radd rmul N1 w1 Ninv1 N2 w2 Ninv2).
  Notation shift_ramp := (shift_ramp pmul popp E).
  Notation fresnel_kernel := (fresnel_kernel padd pmul popp E).
  Notation fresnel_kernel_code := (fresnel_kernel_code rmul padd pmul popp E).
  Notation propagator_arrays := (propagator_arrays rmul padd pmul popp E).
  Notation ops f := (f R rO rI radd rmul rsub ropp Rth conj Cok N1 w1 Ninv1 N2 w2 Ninv2 Rok1 Rok2) (only parsing).

  (* ---------------------------------------------------------------- the character *)
  Lemma E_unit a : abs2 (E a) = 1.
  Proof.
    unfold C16_Model.abs2. rewrite E_conj, <- E_add.
    replace (a +' -' a) with pO by ring. exact E_zero.
  Qed.

  Lemma E_neg_inv a : E (-' a) * E a = 1.
  Proof. rewrite <- E_add. replace (-' a +' a) with pO by ring. exact E_zero. Qed.

  (* ---------------------------------------------------------------- sub-pixel shift ramp *)
  Lemma shift_ramp_unit N f s : unit1 N (shift_ramp f s).
  Proof. intros k _. apply E_unit. Qed.

  Lemma shift_ramp_add f s t k : shift_ramp f (s +' t) k = shift_ramp f s k * shift_ramp f t k.
  Proof.
    unfold C16_Model_Kernel.shift_ramp, ramp_phase. rewrite <- E_add. f_equal. ring.
  Qed.

  Lemma shift_ramp_zero f k : shift_ramp f pO k = 1.
  Proof.
    unfold C16_Model_Kernel.shift_ramp, ramp_phase.
    replace (-' (f k *' pO)) with pO by ring. exact E_zero.
  Qed.

  (* the phase of the 2-D ramp is the sum of the two 1-D phases *)
  Lemma ramp2_shape f1 f2 s1 s2 k1 k2 :
    ramp2 (shift_ramp f1 s1) (shift_ramp f2 s2) k1 k2 = E (ramp2_phase padd pmul popp f1 f2 s1 s2 k1 k2).
  Proof. unfold C16_Model.ramp2, C16_Model_Kernel.shift_ramp, ramp2_phase. rewrite E_add. reflexivity. Qed.

  Lemma fourier_shift_one hr hc x :
    (forall k, (k < N1)%nat -> hr k = 1) -> (forall k, (k < N2)%nat -> hc k = 1) ->
    eq2 (fourier_shift hr hc x) x.
  Proof.
    intros Hr Hc n1 n2 H1 H2. unfold C16_Model.fourier_shift.
    rewrite (fmul2_m_eq Rth Cok Rok1 Rok2) by assumption.
    rewrite <- (fmul2_one Rth Cok Rok1 Rok2 x n1 n2 H1 H2).
    apply (fmul2_ext Rth Cok Rok1 Rok2); [|reflexivity].
    intros k1 k2 Hk1 Hk2. unfold C16_Model.ramp2. rewrite Hr, Hc by assumption. ring.
  Qed.

  (* fourier_shift_expand by ANY shift vector keeps the total intensity (any frequency grids) *)
  Theorem ramp_translate_energy f1 f2 s1 s2 x :
    energy2 (fourier_shift (shift_ramp f1 s1) (shift_ramp f2 s2) x) = energy2 x.
  Proof. apply (ops translate_energy); apply shift_ramp_unit. Qed.

  (* shifting by t and then by s is shifting by s + t *)
  Theorem ramp_translate_additive f1 f2 s1 s2 t1 t2 x :
    eq2 (fourier_shift (shift_ramp f1 s1) (shift_ramp f2 s2) (fourier_shift (shift_ramp f1 t1) (shift_ramp f2 t2) x))
        (fourier_shift (shift_ramp f1 (s1 +' t1)) (shift_ramp f2 (s2 +' t2)) x).
  Proof.
    apply (ops translate_additive P padd (shift_ramp f1) (shift_ramp f2)); intros s t k _; apply shift_ramp_add.
  Qed.

  (* shifting by a vector and then by its negative restores the array; shifting by 0 is the identity *)
  Theorem ramp_translate_zero f1 f2 x : eq2 (fourier_shift (shift_ramp f1 pO) (shift_ramp f2 pO) x) x.
  Proof. apply fourier_shift_one; intros k _; apply shift_ramp_zero. Qed.

  Theorem ramp_translate_inverse f1 f2 s1 s2 x :
    eq2 (fourier_shift (shift_ramp f1 (-' s1)) (shift_ramp f2 (-' s2)) (fourier_shift (shift_ramp f1 s1) (shift_ramp f2 s2) x)) x.
  Proof.
    intros n1 n2 H1 H2. rewrite (ramp_translate_additive f1 f2 (-' s1) (-' s2) s1 s2 x n1 n2 H1 H2).
    replace (-' s1 +' s1) with pO by ring. replace (-' s2 +' s2) with pO by ring.
    apply ramp_translate_zero; assumption.
  Qed.

  (* integer shifts: where the character meets the root family (E(-(f k s)) = w^(k s), as
     exp(-2 pi i fftfreq(k) s) = exp(-2 pi i k s / N) for integer s) the translation is np.roll *)
  Theorem ramp_integer_is_roll (ofZ : Z -> P) f1 f2 (s1 s2 : Z) x :
    (forall k, (k < N1)%nat -> E (ramp_phase pmul popp (f1 k) (ofZ s1)) = w1 (Z.of_nat k * s1)%Z) ->
    (forall k, (k < N2)%nat -> E (ramp_phase pmul popp (f2 k) (ofZ s2)) = w2 (Z.of_nat k * s2)%Z) ->
    eq2 (fourier_shift (shift_ramp f1 (ofZ s1)) (shift_ramp f2 (ofZ s2)) x) (roll2 N1 N2 s1 s2 x).
  Proof. intros H1 H2. apply (ops translate_integer_is_roll); assumption. Qed.

  (* ---------------------------------------------------------------- Fresnel kernel *)
  Section Fresnel.
    Variables (chalf lam : P) (br bc : bool) (tr tc : P) (fr fc : nat -> P).
    Notation K := (fresnel_kernel_code chalf lam br bc tr tc fr fc).

    (* the coded product of exponentials is one exponential of the total phase, provided a skipped
       tilt factor is skipped because its tangent is 0 *)
    Lemma fresnel_code_shape dz k1 k2 :
      (br = false -> tr = pO) -> (bc = false -> tc = pO) ->
      K dz k1 k2 = fresnel_kernel chalf lam tr tc fr fc dz k1 k2.
    Proof.
      intros Hr Hc. unfold C16_Model_Kernel.fresnel_kernel_code, C16_Model_Kernel.fresnel_kernel. cbv zeta.
      destruct br, bc; rewrite <- ?E_add; f_equal; unfold fresnel_phase, tilt_phase;
        try rewrite (Hr eq_refl); try rewrite (Hc eq_refl); ring.
    Qed.

    Lemma fresnel_code_unit dz : unit2 (K dz).
    Proof.
      intros k1 k2 _ _. unfold C16_Model_Kernel.fresnel_kernel_code. cbv zeta.
      destruct br, bc; rewrite ?(ops abs2_mul), ?E_unit; ring.
    Qed.

    Lemma phase0_add a b kr kc :
      fresnel_phase0 padd pmul popp chalf lam (a +' b) kr kc
      = fresnel_phase0 padd pmul popp chalf lam a kr kc +' fresnel_phase0 padd pmul popp chalf lam b kr kc.
    Proof. unfold fresnel_phase0. ring. Qed.
    Lemma tilt_add a b t k : tilt_phase pmul popp (a +' b) t k = tilt_phase pmul popp a t k +' tilt_phase pmul popp b t k.
    Proof. unfold tilt_phase. ring. Qed.
    Lemma phase0_zero kr kc : fresnel_phase0 padd pmul popp chalf lam pO kr kc = pO.
    Proof. unfold fresnel_phase0. ring. Qed.
    Lemma tilt_zero t k : tilt_phase pmul popp pO t k = pO.
    Proof. unfold tilt_phase. ring. Qed.
    Lemma phase0_opp a kr kc :
      -' fresnel_phase0 padd pmul popp chalf lam a kr kc = fresnel_phase0 padd pmul popp chalf lam (-' a) kr kc.
    Proof. unfold fresnel_phase0. ring. Qed.
    Lemma tilt_opp a t k : -' tilt_phase pmul popp a t k = tilt_phase pmul popp (-' a) t k.
    Proof. unfold tilt_phase. ring. Qed.

    (* every factor is a character of the distance: K (a + b) = K a * K b *)
    Lemma fresnel_code_add a b k1 k2 : K (a +' b) k1 k2 = K a k1 k2 * K b k1 k2.
    Proof.
      unfold C16_Model_Kernel.fresnel_kernel_code. cbv zeta.
      rewrite phase0_add, !tilt_add, !E_add. destruct br, bc; ring.
    Qed.

    Lemma fresnel_code_zero k1 k2 : K pO k1 k2 = 1.
    Proof.
      unfold C16_Model_Kernel.fresnel_kernel_code. cbv zeta.
      rewrite phase0_zero, !tilt_zero, E_zero. destruct br, bc; ring.
    Qed.

    Lemma fresnel_code_neg_inv dz k1 k2 : K (-' dz) k1 k2 * K dz k1 k2 = 1.
    Proof.
      rewrite <- fresnel_code_add. replace (-' dz +' dz) with pO by ring. apply fresnel_code_zero.
    Qed.

    (* the conjugate kernel (ObjectPixelated.backward back-propagates with conj(propagators)) is the
       kernel of the negated distance *)
    Lemma fresnel_code_conj dz k1 k2 : conj (K dz k1 k2) = K (-' dz) k1 k2.
    Proof.
      unfold C16_Model_Kernel.fresnel_kernel_code. cbv zeta.
      destruct br, bc; rewrite ?(conj_mul _ _ _ _ Cok), !E_conj, ?phase0_opp, ?tilt_opp; reflexivity.
    Qed.

    (* free-space propagation with the kernel the code builds: total intensity is preserved for
       EVERY wavelength, distance, tilt and frequency grid ... *)
    Theorem fresnel_propagate_energy dz x : energy2 (propagate (K dz) x) = energy2 x.
    Proof. apply (ops propagate_energy). apply fresnel_code_unit. Qed.

    (* ... propagating by dz and then by -dz is the identity ... *)
    Theorem fresnel_propagate_inverse dz x : eq2 (propagate (K (-' dz)) (propagate (K dz) x)) x.
    Proof. apply (ops propagate_inverse_gen). intros k1 k2 _ _. apply fresnel_code_neg_inv. Qed.

    (* ... and distances add *)
    Theorem fresnel_propagate_additive a b x : eq2 (propagate (K a) (propagate (K b) x)) (propagate (K (a +' b)) x).
    Proof. apply (ops propagate_additive P padd K). intros a' b' k1 k2 _ _. apply fresnel_code_add. Qed.

    (* back-propagation with the conjugate kernel undoes the propagation *)
    Theorem fresnel_backpropagate dz x : eq2 (propagate (fun k1 k2 => conj (K dz k1 k2)) (propagate (K dz) x)) x.
    Proof. apply (ops propagate_inverse). apply fresnel_code_unit. Qed.

    Lemma propagator_arrays_unit thick : Forall unit2 (propagator_arrays chalf lam br bc tr tc fr fc thick).
    Proof.
      unfold C16_Model_Kernel.propagator_arrays. induction thick as [|d thick IH]; cbn [map]; constructor;
        [apply fresnel_code_unit | exact IH].
    Qed.
  End Fresnel.

  (* ---------------------------------------------------------------- the forward pass *)
  Lemma forward_operator_energy objs props hr hc dr dc probe :
    Forall unit2 objs -> Forall unit2 props -> unit1 N1 hr -> unit1 N2 hc -> unit1 N1 dr -> unit1 N2 dc ->
    energy2 (forward_operator objs props hr hc dr dc probe) = energy2 probe.
  Proof.
    intros Ho Hp Hhr Hhc Hdr Hdc. unfold C16_Model_Kernel.forward_operator.
    rewrite (ops pmul_unit_energy) by (apply (ops ramp2_unit); assumption).
    rewrite (ops overlap_energy) by assumption.
    apply (ops translate_energy); assumption.
  Qed.

  Variables (rs rsi : R).
  Hypothesis Hrs : rs * conj rs = Ninv1 * Ninv2.
  Hypothesis Hrsi : rs * rsi = 1.
  Notation total_intensity := (total_intensity rO radd rmul conj N1 w1 N2 w2 rs).
  Notation detector_forward := (detector_forward rO radd rmul conj N1 w1 N2 w2 rs).
  Notation estimate_intensities := (estimate_intensities rO radd rmul conj N1 w1 N2 w2 rs).
  Notation dft2_ortho := (dft2_ortho rO radd rmul N1 w1 N2 w2 rs).
  Notation dft2 := (dft2 rO radd rmul N1 w1 N2 w2).
  Notation sum2 := (sum2 rO radd N1 N2).
  Notation suml := (suml rO radd).
  Notation opsd f := (f R rO rI radd rmul rsub ropp Rth conj Cok N1 w1 Ninv1 N2 w2 Ninv2 Rok1 Rok2 rs rsi Hrs Hrsi)
    (only parsing).

  (* pure-phase object, Fresnel kernels of ANY thickness list / wavelength / tilt: no hypothesis on
     the propagators is left *)
  Theorem fresnel_pure_phase_intensity chalf lam br bc tr tc fr fc thick objs probes :
    Forall unit2 objs ->
    total_intensity (map (overlap_projection objs (propagator_arrays chalf lam br bc tr tc fr fc thick)) probes)
    = suml (map energy2 probes).
  Proof.
    intros Ho. apply (opsd pure_phase_intensity); [exact Ho | apply propagator_arrays_unit].
  Qed.

  (* the whole forward pass of the library for one pattern: every probe mode is sub-pixel shifted
     (ramp at the fractional scan position s), sent through the multislice with Fresnel kernels,
     multiplied by the descan ramp (shift d) in real space, and detected *)
  Theorem forward_pass_intensity chalf lam br bc tr tc fr fc thick f1 f2 s1 s2 g1 g2 d1 d2 objs probes :
    Forall unit2 objs ->
    total_intensity
      (map (forward_operator objs (propagator_arrays chalf lam br bc tr tc fr fc thick)
              (shift_ramp f1 s1) (shift_ramp f2 s2) (shift_ramp g1 d1) (shift_ramp g2 d2)) probes)
    = suml (map energy2 probes).
  Proof.
    intros Ho. rewrite (opsd total_intensity_energy), map_map. f_equal. apply map_ext. intros probe.
    apply forward_operator_energy; try apply shift_ramp_unit; [exact Ho | apply propagator_arrays_unit].
  Qed.

End KernelProofs.

(* ============================================================================ gradient_step *)
Section GradProofs.
  Variable R : Type.
  Variables (rO rI : R) (radd rmul rsub : R -> R -> R) (ropp : R -> R).
  Variable Rth : ring_theory rO rI radd rmul rsub ropp (@eq R).
  Add Ring RringGrad : Rth.
  Variable conj : R -> R.
  Hypothesis Cok : conj_ok radd rmul conj.
  Variables (N1 : nat) (w1 : Z -> R) (Ninv1 : R) (N2 : nat) (w2 : Z -> R) (Ninv2 : R).
  Hypothesis Rok1 : root_ok rO rI radd rmul conj N1 w1 Ninv1.
  Hypothesis Rok2 : root_ok rO rI radd rmul conj N2 w2 Ninv2.
  Variables (rs rsi : R).
  Hypothesis Hrs : rmul rs (conj rs) = rmul Ninv1 Ninv2.
  Hypothesis Hrsi : rmul rs rsi = rI.
  Set Default Proof Using "All".

  Notation "0" := rO.  Notation "1" := rI.
  Infix "+" := radd.   Infix "*" := rmul.  Infix "-" := rsub.
  Notation img := (nat -> nat -> R).
  Notation abs2 := (abs2 rmul conj).
  Notation energy2 := (energy2 rO radd rmul conj N1 N2).
  Notation eq2 := (eq2 R N1 N2).
  Notation detector_forward := (detector_forward rO radd rmul conj N1 w1 N2 w2 rs).
  Notation estimate_intensities := (estimate_intensities rO radd rmul conj N1 w1 N2 w2 rs).
  Notation dft2_ortho := (dft2_ortho rO radd rmul N1 w1 N2 w2 rs).
  Notation dft2 := (dft2 rO radd rmul N1 w1 N2 w2).
  Notation sum2 := (sum2 rO radd N1 N2).
  Notation ops f := (f R rO rI radd rmul rsub ropp Rth conj Cok N1 w1 Ninv1 N2 w2 Ninv2 Rok1 Rok2) (only parsing).
  Notation opsd f := (f R rO rI radd rmul rsub ropp Rth conj Cok N1 w1 Ninv1 N2 w2 Ninv2 Rok1 Rok2 rs rsi Hrs Hrsi)
    (only parsing).

  (* ---------------------------------------------------------------- gradient_step *)
  Variable ph : R -> R.
  Variable amp : R -> Prop.
  Hypothesis amp_real : forall a, amp a -> conj a = a.
  Hypothesis ph_unit : forall z, abs2 (ph z) = 1.
  Hypothesis ph_amp : forall a u, amp a -> abs2 u = 1 -> a * ph (a * u) = a * u.
  Notation fourier_projection := (fourier_projection rO radd rmul N1 w1 Ninv1 N2 w2 Ninv2 rs rsi ph).
  Notation gradient_step := (gradient_step rO radd rmul rsub N1 w1 Ninv1 N2 w2 Ninv2 rs rsi ph).
  Notation amp2 := (amp2 R N1 N2 amp).
  Notation ifftshift2 := (ifftshift2 N1 N2).
  Notation opsp f := (f R rO rI radd rmul rsub ropp Rth conj Cok N1 w1 Ninv1 N2 w2 Ninv2 Rok1 Rok2 rs rsi Hrs Hrsi
                        ph amp amp_real ph_unit ph_amp) (only parsing).

  (* the exit wave plus the gradient step IS the projected exit wave *)
  Theorem gradient_step_plus a psi :
    eq2 (fun i j => psi i j + gradient_step a psi i j) (fourier_projection a psi).
  Proof. intros i j _ _. unfold C16_Model.gradient_step. cbv zeta. ring. Qed.

  (* the gradient step vanishes at a projected exit wave (fixed point of the projection) *)
  Theorem gradient_step_fixed_point a psi : amp2 a ->
    eq2 (gradient_step a (fourier_projection a psi)) (fun _ _ => 0).
  Proof.
    intros Ha i j Hi Hj. unfold C16_Model.gradient_step. cbv zeta.
    rewrite (opsp fourier_projection_idem a psi Ha i j Hi Hj). ring.
  Qed.

  Lemma detector_forward_ext1 x y : eq2 x y -> eq2 (detector_forward [x]) (detector_forward [y]).
  Proof.
    intros H n1 n2 _ _. unfold C16_Model.detector_forward. cbv zeta. unfold DFT2.fftshift2, DFT2.roll2.
    set (k1 := zidx N1 _). set (k2 := zidx N2 _).
    assert (Hk1 : (k1 < N1)%nat) by apply (zidx_lt Rth Cok Rok1).
    assert (Hk2 : (k2 < N2)%nat) by apply (zidx_lt Rth Cok Rok2).
    rewrite !(opsd estimate_intensities_eq). cbn [map FinSum.suml].
    rewrite (opsd dft2_ortho_ext x y H k1 k2 Hk1 Hk2). reflexivity.
  Qed.

  (* after one analytic step of unit length the detector sees exactly the measured amplitudes *)
  Theorem gradient_step_detector a psi : amp2 a ->
    eq2 (detector_forward [fun i j => psi i j + gradient_step a psi i j]) (fun n1 n2 => a n1 n2 * a n1 n2).
  Proof.
    intros Ha n1 n2 H1 H2.
    rewrite (detector_forward_ext1 _ _ (gradient_step_plus a psi) n1 n2 H1 H2).
    apply (opsp fourier_projection_amp); assumption.
  Qed.

  Lemma conj_zero : conj 0 = 0.
  Proof.
    assert (H : conj 0 = conj 0 + conj 0).
    { rewrite <- (conj_add _ _ _ _ Cok). f_equal. ring. }
    transitivity ((conj 0 + conj 0) - conj 0); [ring|]. rewrite <- H. ring.
  Qed.

  Lemma conj_sub a b : conj (a - b) = conj a - conj b.
  Proof.
    assert (H : conj (a - b) + conj b = conj a).
    { rewrite <- (conj_add _ _ _ _ Cok). f_equal. ring. }
    rewrite <- H. ring.
  Qed.

  Lemma dft2_ortho_sub x y : eq2 (dft2_ortho (fun i j => x i j - y i j)) (fun k1 k2 => dft2_ortho x k1 k2 - dft2_ortho y k1 k2).
  Proof.
    intros k1 k2 H1 H2. rewrite !(opsd dft2_ortho_eq) by assumption.
    rewrite (dft2_ext Rth Cok Rok1 Rok2 (fun i j => x i j - y i j) (fun i j => 1 * x i j + (0 - 1) * y i j))
      by (intros; ring).
    rewrite (dft2_linear Rth Cok Rok1 Rok2). ring.
  Qed.

  (* spectrum of the gradient step: where the spectrum of psi has the polar form m * ph F (m its
     modulus), F(gradient_step) = (a - m) * ph F: the amplitude misfit carried by the current phase *)
  Theorem gradient_step_spectrum a psi (m : img) :
    (forall k1 k2, (k1 < N1)%nat -> (k2 < N2)%nat -> dft2_ortho psi k1 k2 = m k1 k2 * ph (dft2_ortho psi k1 k2)) ->
    eq2 (dft2_ortho (gradient_step a psi))
        (fun k1 k2 => (ifftshift2 a k1 k2 - m k1 k2) * ph (dft2_ortho psi k1 k2)).
  Proof.
    intros Hm k1 k2 H1 H2.
    rewrite (opsd dft2_ortho_ext (gradient_step a psi) (fun i j => fourier_projection a psi i j - psi i j))
      by (first [assumption | intros i j _ _; reflexivity]).
    rewrite (dft2_ortho_sub _ _ k1 k2 H1 H2).
    rewrite (opsp fp_spectrum a psi k1 k2 H1 H2).
    rewrite (Hm k1 k2 H1 H2) at 2. ring.
  Qed.

  (* ... hence its squared norm is the squared amplitude misfit sum_k (a_k - |F_k|)^2: the
     l2-amplitude error of the pattern *)
  Theorem gradient_step_energy a psi (m : img) : amp2 a ->
    (forall k1 k2, (k1 < N1)%nat -> (k2 < N2)%nat ->
       dft2_ortho psi k1 k2 = m k1 k2 * ph (dft2_ortho psi k1 k2) /\ conj (m k1 k2) = m k1 k2) ->
    energy2 (gradient_step a psi)
    = sum2 (fun k1 k2 => (ifftshift2 a k1 k2 - m k1 k2) * (ifftshift2 a k1 k2 - m k1 k2)).
  Proof.
    intros Ha Hm. rewrite <- (opsd ortho_parseval).
    apply (sum2_ext Rth Cok Rok1 Rok2). intros k1 k2 H1 H2.
    rewrite (gradient_step_spectrum a psi m (fun k1 k2 H1 H2 => proj1 (Hm k1 k2 H1 H2)) k1 k2 H1 H2).
    rewrite (ops abs2_mul), ph_unit. unfold C16_Model.abs2. rewrite conj_sub.
    rewrite (amp_real _ (opsp ifftshift2_amp a Ha k1 k2 H1 H2)), (proj2 (Hm k1 k2 H1 H2)). ring.
  Qed.

  (* ---------------------------------------------------------------- mixed state *)
  Variable isq : R -> R.
  Hypothesis isq_amp : forall a, amp a -> a * isq (a * a) * a = a.
  Notation fourier_projection_mixed :=
    (fourier_projection_mixed rO radd rmul conj N1 w1 Ninv1 N2 w2 Ninv2 rs rsi isq 0).
  Notation gradient_step_mixed := (gradient_step_mixed rO radd rmul rsub N1 w1 Ninv1 N2 w2 Ninv2 conj rs rsi isq 0).
  Notation isq_ok := (isq_ok R rO rI radd rmul conj N1 w1 N2 w2 rs isq).

  Lemma sub_imgs_zero ps qs : Forall2 eq2 ps qs ->
    Forall (fun g : img => eq2 g (fun _ _ => 0)) (sub_imgs rsub ps qs).
  Proof.
    intros H. induction H as [|p q ps qs Hpq _ IH]; cbn [sub_imgs]; constructor; [|exact IH].
    intros i j Hi Hj. unfold sub_img. rewrite (Hpq i j Hi Hj). ring.
  Qed.

  (* every mode's gradient step vanishes at a projected stack of exit waves (where the summed
     estimate is non-zero) *)
  Theorem gradient_step_mixed_fixed_point a psis : amp2 a -> isq_ok psis ->
    Forall (fun g : img => eq2 g (fun _ _ => 0)) (gradient_step_mixed a (fourier_projection_mixed a psis)).
  Proof.
    intros Ha Hq. unfold C16_Model_Kernel.gradient_step_mixed. apply sub_imgs_zero.
    apply (opsp fourier_projection_mixed_idem isq isq_amp a psis Ha Hq).
  Qed.
End GradProofs.
