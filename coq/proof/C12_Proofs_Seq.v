(* C12 — the probe-params setter assigned several times: what the object stores after an accepted
   assignment depends on that assignment's dictionary only, whatever was assigned before
   (history independence); with handler_spec: 'defocus' assigned last still means C10 = -defocus.
   Axiom-free. *)
From Coq Require Import QArith List String Bool Ascii Lia.
From QV.model Require Import C12_Model.
From QV.proof Require Import C12_Proofs.
Import ListNotations.
Local Open Scope string_scope.
Local Open Scope list_scope.

Lemma assoc_app {A : Type} (k : string) (l1 l2 : list (string * A)) :
  assoc k (l1 ++ l2) = or_else (assoc k l1) (assoc k l2).
Proof.
  induction l1 as [| [k' v'] t IH]; simpl; [reflexivity |].
  destruct (String.eqb k k'); [reflexivity | exact IH].
Qed.

(* a | b : the LAST binding of k in b wins, otherwise a's *)
Lemma assoc_union (k : string) (a b : pydict) :
  assoc k (union a b) = or_else (assoc k (rev b)) (assoc k a).
Proof.
  revert a. induction b as [| [k' v'] t IH]; intros a; simpl; [reflexivity |].
  rewrite IH, assoc_app, assoc_set. simpl.
  destruct (assoc k (rev t)); simpl; [reflexivity |].
  destruct (String.eqb k k'); reflexivity.
Qed.

Lemma assoc_none_notin {A : Type} (k : string) (l : list (string * A)) :
  ~ In k (map fst l) -> assoc k l = None.
Proof.
  induction l as [| [k' v'] t IH]; simpl; [reflexivity |]. intros H.
  destruct (String.eqb_spec k k') as [-> | Hne]; [exfalso; apply H; now left |].
  apply IH. intros Hin. apply H. now right.
Qed.

(* Python dictionaries have unique keys: then first and last binding coincide *)
Lemma assoc_rev_nodup {A : Type} (k : string) (l : list (string * A)) :
  NoDup (map fst l) -> assoc k (rev l) = assoc k l.
Proof.
  induction l as [| [k' v'] t IH]; simpl; [reflexivity |]. intros H. inversion H as [| ? ? Hnin Hnd]; subst.
  rewrite assoc_app, (IH Hnd). simpl.
  destruct (String.eqb_spec k k') as [-> | Hne].
  - rewrite (assoc_none_notin k' t Hnin). reflexivity.
  - destruct (assoc k t); reflexivity.
Qed.

Lemma map_fst_set {A : Type} (k : string) (v : A) (l : list (string * A)) :
  map fst (set k v l) = if mem k (map fst l) then map fst l else map fst l ++ [k].
Proof.
  induction l as [| [k' v'] t IH]; simpl; [reflexivity |].
  destruct (String.eqb_spec k k') as [-> | Hne]; simpl; [reflexivity |].
  rewrite IH. unfold mem. destruct (existsb (String.eqb k) (map fst t)); reflexivity.
Qed.

Lemma mem_false_notin (k : string) (l : list string) : mem k l = false -> ~ In k l.
Proof.
  unfold mem. intros H Hin. assert (E : existsb (String.eqb k) l = true).
  { apply existsb_exists. exists k. split; [exact Hin | apply String.eqb_refl]. }
  congruence.
Qed.

Lemma nodup_set {A : Type} (k : string) (v : A) (l : list (string * A)) :
  NoDup (map fst l) -> NoDup (map fst (set k v l)).
Proof.
  intros H. rewrite map_fst_set. destruct (mem k (map fst l)) eqn:E; [exact H |].
  apply NoDup_rev in H. rewrite <- (rev_involutive (map fst l ++ [k])). apply NoDup_rev.
  rewrite rev_app_distr. simpl. constructor; [| exact H].
  rewrite <- in_rev. now apply mem_false_notin.
Qed.

(* after an accepted assignment the stored "aberration_coefs" is the dictionary standardized from
   THAT assignment's params, whatever the object held before *)
Lemma assign_stores (mo : option nat) (st params st' : pydict) :
  NoDup (map fst params) ->
  assign mo st params = Ok st' ->
  exists o, setter mo params = Ok o /\ assoc "aberration_coefs" st' = Some (out_val o).
Proof.
  intros Hnd H. unfold assign in H. destruct (setter mo params) as [o | | |] eqn:E; try discriminate.
  injection H as <-. exists o. split; [reflexivity |].
  rewrite assoc_union, assoc_rev_nodup by now apply nodup_set.
  rewrite assoc_set. reflexivity.
Qed.

Lemma assoc_out_val (o : out) (name : string) :
  match assoc name (map (fun kv : string * Q => (fst kv, VNum (snd kv))) o) with
  | Some (VNum q) => q
  | _ => 0%Q
  end = getd o name.
Proof.
  unfold getd. induction o as [| [k q] t IH]; simpl; [reflexivity |].
  destruct (String.eqb name k); [reflexivity | exact IH].
Qed.

Lemma stored_out_val (o : out) (st : pydict) (name : string) :
  assoc "aberration_coefs" st = Some (out_val o) -> stored_coef st name = getd o name.
Proof.
  intros H. unfold stored_coef. rewrite H. unfold out_val. apply assoc_out_val.
Qed.

(* history independence: every coefficient read from the object after an accepted assignment is the
   value the last item of THAT dictionary assigns to it ('defocus' entering as C10 = -defocus) *)
Lemma assign_meaning (mo : option nat) (st params st' : pydict) (name : string) :
  NoDup (map fst params) ->
  assign mo st params = Ok st' -> stored_coef st' name = written name params.
Proof.
  intros Hnd H. destruct (assign_stores mo st params st' Hnd H) as (o & Ho & Ha).
  rewrite (stored_out_val o st' name Ha). now apply (setter_spec mo).
Qed.

Lemma assign_all_last (mo : option nat) (st : pydict) (history : list pydict) (params st' : pydict) (name : string) :
  NoDup (map fst params) ->
  assign mo (assign_all mo st history) params = Ok st' ->
  stored_coef (assign_all mo st (history ++ [params])) name = written name params.
Proof.
  intros Hnd H.
  assert (E : assign_all mo st (history ++ [params]) = st').
  { revert st H. induction history as [| p t IH]; intros st H; simpl in *.
    - rewrite H. reflexivity.
    - destruct (assign mo st p); apply IH; exact H. }
  rewrite E. now apply (assign_meaning mo (assign_all mo st history)).
Qed.

(* two objects with different histories agree after the same accepted assignment *)
Lemma assign_history_independent (mo : option nat) (st1 st2 params s1 s2 : pydict) (name : string) :
  NoDup (map fst params) ->
  assign mo st1 params = Ok s1 -> assign mo st2 params = Ok s2 ->
  stored_coef s1 name = stored_coef s2 name.
Proof.
  intros Hnd H1 H2. rewrite (assign_meaning mo st1 params s1 name Hnd H1), (assign_meaning mo st2 params s2 name Hnd H2).
  reflexivity.
Qed.

(* acceptance does not depend on the history either *)
Lemma assign_accepts (mo : option nat) (st params : pydict) :
  (exists st', assign mo st params = Ok st') <-> (exists o, setter mo params = Ok o).
Proof.
  unfold assign. destruct (setter mo params) as [o | | |]; split; intros [x H]; try discriminate; eauto.
Qed.
