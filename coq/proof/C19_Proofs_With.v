(* C19 — last writer wins, continued: with-blocks AFTER the set.  A with-block whose arguments and
   body write other keys leaves the value alone whatever happens inside (enter, body statements,
   exceptions, a raising __exit__): the undo steps of __exit__ only touch the recorded paths. *)
From QV.lib Require Import Prelude.
From QV.model Require Import C19_Model.
From QV.proof Require Import C19_Proofs_Keys C19_Proofs_Set C19_Proofs_Update C19_Proofs_Ctx C19_Proofs_Hist
  C19_Proofs_Last.
From Coq Require Import String Ascii.

(* ---------------------------------------------------------------- pop of another name *)
Lemma lookup_remove_other k x d : k <> x -> lookup x (remove k d) = lookup x d.
Proof.
  intros Hk. induction d as [|[k2 v2] d IH]; cbn [remove lookup]; [reflexivity|].
  destruct (String.eqb_spec k k2) as [->|Hk2].
  - destruct (String.eqb_spec x k2); [congruence | reflexivity].
  - cbn [lookup]. rewrite IH. reflexivity.
Qed.

Lemma mem_remove_other k x d : k <> x -> mem x (remove k d) = mem x d.
Proof. intros Hk. unfold mem. rewrite lookup_remove_other by exact Hk. reflexivity. Qed.

Lemma find_remove_other k qk d : norm k <> norm qk -> find qk (remove k d) = find qk d.
Proof.
  intros Hn. unfold find.
  assert (E1 : k <> qk) by (intros ->; congruence).
  assert (E2 : k <> alt_name qk) by (intros ->; apply Hn; apply norm_alt).
  assert (Ec : canon qk (remove k d) = canon qk d).
  { unfold canon. rewrite (mem_remove_other k qk d E1), (mem_remove_other k (alt_name qk) d E2). reflexivity. }
  rewrite Ec. apply lookup_remove_other. intros E. apply Hn. rewrite E. apply norm_canon.
Qed.

Lemma diverge_nil_r p : ~ diverge p [].
Proof. destruct p; intros []. Qed.

(* ---------------------------------------------------------------- one undo step on another path *)
Lemma restore_replace_keeps : forall p old d d' q x,
  good (Node d) -> pure_path p -> pure_path q -> diverge p q ->
  restore_replace p old d = inr d' ->
  get_path q (Node d) = inr x -> get_path q (Node d') = inr x.
Proof.
  induction p as [|k p IH]; intros old d d' q x G Pp Pq D H Hg; [destruct D|].
  destruct q as [|qk qr]; [destruct D|].
  apply pure_path_cons in Pp. destruct Pp as [Pk Pp]. apply pure_path_cons in Pq. destruct Pq as [Pqk Pqr].
  cbn [diverge] in D. destruct p as [|a p].
  - cbn [restore_replace] in H. inversion H; subst. destruct D as [D|[_ D]]; [|destruct D].
    rewrite (get_path_find qk qr d _ (find_assign_other (canon k d) qk old d ltac:(rewrite norm_canon; exact D))).
    exact Hg.
  - rewrite restore_replace_cons in H.
    destruct D as [D|[En D]].
    { assert (Hx : exists X, d' = assign (canon k d) X d).
      { destruct (lookup (canon k d) d) as [[z|sub]|].
        - destruct p; discriminate.
        - destruct (restore_replace (a :: p) old sub); [discriminate|]. inversion H; eauto.
        - destruct (restore_replace (a :: p) old []); [discriminate|]. inversion H; eauto. }
      destruct Hx as [X ->].
      rewrite (get_path_find qk qr d _ (find_assign_other (canon k d) qk X d ltac:(rewrite norm_canon; exact D))).
      exact Hg. }
    pose proof (find_same_norm k qk d (good_keys_of _ G) Pk Pqk En) as FS. unfold find in FS.
    cbn [get_path] in Hg. rewrite <- FS in Hg.
    destruct (lookup (canon k d) d) as [[z|sub]|] eqn:L.
    + destruct p; discriminate.
    + destruct (restore_replace (a :: p) old sub) as [e|s] eqn:R; [discriminate|]. inversion H; subst.
      cbn [get_path].
      pose proof (find_assign_same k qk (Node s) d (good_keys_of _ G) Pk Pqk En) as F. unfold find in F. rewrite F.
      exact (IH old sub s qr x (good_lookup _ _ _ G L) Pp Pqr D R Hg).
    + discriminate.
Qed.

Lemma restore_insert_keeps : forall p d d' q x,
  good (Node d) -> pure_path p -> pure_path q -> diverge p q ->
  restore_insert p d = inr d' ->
  get_path q (Node d) = inr x -> get_path q (Node d') = inr x.
Proof.
  induction p as [|k p IH]; intros d d' q x G Pp Pq D H Hg; [destruct D|].
  destruct q as [|qk qr]; [destruct D|].
  apply pure_path_cons in Pp. destruct Pp as [Pk Pp]. apply pure_path_cons in Pq. destruct Pq as [Pqk Pqr].
  cbn [diverge] in D. destruct p as [|a p].
  - cbn [restore_insert] in H. inversion H; subst. destruct D as [D|[_ D]]; [|destruct D].
    rewrite (get_path_find qk qr d _ (find_remove_other (canon k d) qk d ltac:(rewrite norm_canon; exact D))).
    exact Hg.
  - rewrite restore_insert_cons in H.
    destruct D as [D|[En D]].
    { destruct (lookup (canon k d) d) as [[z|sub]|].
      - destruct p; discriminate.
      - destruct (restore_insert (a :: p) sub) as [e|s]; [discriminate|]. inversion H; subst.
        rewrite (get_path_find qk qr d _ (find_assign_other (canon k d) qk (Node s) d ltac:(rewrite norm_canon; exact D))).
        exact Hg.
      - inversion H; subst. exact Hg. }
    pose proof (find_same_norm k qk d (good_keys_of _ G) Pk Pqk En) as FS. unfold find in FS.
    cbn [get_path] in Hg. rewrite <- FS in Hg.
    destruct (lookup (canon k d) d) as [[z|sub]|] eqn:L.
    + destruct p; discriminate.
    + destruct (restore_insert (a :: p) sub) as [e|s] eqn:R; [discriminate|]. inversion H; subst.
      cbn [get_path].
      pose proof (find_assign_same k qk (Node s) d (good_keys_of _ G) Pk Pqk En) as F. unfold find in F. rewrite F.
      exact (IH sub s qr x (good_lookup _ _ _ G L) Pp Pqr D R Hg).
    + discriminate.
Qed.

Definition rec_div (q : list string) (r : crec) : Prop := diverge (fst r) q.

Lemma restore_all_keeps rrecs : forall d d' e q x,
  Forall rec_ok rrecs -> Forall (rec_div q) rrecs -> good (Node d) -> pure_path q ->
  restore_all rrecs d = (d', e) ->
  get_path q (Node d) = inr x -> get_path q (Node d') = inr x.
Proof.
  induction rrecs as [|[p o] rs IH]; intros d d' e q x Ok Dv G Pq H Hg; cbn [restore_all] in H.
  - inversion H; subst. exact Hg.
  - inversion Ok as [|? ? [Pp Ho] Ok']; subst. inversion Dv as [|? ? Dp Dv']; subst. cbn [fst snd] in *.
    unfold rec_div in Dp. cbn [fst] in Dp.
    destruct (restore1 (p, o) d) as [e1|d1] eqn:R.
    + inversion H; subst. exact Hg.
    + destruct o as [old|]; cbn [restore1] in R.
      * apply (IH d1 d' e q x Ok' Dv'); try assumption.
        -- exact (restore_replace_good _ _ _ _ Pp (Ho old eq_refl) G R).
        -- exact (restore_replace_keeps p old d d1 q x G Pp Pq Dp R Hg).
      * apply (IH d1 d' e q x Ok' Dv'); try assumption.
        -- exact (restore_insert_good _ _ _ Pp G R).
        -- exact (restore_insert_keeps p d d1 q x G Pp Pq Dp R Hg).
Qed.

(* ---------------------------------------------------------------- the records of __init__ *)
Section WithBlocks.
  Variable validate : cfg -> err + string.

  (* the recorded path of an assignment that misses a readable key also misses it (the record
     may be a proper prefix of the assigned path — a freshly inserted parent — but then that
     parent was absent, so it is not on the way to a key that could be read) *)
  Lemma assign_path_rec_diverge : forall rest k v d d' p o qk qr x,
    good (Node d) -> pure k = true -> pure_path rest -> pure qk = true -> pure_path qr ->
    diverge (k :: rest) (qk :: qr) ->
    get_path (qk :: qr) (Node d) = inr x ->
    assign_path k rest v d = inr (d', (p, o)) -> diverge p (qk :: qr).
  Proof.
    induction rest as [|k2 rest IH]; intros k v d d' p o qk qr x G Pk Pr Pq Pqr D Hg H; cbn [assign_path] in H.
    - inversion H; subst. cbn [diverge] in *. destruct D as [D|[_ D]]; [|destruct D].
      left. rewrite norm_canon. exact D.
    - apply pure_path_cons in Pr. destruct Pr as [Pk2 Pr].
      cbn [diverge] in D. destruct D as [D|[En D]].
      { assert (Hp : exists p0, p = canon k d :: p0).
        { destruct (lookup (canon k d) d) as [[z|sub]|]; [discriminate| |].
          - destruct (assign_path k2 rest v sub) as [e|[sub' [p0 o0]]]; [discriminate|]. inversion H; eauto.
          - destruct (assign_path k2 rest v []) as [e|[sub' rc]]; [discriminate|]. inversion H; eauto. }
        destruct Hp as [p0 ->]. cbn [diverge]. left. rewrite norm_canon. exact D. }
      pose proof (find_same_norm k qk d (good_keys_of _ G) Pk Pq En) as FS. unfold find in FS.
      cbn [get_path] in Hg. rewrite <- FS in Hg.
      destruct (lookup (canon k d) d) as [[z|sub]|] eqn:L; [discriminate| |discriminate].
      destruct (assign_path k2 rest v sub) as [e|[sub' [p0 o0]]] eqn:A; [discriminate|]. inversion H; subst.
      destruct qr as [|q2 qr]; [destruct D|]. apply pure_path_cons in Pqr. destruct Pqr as [Pq2 Pqr].
      cbn [diverge]. right. split; [rewrite norm_canon; exact En|].
      exact (IH k2 v sub sub' p0 o q2 qr x (good_lookup _ _ _ G L) Pk2 Pr Pq2 Pqr D Hg A).
  Qed.

  Lemma set_item_rec_diverge key v d d' rc key' x :
    good (Node d) -> key_ok key -> key_ok key' -> diverge (path_of key) (path_of key') ->
    C19_Model.get key' d = inr x ->
    set_item validate key v d = inr (d', rc) -> rec_div (path_of key') rc.
  Proof.
    unfold key_ok, C19_Model.get, set_item, rec_div. rewrite !path_of_split. intros G P P' D Hg H.
    destruct (check_key_val validate key v) as [e|v']; [discriminate|].
    destruct (split_dot key) as [k rest]. destruct (split_dot key') as [qk qr]. cbn [fst snd] in *.
    apply pure_path_cons in P. destruct P as [Pk Pr]. apply pure_path_cons in P'. destruct P' as [Pq Pqr].
    destruct rc as [p o]. cbn [fst].
    exact (assign_path_rec_diverge rest k v' d d' p o qk qr x G Pk Pr Pq Pqr D Hg H).
  Qed.

  Lemma set_items_recs_diverge l : forall d recs d' recs' e key' x,
    good (Node d) -> items_ok l -> key_ok key' ->
    (forall key2 v2, In (key2, v2) l -> diverge (path_of key2) (path_of key')) ->
    Forall (rec_div (path_of key')) recs ->
    C19_Model.get key' d = inr x ->
    set_items validate l d recs = (d', recs', e) -> Forall (rec_div (path_of key')) recs'.
  Proof.
    induction l as [|[key v] l IH]; intros d recs d' recs' e key' x G Ok Pk Hd R Hg H; cbn [set_items] in H.
    - inversion H; subst. exact R.
    - inversion Ok as [|? ? [Hk Hv] Ok']; subst. cbn [fst snd] in *.
      destruct (set_item validate key v d) as [e1|[d1 rc]] eqn:S; [inversion H; subst; exact R|].
      assert (Dk : diverge (path_of key) (path_of key')) by (apply (Hd key v); left; reflexivity).
      apply (IH d1 (recs ++ [rc]) d' recs' e key' x); try assumption.
      + exact (set_item_good validate _ _ _ _ _ G Hk Hv S).
      + intros key2 v2 I. apply (Hd key2 v2). right. exact I.
      + apply Forall_app. split; [exact R|]. constructor; [|constructor].
        exact (set_item_rec_diverge key v d d1 rc key' x G Hk Pk Dk Hg S).
      + rewrite (set_preserves_siblings validate key key' v d d1 rc G Hk Pk Dk S). exact Hg.
  Qed.

  Lemma set_call_recs_diverge arg kw d d' recs e key' x :
    good (Node d) -> arg_ok arg -> items_ok (kw_items kw) -> key_ok key' ->
    (forall key v, In (key, v) (set_args arg kw) -> diverge (path_of key) (path_of key')) ->
    C19_Model.get key' d = inr x ->
    set_call validate arg kw d = (d', recs, e) -> Forall (rec_div (path_of key')) recs.
  Proof.
    intros G Ha Hk Pk Hd Hg. unfold set_call, set_args in *. destruct arg as [[y|l]|]; cbn [arg_ok app] in *.
    - intros H. inversion H; subst. constructor.
    - destruct (set_items validate l d []) as [[d0 r0] e0] eqn:S1.
      assert (Hd1 : forall key2 v2, In (key2, v2) l -> diverge (path_of key2) (path_of key')).
      { intros key2 v2 I. apply (Hd key2 v2). apply in_or_app. left. exact I. }
      assert (Hd2 : forall key2 v2, In (key2, v2) (kw_items kw) -> diverge (path_of key2) (path_of key')).
      { intros key2 v2 I. apply (Hd key2 v2). apply in_or_app. right. exact I. }
      pose proof (set_items_recs_diverge l d [] d0 r0 e0 key' x G Ha Pk Hd1 (Forall_nil _) Hg S1) as R0.
      destruct e0 as [e0|]; [intros H; inversion H; subst; exact R0|].
      intros S2.
      apply (set_items_recs_diverge _ d0 r0 d' recs e key' x (set_items_good validate l _ _ _ _ _ G Ha S1) Hk Pk Hd2 R0); [|exact S2].
      rewrite (set_items_preserve_any validate l d [] d0 r0 None key' G Ha Pk Hd1 S1). exact Hg.
    - intros S. exact (set_items_recs_diverge _ d [] d' recs e key' x G Hk Pk Hd (Forall_nil _) Hg S).
  Qed.

  (* ------------------------------------------------------------ statements after the set *)
  (* a statement or with-block that does not write the key: the block's own arguments and every
     statement of its body write other keys *)
  Definition no_write_op (key' : string) (o : op) : Prop :=
    match o with
    | Do o => no_write key' o
    | With arg kw body | WithX arg kw body =>
        arg_ok arg /\ items_ok (kw_items kw) /\
        (forall key v, In (key, v) (set_args arg kw) -> diverge (path_of key) (path_of key')) /\
        Forall (no_write key') body
    end.

  Lemma no_write_op_ok key' o : no_write_op key' o -> op_ok o.
  Proof.
    destruct o as [o|arg kw body|arg kw body]; cbn [no_write_op op_ok].
    - apply no_write_ok.
    - intros [Ha [Hk [_ Hb]]]. repeat split; try assumption.
      eapply Forall_impl; [|exact Hb]. intros o. apply no_write_ok.
    - intros [Ha [Hk [_ Hb]]]. repeat split; try assumption.
      eapply Forall_impl; [|exact Hb]. intros o. apply no_write_ok.
  Qed.

  Lemma run_s_stop_preserves_get body : forall s key' x,
    inv s -> Forall (no_write key') body -> key_ok key' -> nodev (path_of key') ->
    C19_Model.get key' (conf s) = inr x ->
    C19_Model.get key' (conf (fst (run_s_stop validate body s))) = inr x.
  Proof.
    induction body as [|o body IH]; intros s key' x I Nw Pk Nk Hg; cbn [run_s_stop]; [exact Hg|].
    inversion Nw as [|? ? No Nw']; subst.
    pose proof (step_s_inv validate o s I (no_write_ok _ _ No)) as I1.
    pose proof (sop_preserves_get validate o s key' x I No Pk Nk Hg) as Hg1.
    destruct (step_s validate o s) as [s1 [e|]]; cbn [fst] in *; [exact Hg1|].
    exact (IH s1 key' x I1 Nw' Pk Nk Hg1).
  Qed.

  Lemma exit_preserves_get recs s2 key' x :
    inv s2 -> Forall rec_ok recs -> Forall (rec_div (path_of key')) recs -> key_ok key' ->
    C19_Model.get key' (conf s2) = inr x ->
    C19_Model.get key' (fst (exit_call recs (conf s2))) = inr x.
  Proof.
    intros [Gc _] R Dv Pk Hg. unfold exit_call.
    destruct (restore_all (rev recs) (conf s2)) as [c3 e] eqn:E. cbn [fst].
    exact (restore_all_keeps (rev recs) (conf s2) c3 e (path_of key') x (Forall_rev R) (Forall_rev Dv) Gc Pk E Hg).
  Qed.

  Lemma op_preserves_get o s key' x :
    inv s -> no_write_op key' o -> key_ok key' -> nodev (path_of key') ->
    C19_Model.get key' (conf s) = inr x ->
    C19_Model.get key' (conf (fst (step validate o s))) = inr x.
  Proof.
    intros I Nw Pk Nk Hg. destruct o as [o|arg kw body|arg kw body]; cbn [no_write_op step] in *.
    - apply sop_preserves_get; assumption.
    - destruct Nw as [Ha [Hk [Hd Hb]]]. destruct I as [Gc Gd].
      destruct (set_call validate arg kw (conf s)) as [[c1 recs] e] eqn:S.
      pose proof (set_call_preserve validate _ _ _ _ _ _ _ Gc Ha Hk Pk Hd S) as E1.
      destruct (set_call_good validate _ _ _ _ _ _ Gc Ha Hk S) as [G1 R].
      pose proof (set_call_recs_diverge _ _ _ _ _ _ _ _ Gc Ha Hk Pk Hd Hg S) as Dv.
      destruct e as [e|]; [cbv beta iota; cbn [fst conf]; rewrite E1; exact Hg|].
      set (s1 := {| conf := c1; dflts := dflts s |}).
      assert (I1 : inv s1) by (split; assumption).
      assert (Hg1 : C19_Model.get key' (conf s1) = inr x) by (change (C19_Model.get key' c1 = inr x); rewrite E1; exact Hg).
      pose proof (run_s_inv validate body s1 I1 (Forall_impl _ (no_write_ok key') Hb)) as I2.
      pose proof (run_s_preserves_get validate body s1 key' x I1 Hb Pk Nk Hg1) as Hg2.
      pose proof (exit_preserves_get recs _ key' x I2 R Dv Pk Hg2) as Hg3.
      destruct (exit_call recs (conf (run_s validate body s1))). exact Hg3.
    - destruct Nw as [Ha [Hk [Hd Hb]]]. destruct I as [Gc Gd].
      destruct (set_call validate arg kw (conf s)) as [[c1 recs] e] eqn:S.
      pose proof (set_call_preserve validate _ _ _ _ _ _ _ Gc Ha Hk Pk Hd S) as E1.
      destruct (set_call_good validate _ _ _ _ _ _ Gc Ha Hk S) as [G1 R].
      pose proof (set_call_recs_diverge _ _ _ _ _ _ _ _ Gc Ha Hk Pk Hd Hg S) as Dv.
      destruct e as [e|]; [cbv beta iota; cbn [fst conf]; rewrite E1; exact Hg|].
      set (s1 := {| conf := c1; dflts := dflts s |}).
      assert (I1 : inv s1) by (split; assumption).
      assert (Hg1 : C19_Model.get key' (conf s1) = inr x) by (change (C19_Model.get key' c1 = inr x); rewrite E1; exact Hg).
      pose proof (run_s_stop_inv validate body s1 I1 (Forall_impl _ (no_write_ok key') Hb)) as I2.
      pose proof (run_s_stop_preserves_get body s1 key' x I1 Hb Pk Nk Hg1) as Hg2.
      destruct (run_s_stop validate body s1) as [s2 eb]. cbn [fst] in *.
      pose proof (exit_preserves_get recs _ key' x I2 R Dv Pk Hg2) as Hg3.
      destruct (exit_call recs (conf s2)). exact Hg3.
  Qed.

  Lemma run_preserves_get post : forall s key' x,
    inv s -> Forall (no_write_op key') post -> key_ok key' -> nodev (path_of key') ->
    C19_Model.get key' (conf s) = inr x ->
    C19_Model.get key' (conf (run validate post s)) = inr x.
  Proof.
    induction post as [|o post IH]; intros s key' x I Nw Pk Nk Hg; cbn [run]; [exact Hg|].
    inversion Nw as [|? ? No Nw']; subst. apply IH; try assumption.
    - apply step_inv; [exact I | exact (no_write_op_ok _ _ No)].
    - apply op_preserves_get; assumption.
  Qed.

  (* after ANY history, the value set for a key is what get returns (either spelling) after any
     further statements AND with-blocks that write other keys — successful or raising, whatever
     __exit__ does *)
  Theorem get_last_writer_ops pre key v v' d2 r key' post :
    Forall op_ok pre ->
    let s1 := run validate pre empty_store in
    key_ok key -> good v -> key_ok key' -> nodev (path_of key') ->
    same_path (path_of key) (path_of key') ->
    check_key_val validate key v = inr v' ->
    set_item validate key v (conf s1) = inr (d2, r) ->
    Forall (no_write_op key') post ->
    C19_Model.get key' (conf (run validate post {| conf := d2; dflts := dflts s1 |})) = inr v'.
  Proof.
    intros Okpre s1 Pk Gv Pk' Nk Sp C S Nw.
    destruct (one_spelling_inv validate pre Okpre) as [Gc Gd]. fold s1 in Gc, Gd.
    apply run_preserves_get; try assumption.
    - split; cbn [conf dflts]; [|exact Gd]. exact (set_item_good validate _ _ _ _ _ Gc Pk Gv S).
    - cbn [conf]. exact (get_set validate key key' v v' (conf s1) d2 r Gc Pk Pk' Sp C S).
  Qed.
End WithBlocks.
