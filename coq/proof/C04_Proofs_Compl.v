(* C04 — complementary sub-masks split the stack indices into a partition. *)
From Coq Require Import ZArith List Bool Arith Lia Permutation.
From QV.lib Require Import Prelude Chunks.
From QV.model Require Import C04_Model.
From QV.proof Require Import C04_Proofs_Base.
Import ListNotations.
Unset Implicit Arguments.

Lemma compl_core {A : Type} :
  forall (fv av bv : list bool) (pos : list A),
    length av = length fv -> length bv = length fv -> length pos = length fv ->
    (forall p, nth p fv false = false -> nth p av false = false /\ nth p bv false = false) ->
    (forall p, nth p fv false = true -> nth p av false = negb (nth p bv false)) ->
    Permutation (where1 (select fv av) ++ where1 (select fv bv)) (seq 0 (length (select fv pos))).
Proof.
  induction fv as [|f fv IH]; intros [|a av] [|b bv] [|p pos] Ha Hb Hp Hoff Hon; cbn [length] in *; try lia.
  - cbn. constructor.
  - assert (Hoff' : forall q, nth q fv false = false -> nth q av false = false /\ nth q bv false = false)
      by (intros q Hq; exact (Hoff (S q) Hq)).
    assert (Hon' : forall q, nth q fv false = true -> nth q av false = negb (nth q bv false))
      by (intros q Hq; exact (Hon (S q) Hq)).
    specialize (IH av bv pos ltac:(lia) ltac:(lia) ltac:(lia) Hoff' Hon').
    destruct f; cbn [select].
    + specialize (Hon 0 eq_refl). cbn in Hon. rewrite !where1_cons.
      destruct a, b; cbn in Hon; try discriminate; cbn [length seq].
      * cbn [app]. constructor. rewrite <- map_app, <- seq_shift. apply Permutation_map. exact IH.
      * apply Permutation_sym. apply Permutation_cons_app. apply Permutation_sym.
        rewrite <- map_app, <- seq_shift. apply Permutation_map. exact IH.
    + destruct (Hoff 0 eq_refl) as [Ea Eb]. cbn in Ea, Eb. subst a b. exact IH.
Qed.

Theorem complementary_masks_partition_lemma :
  forall full A B : mask2, same_shape full A -> same_shape full B ->
    (forall p, nth p (flat full) false = false -> nth p (flat A) false = false /\ nth p (flat B) false = false) ->
    (forall p, nth p (flat full) false = true -> nth p (flat A) false = negb (nth p (flat B) false)) ->
    Permutation (concat (map (index_map full) [A; B])) (seq 0 (ctx_n full)).
Proof.
  intros full A B HA HB Hoff Hon. cbn [map concat]. rewrite app_nil_r.
  unfold index_map, masked, ctx_n, nonzero2, positions.
  apply compl_core; try assumption.
  - symmetry. apply flat_length_shape. exact HA.
  - symmetry. apply flat_length_shape. exact HB.
  - apply positions_from_length.
Qed.
