(* C16 — proofs about model/C16_Model.v (abstract commutative ring with conjugation and one root
   family per axis; the hypotheses are those of lib/DFT.v, shown satisfiable in lib/DFT_Inst.v). *)
From Coq Require Import ZArith List Lia Ring Arith.
From QV.lib Require Import FinSum DFT DFT2.
From QV.model Require Import C16_Model.
Import ListNotations.

(* ============================================================================ gather / scatter
   any commutative ring; no conjugation, no roots *)
Section ScatterGather.
  Variable R : Type.
  Variables (rO rI : R) (radd rmul rsub : R -> R -> R) (ropp : R -> R).
  Variable Rth : ring_theory rO rI radd rmul rsub ropp (@eq R).
  Add Ring RringSG : Rth.
  Set Default Proof Using "All".

  Notation "0" := rO.  Notation "1" := rI.
  Infix "+" := radd.   Infix "*" := rmul.
  Notation scatter := (scatter rO radd).
  Notation ldot := (ldot rO radd rmul).
  Notation adot := (adot rO radd rmul).
  Notation sumn := (sumn rO radd).

  Let step (n : nat) := fun (acc : R) (iv : nat * R) => if Nat.eqb (fst iv) n then acc + snd iv else acc.

  Lemma fold_step_acc n l acc : fold_left (step n) l acc = acc + fold_left (step n) l 0.
  Proof.
    revert acc. induction l as [|[i v] l IH]; intros acc; cbn [fold_left].
    - ring.
    - rewrite (IH (step n acc (i, v))), (IH (step n 0 (i, v))). unfold step; cbn [fst snd].
      destruct (Nat.eqb i n); ring.
  Qed.

  Lemma scatter_cons i v idx vals n :
    scatter (i :: idx) (v :: vals) n = (if Nat.eqb i n then v else 0) + scatter idx vals n.
  Proof.
    unfold C16_Model.scatter. cbn [combine fold_left]. fold (step n).
    rewrite fold_step_acc. cbn [fst snd]. destruct (Nat.eqb i n); ring.
  Qed.

  Lemma scatter_nil_r idx n : scatter idx [] n = 0.
  Proof. unfold C16_Model.scatter. destruct idx; reflexivity. Qed.

  Lemma scatter_nil_l vals n : scatter [] vals n = 0.
  Proof. reflexivity. Qed.

  (* <gather obj idx, vals> = <obj, scatter idx vals>: scattering is the exact adjoint of
     gathering, for every index list (repeats, any order), by induction on the list *)
  Theorem scatter_adjoint_gather (size : nat) (obj : nat -> R) (idx : list nat) (vals : list R) :
    Forall (fun i => (i < size)%nat) idx ->
    ldot (gather obj idx) vals = adot size obj (scatter idx vals).
  Proof.
    intros Hidx. revert vals. induction Hidx as [|i idx Hi Hrest IH]; intros vals.
    - unfold C16_Model.ldot, C16_Model.adot. cbn [gather map combine FinSum.suml].
      rewrite (sumn_ext Rth size _ (fun _ => 0)) by (intros; rewrite scatter_nil_l; ring).
      rewrite (sumn_zero Rth). reflexivity.
    - destruct vals as [|v vals].
      + unfold C16_Model.ldot, C16_Model.adot. cbn [gather map combine FinSum.suml].
        rewrite (sumn_ext Rth size _ (fun _ => 0)) by (intros; rewrite scatter_nil_r; ring).
        rewrite (sumn_zero Rth). reflexivity.
      + specialize (IH vals). unfold C16_Model.ldot, C16_Model.adot in *.
        cbn [gather map combine FinSum.suml fst snd].
        change (map obj idx) with (gather obj idx). rewrite IH.
        rewrite (sumn_ext Rth size (fun n => obj n * scatter (i :: idx) (v :: vals) n)
                   (fun n => obj n * (if Nat.eqb i n then v else 0) + obj n * scatter idx vals n)).
        2:{ intros n _. rewrite scatter_cons. ring. }
        rewrite (sumn_add Rth). f_equal.
        rewrite (sumn_single Rth size _ i Hi).
        * rewrite Nat.eqb_refl. reflexivity.
        * intros n _ Hne. destruct (Nat.eqb i n) eqn:E; [apply Nat.eqb_eq in E; congruence | ring].
  Qed.

  (* scatter is additive in the values and commutes with any additive map (e.g. conjugation,
     real / imaginary part: sum_patches scatters real and imaginary parts separately) *)
  Lemma scatter_map_additive (f : R -> R) idx vals n :
    f 0 = 0 -> (forall a b, f (a + b) = f a + f b) ->
    f (scatter idx vals n) = scatter idx (map f vals) n.
  Proof.
    intros f0 fadd. revert vals. induction idx as [|i idx IH]; intros vals.
    - rewrite !scatter_nil_l. exact f0.
    - destruct vals as [|v vals]; [rewrite !scatter_nil_r; exact f0|].
      cbn [map]. rewrite !scatter_cons, fadd, IH. destruct (Nat.eqb i n); [reflexivity | rewrite f0; reflexivity].
  Qed.
End ScatterGather.

Arguments scatter_adjoint_gather {R rO rI radd rmul rsub ropp} Rth.
Arguments scatter_cons {R rO rI radd rmul rsub ropp} Rth.
Arguments scatter_nil_r {R rO rI radd rmul rsub ropp} Rth.
Arguments scatter_map_additive {R rO rI radd rmul rsub ropp} Rth.

(* wrap-around patch indices stay inside the flattened object *)
Lemma patch_indices_in_range N1 N2 H W r0 c0 :
  (0 < H)%nat -> (0 < W)%nat -> Forall (fun i => (i < H * W)%nat) (patch_indices N1 N2 H W r0 c0).
Proof.
  intros HH HW. apply Forall_forall. intros x Hx. unfold patch_indices in Hx.
  apply in_flat_map in Hx. destruct Hx as [i [_ Hx]]. apply in_map_iff in Hx. destruct Hx as [j [Hx _]].
  subst x.
  pose proof (Z.mod_pos_bound (r0 + fftfreq_index N1 i) (Z.of_nat H)) as B1.
  pose proof (Z.mod_pos_bound (c0 + fftfreq_index N2 j) (Z.of_nat W)) as B2.
  set (a := Z.to_nat ((r0 + fftfreq_index N1 i) mod Z.of_nat H)) in *.
  set (b := Z.to_nat ((c0 + fftfreq_index N2 j) mod Z.of_nat W)) in *.
  assert (a < H)%nat by lia. assert (b < W)%nat by lia. nia.
Qed.



(* ============================================================================ DFT operators *)
Section Ops.
  Variable R : Type.
  Variables (rO rI : R) (radd rmul rsub : R -> R -> R) (ropp : R -> R).
  Variable Rth : ring_theory rO rI radd rmul rsub ropp (@eq R).
  Add Ring RringOps : Rth.
  Variable conj : R -> R.
  Hypothesis Cok : conj_ok radd rmul conj.
  Variables (N1 : nat) (w1 : Z -> R) (Ninv1 : R) (N2 : nat) (w2 : Z -> R) (Ninv2 : R).
  Hypothesis Rok1 : root_ok rO rI radd rmul conj N1 w1 Ninv1.
  Hypothesis Rok2 : root_ok rO rI radd rmul conj N2 w2 Ninv2.
  Set Default Proof Using "All".

  Notation "0" := rO.  Notation "1" := rI.
  Infix "+" := radd.   Infix "*" := rmul.  Infix "-" := rsub.  Notation "- x" := (ropp x).
  Notation img := (nat -> nat -> R).
  Notation of_nat := (of_nat rO rI radd).
  Notation suml := (suml rO radd).
  Notation sum2 := (sum2 rO radd N1 N2).
  Notation energy2 := (energy2 rO radd rmul conj N1 N2).
  Notation dft2 := (dft2 rO radd rmul N1 w1 N2 w2).
  Notation idft2 := (idft2 rO radd rmul N1 w1 Ninv1 N2 w2 Ninv2).
  Notation fmul2 := (fmul2 rO radd rmul N1 w1 Ninv1 N2 w2 Ninv2).
  Notation fmul2_m := (fmul2_m rO radd rmul N1 w1 Ninv1 N2 w2 Ninv2).
  Notation dft2_m := (dft2_m rO radd rmul N1 w1 N2 w2).
  Notation idft2_m := (idft2_m rO radd rmul N1 w1 Ninv1 N2 w2 Ninv2).
  Notation roll2 := (roll2 N1 N2).
  Notation fftshift2 := (fftshift2 N1 N2).
  Notation ifftshift2 := (ifftshift2 N1 N2).
  Notation abs2 := (abs2 rmul conj).
  Notation pmul := (pmul rmul).
  Notation ramp2 := (ramp2 rmul).
  Notation fourier_shift := (fourier_shift rO radd rmul N1 w1 Ninv1 N2 w2 Ninv2).
  Notation propagate := (propagate rO radd rmul N1 w1 Ninv1 N2 w2 Ninv2).
  Notation multislice := (multislice rO radd rmul N1 w1 Ninv1 N2 w2 Ninv2).
  Notation overlap_projection := (overlap_projection rO radd rmul N1 w1 Ninv1 N2 w2 Ninv2).

  (* "on the grid" predicates *)
  Definition unit2 (h : img) : Prop := forall k1 k2, (k1 < N1)%nat -> (k2 < N2)%nat -> abs2 (h k1 k2) = 1.
  Definition unit1 (N : nat) (h : nat -> R) : Prop := forall k, (k < N)%nat -> abs2 (h k) = 1.
  Definition eq2 (x y : img) : Prop := forall n1 n2, (n1 < N1)%nat -> (n2 < N2)%nat -> x n1 n2 = y n1 n2.

  Lemma energy2_ext x y : eq2 x y -> energy2 x = energy2 y.
  Proof.
    intros H. unfold DFT2.energy2. apply (sum2_ext Rth Cok Rok1 Rok2). intros i j Hi Hj.
    rewrite (H i j Hi Hj). reflexivity.
  Qed.

  Lemma abs2_mul a b : abs2 (a * b) = abs2 a * abs2 b.
  Proof. unfold C16_Model.abs2. rewrite (conj_mul _ _ _ _ Cok). ring. Qed.

  Lemma ramp2_unit hr hc : unit1 N1 hr -> unit1 N2 hc -> unit2 (ramp2 hr hc).
  Proof.
    intros Hr Hc k1 k2 H1 H2. unfold C16_Model.ramp2. rewrite abs2_mul, (Hr k1 H1), (Hc k2 H2). ring.
  Qed.

  (* ---------------------------------------------------------------- multipliers *)
  Lemma fmul2_m_energy h x : unit2 h -> energy2 (fmul2_m h x) = energy2 x.
  Proof.
    intros Hh. rewrite (energy2_ext (fmul2_m h x) (fmul2 h x)).
    - apply (fmul2_unit_energy Rth Cok Rok1 Rok2). exact Hh.
    - intros n1 n2 H1 H2. apply (fmul2_m_eq Rth Cok Rok1 Rok2); assumption.
  Qed.

  Lemma fmul2_m_compose h g x : eq2 (fmul2_m h (fmul2_m g x)) (fmul2 (fun k1 k2 => h k1 k2 * g k1 k2) x).
  Proof.
    intros n1 n2 H1 H2. rewrite (fmul2_m_eq Rth Cok Rok1 Rok2) by assumption.
    rewrite (fmul2_ext Rth Cok Rok1 Rok2 h h (fmul2_m g x) (fmul2 g x)).
    - apply (fmul2_compose Rth Cok Rok1 Rok2).
    - reflexivity.
    - intros m1 m2 Hm1 Hm2. apply (fmul2_m_eq Rth Cok Rok1 Rok2); assumption.
  Qed.

  (* ---------------------------------------------------------------- translation *)
  Theorem translate_energy hr hc x :
    unit1 N1 hr -> unit1 N2 hc -> energy2 (fourier_shift hr hc x) = energy2 x.
  Proof. intros Hr Hc. apply fmul2_m_energy. apply ramp2_unit; assumption. Qed.

  Theorem translate_compose hr hc gr gc x :
    eq2 (fourier_shift hr hc (fourier_shift gr gc x))
        (fourier_shift (fun k => hr k * gr k) (fun k => hc k * gc k) x).
  Proof.
    intros n1 n2 H1 H2. unfold C16_Model.fourier_shift.
    rewrite (fmul2_m_compose _ _ _ n1 n2 H1 H2).
    rewrite (fmul2_m_eq Rth Cok Rok1 Rok2) by assumption.
    apply (fmul2_ext Rth Cok Rok1 Rok2); [|reflexivity].
    intros k1 k2 _ _. unfold C16_Model.ramp2. ring.
  Qed.

  (* for any character family  s |-> (hr s, hc s)  over a shift domain with addition sadd *)
  Theorem translate_additive (S : Type) (sadd : S -> S -> S) (hr hc : S -> nat -> R) :
    (forall s t k, (k < N1)%nat -> hr (sadd s t) k = hr s k * hr t k) ->
    (forall s t k, (k < N2)%nat -> hc (sadd s t) k = hc s k * hc t k) ->
    forall s1 s2 t1 t2 x,
      eq2 (fourier_shift (hr s1) (hc s2) (fourier_shift (hr t1) (hc t2) x))
          (fourier_shift (hr (sadd s1 t1)) (hc (sadd s2 t2)) x).
  Proof.
    intros Hr Hc s1 s2 t1 t2 x n1 n2 H1 H2.
    rewrite (translate_compose _ _ _ _ _ n1 n2 H1 H2). unfold C16_Model.fourier_shift.
    rewrite !(fmul2_m_eq Rth Cok Rok1 Rok2) by assumption.
    apply (fmul2_ext Rth Cok Rok1 Rok2); [|reflexivity].
    intros k1 k2 Hk1 Hk2. unfold C16_Model.ramp2. rewrite Hr, Hc by assumption. reflexivity.
  Qed.

  Theorem translate_integer_is_roll (s1 s2 : Z) hr hc x :
    (forall k, (k < N1)%nat -> hr k = w1 (Z.of_nat k * s1)%Z) ->
    (forall k, (k < N2)%nat -> hc k = w2 (Z.of_nat k * s2)%Z) ->
    eq2 (fourier_shift hr hc x) (roll2 s1 s2 x).
  Proof.
    intros Hr Hc n1 n2 H1 H2. unfold C16_Model.fourier_shift.
    rewrite (fmul2_m_eq Rth Cok Rok1 Rok2) by assumption.
    rewrite <- (fmul2_ramp_is_roll2 Rth Cok Rok1 Rok2 s1 s2 x n1 n2 H1 H2).
    apply (fmul2_ext Rth Cok Rok1 Rok2); [|reflexivity].
    intros k1 k2 Hk1 Hk2. unfold C16_Model.ramp2. rewrite Hr, Hc by assumption. reflexivity.
  Qed.

  (* ---------------------------------------------------------------- propagation *)
  Theorem propagate_energy p x : unit2 p -> energy2 (propagate p x) = energy2 x.
  Proof. intros Hp. apply fmul2_m_energy. exact Hp. Qed.

  Theorem propagate_inverse_gen p q x :
    (forall k1 k2, (k1 < N1)%nat -> (k2 < N2)%nat -> q k1 k2 * p k1 k2 = 1) ->
    eq2 (propagate q (propagate p x)) x.
  Proof.
    intros Hpq n1 n2 H1 H2. unfold C16_Model.propagate.
    rewrite (fmul2_m_compose _ _ _ n1 n2 H1 H2).
    rewrite <- (fmul2_one Rth Cok Rok1 Rok2 x n1 n2 H1 H2).
    apply (fmul2_ext Rth Cok Rok1 Rok2); [|reflexivity].
    intros k1 k2 Hk1 Hk2. apply Hpq; assumption.
  Qed.

  Theorem propagate_inverse p x : unit2 p -> eq2 (propagate (fun k1 k2 => conj (p k1 k2)) (propagate p x)) x.
  Proof.
    intros Hp. apply propagate_inverse_gen. intros k1 k2 H1 H2.
    transitivity (abs2 (p k1 k2)); [unfold C16_Model.abs2; ring | apply Hp; assumption].
  Qed.

  Theorem propagate_additive (D : Type) (dadd : D -> D -> D) (p : D -> img) :
    (forall a b k1 k2, (k1 < N1)%nat -> (k2 < N2)%nat -> p (dadd a b) k1 k2 = p a k1 k2 * p b k1 k2) ->
    forall a b x, eq2 (propagate (p a) (propagate (p b) x)) (propagate (p (dadd a b)) x).
  Proof.
    intros Hp a b x n1 n2 H1 H2. unfold C16_Model.propagate.
    rewrite (fmul2_m_compose _ _ _ n1 n2 H1 H2).
    rewrite (fmul2_m_eq Rth Cok Rok1 Rok2) by assumption.
    apply (fmul2_ext Rth Cok Rok1 Rok2); [|reflexivity].
    intros k1 k2 Hk1 Hk2. rewrite Hp by assumption. reflexivity.
  Qed.

  (* ---------------------------------------------------------------- multislice *)
  Lemma pmul_unit_energy o x : unit2 o -> energy2 (pmul o x) = energy2 x.
  Proof.
    intros Ho. unfold DFT2.energy2. apply (sum2_ext Rth Cok Rok1 Rok2). intros i j Hi Hj.
    unfold C16_Model.pmul. fold (abs2 (o i j * x i j)). rewrite abs2_mul, (Ho i j Hi Hj).
    unfold C16_Model.abs2. ring.
  Qed.

  Lemma multislice_energy objs : forall props psi,
    Forall unit2 objs -> Forall unit2 props -> energy2 (multislice objs props psi) = energy2 psi.
  Proof.
    induction objs as [|o objs IH]; intros props psi Ho Hp; [reflexivity|].
    destruct props as [|p props]; [reflexivity|].
    cbn [C16_Model.multislice]. cbv zeta.
    inversion Ho as [|? ? Ho1 Ho2]; subst. inversion Hp as [|? ? Hp1 Hp2]; subst.
    rewrite (IH props _ Ho2 Hp2). rewrite (pmul_unit_energy _ _ Ho1). apply propagate_energy. exact Hp1.
  Qed.

  Theorem overlap_energy objs props probe :
    Forall unit2 objs -> Forall unit2 props -> energy2 (overlap_projection objs props probe) = energy2 probe.
  Proof.
    intros Ho Hp. destruct objs as [|o0 rest]; [reflexivity|].
    cbn [C16_Model.overlap_projection]. inversion Ho as [|? ? Ho1 Ho2]; subst.
    rewrite (multislice_energy rest props _ Ho2 Hp). apply pmul_unit_energy. exact Ho1.
  Qed.

  (* ---------------------------------------------------------------- detector *)
  Variables (rs rsi : R).
  Hypothesis Hrs : rs * conj rs = Ninv1 * Ninv2.
  Hypothesis Hrsi : rs * rsi = 1.

  Notation dft2_ortho := (dft2_ortho rO radd rmul N1 w1 N2 w2 rs).
  Notation idft2_ortho := (idft2_ortho rO radd rmul N1 w1 Ninv1 N2 w2 Ninv2 rsi).
  Notation estimate_intensities := (estimate_intensities rO radd rmul conj N1 w1 N2 w2 rs).
  Notation detector_forward := (detector_forward rO radd rmul conj N1 w1 N2 w2 rs).
  Notation total_intensity := (total_intensity rO radd rmul conj N1 w1 N2 w2 rs).

  Lemma dft2_ortho_eq x k1 k2 : (k1 < N1)%nat -> (k2 < N2)%nat -> dft2_ortho x k1 k2 = rs * dft2 x k1 k2.
  Proof.
    intros H1 H2. unfold C16_Model.dft2_ortho. cbv zeta. rewrite (dft2_m_eq Rth Cok Rok1 Rok2) by assumption.
    reflexivity.
  Qed.

  Lemma idft2_ortho_eq X n1 n2 : (n1 < N1)%nat -> (n2 < N2)%nat -> idft2_ortho X n1 n2 = rsi * idft2 X n1 n2.
  Proof.
    intros H1 H2. unfold C16_Model.idft2_ortho. cbv zeta. rewrite (idft2_m_eq Rth Cok Rok1 Rok2) by assumption.
    reflexivity.
  Qed.

  Lemma dft2_ortho_idft2_ortho X : eq2 (dft2_ortho (idft2_ortho X)) X.
  Proof.
    intros k1 k2 H1 H2. rewrite dft2_ortho_eq by assumption.
    rewrite (dft2_ext Rth Cok Rok1 Rok2 (idft2_ortho X) (fun n1 n2 => rsi * idft2 X n1 n2)).
    2:{ intros; apply idft2_ortho_eq; assumption. }
    rewrite (dft2_scale_l Rth Cok Rok1 Rok2), (dft2_idft2 Rth Cok Rok1 Rok2) by assumption.
    transitivity ((rs * rsi) * X k1 k2); [ring|]. rewrite Hrsi. ring.
  Qed.

  Lemma idft2_ortho_ext X Y : eq2 X Y -> eq2 (idft2_ortho X) (idft2_ortho Y).
  Proof.
    intros H n1 n2 H1 H2. rewrite !idft2_ortho_eq by assumption. f_equal.
    apply (idft2_ext Rth Cok Rok1 Rok2). exact H.
  Qed.

  Lemma dft2_ortho_ext x y : eq2 x y -> eq2 (dft2_ortho x) (dft2_ortho y).
  Proof.
    intros H k1 k2 H1 H2. rewrite !dft2_ortho_eq by assumption. f_equal.
    apply (dft2_ext Rth Cok Rok1 Rok2). exact H.
  Qed.

  (* Parseval for the ortho-normalised transform *)
  Lemma ortho_parseval x : sum2 (fun k1 k2 => abs2 (dft2_ortho x k1 k2)) = energy2 x.
  Proof.
    rewrite (sum2_ext Rth Cok Rok1 Rok2 _ (fun k1 k2 => (Ninv1 * Ninv2) * (dft2 x k1 k2 * conj (dft2 x k1 k2)))).
    2:{ intros k1 k2 H1 H2. rewrite dft2_ortho_eq by assumption. rewrite abs2_mul.
        unfold C16_Model.abs2. rewrite Hrs. reflexivity. }
    rewrite (sum2_scale_l Rth Cok Rok1 Rok2).
    change (sum2 (fun k1 k2 => dft2 x k1 k2 * conj (dft2 x k1 k2))) with (energy2 (dft2 x)).
    rewrite (parseval2_energy Rth Cok Rok1 Rok2).
    transitivity (((Ninv1 * Ninv2) * (of_nat N1 * of_nat N2)) * energy2 x); [ring|].
    rewrite (NN_inv Rth Cok Rok1 Rok2). ring.
  Qed.

  Lemma estimate_intensities_eq psis k1 k2 :
    estimate_intensities psis k1 k2 = suml (map (fun psi => abs2 (dft2_ortho psi k1 k2)) psis).
  Proof. unfold C16_Model.estimate_intensities. cbv zeta. rewrite map_map. reflexivity. Qed.

  Lemma sum2_suml (A : Type) (f : A -> img) (l : list A) :
    sum2 (fun k1 k2 => suml (map (fun a => f a k1 k2) l)) = suml (map (fun a => sum2 (f a)) l).
  Proof.
    induction l as [|a l IH]; cbn [map FinSum.suml].
    - apply (sum2_zero Rth Cok Rok1 Rok2).
    - rewrite (sum2_add Rth Cok Rok1 Rok2), IH. reflexivity.
  Qed.

  (* the summed predicted intensity of a pattern is the summed intensity of the exit waves *)
  Theorem total_intensity_energy psis : total_intensity psis = suml (map energy2 psis).
  Proof.
    unfold C16_Model.total_intensity, C16_Model.detector_forward. cbv zeta.
    rewrite (sum2_fftshift2 Rth Cok Rok1 Rok2).
    rewrite (sum2_ext Rth Cok Rok1 Rok2 _ (fun k1 k2 => suml (map (fun psi => abs2 (dft2_ortho psi k1 k2)) psis))).
    2:{ intros; apply estimate_intensities_eq. }
    rewrite (sum2_suml _ (fun psi k1 k2 => abs2 (dft2_ortho psi k1 k2)) psis).
    f_equal. apply map_ext. intros psi. apply ortho_parseval.
  Qed.

  (* pure-phase object, any number of slices, any number of probe modes *)
  Theorem pure_phase_intensity objs props probes :
    Forall unit2 objs -> Forall unit2 props ->
    total_intensity (map (overlap_projection objs props) probes) = suml (map energy2 probes).
  Proof.
    intros Ho Hp. rewrite total_intensity_energy, map_map. f_equal. apply map_ext.
    intros probe. apply overlap_energy; assumption.
  Qed.

  (* ---------------------------------------------------------------- Fourier projection *)
  Variable ph : R -> R.
  Variable amp : R -> Prop.                 (* "is a measured amplitude": real and non-negative *)
  Hypothesis amp_real : forall a, amp a -> conj a = a.
  Hypothesis ph_unit : forall z, abs2 (ph z) = 1.
  Hypothesis ph_amp : forall a u, amp a -> abs2 u = 1 -> a * ph (a * u) = a * u.

  Notation fourier_projection := (fourier_projection rO radd rmul N1 w1 Ninv1 N2 w2 Ninv2 rs rsi ph).
  Definition amp2 (a : img) : Prop := forall n1 n2, (n1 < N1)%nat -> (n2 < N2)%nat -> amp (a n1 n2).

  Lemma ifftshift2_amp a : amp2 a -> amp2 (ifftshift2 a).
  Proof.
    intros Ha n1 n2 _ _. unfold DFT2.ifftshift2, DFT2.roll2.
    apply Ha; [apply (zidx_lt Rth Cok Rok1) | apply (zidx_lt Rth Cok Rok2)].
  Qed.

  Lemma fp_spectrum a psi :
    eq2 (dft2_ortho (fourier_projection a psi))
        (fun k1 k2 => ifftshift2 a k1 k2 * ph (dft2_ortho psi k1 k2)).
  Proof.
    intros k1 k2 H1 H2. unfold C16_Model.fourier_projection. cbv zeta.
    rewrite (dft2_ortho_idft2_ortho _ k1 k2 H1 H2). rewrite memo2_spec by assumption. reflexivity.
  Qed.

  (* the detector sees exactly the measured amplitudes (squared), in the detector's own layout *)
  Theorem fourier_projection_amp a psi : amp2 a ->
    eq2 (detector_forward [fourier_projection a psi]) (fun n1 n2 => a n1 n2 * a n1 n2).
  Proof.
    intros Ha n1 n2 H1 H2.
    rewrite <- (fftshift2_ifftshift2 Rth Cok Rok1 Rok2 (fun m1 m2 => a m1 m2 * a m1 m2) n1 n2 H1 H2).
    unfold C16_Model.detector_forward. cbv zeta. unfold DFT2.fftshift2, DFT2.roll2.
    set (k1 := zidx N1 (Z.of_nat n1 - Z.of_nat (N1 / 2))). set (k2 := zidx N2 (Z.of_nat n2 - Z.of_nat (N2 / 2))).
    assert (Hk1 : (k1 < N1)%nat) by apply (zidx_lt Rth Cok Rok1).
    assert (Hk2 : (k2 < N2)%nat) by apply (zidx_lt Rth Cok Rok2).
    rewrite estimate_intensities_eq. cbn [map FinSum.suml].
    rewrite (fp_spectrum a psi k1 k2 Hk1 Hk2). rewrite abs2_mul, ph_unit.
    unfold C16_Model.abs2. rewrite (amp_real _ (ifftshift2_amp a Ha k1 k2 Hk1 Hk2)).
    unfold DFT2.ifftshift2, DFT2.roll2. ring.
  Qed.

  Lemma fourier_projection_ext a psi psi' : eq2 psi psi' -> eq2 (fourier_projection a psi) (fourier_projection a psi').
  Proof.
    intros H. unfold C16_Model.fourier_projection. cbv zeta. apply idft2_ortho_ext.
    intros k1 k2 H1 H2. rewrite (dft2_ortho_ext _ _ H k1 k2 H1 H2). reflexivity.
  Qed.

  Theorem fourier_projection_idem a psi : amp2 a ->
    eq2 (fourier_projection a (fourier_projection a psi)) (fourier_projection a psi).
  Proof.
    intros Ha. unfold C16_Model.fourier_projection at 1 3. cbv zeta. apply idft2_ortho_ext.
    intros k1 k2 H1 H2. rewrite (fp_spectrum a psi k1 k2 H1 H2).
    rewrite memo2_spec by assumption.
    apply ph_amp; [apply (ifftshift2_amp a Ha); assumption | apply ph_unit].
  Qed.

  (* ---------------------------------------------------------------- mixed state *)
  Variable isq : R -> R.
  Notation fourier_projection_mixed :=
    (fourier_projection_mixed rO radd rmul conj N1 w1 Ninv1 N2 w2 Ninv2 rs rsi isq 0).
  Notation est2 := (est2 rO radd rmul conj 0).

  Lemma est2_eq psis k1 k2 : est2 (map dft2_ortho psis) k1 k2 = estimate_intensities psis k1 k2.
  Proof.
    rewrite estimate_intensities_eq. unfold C16_Model.est2. rewrite map_map. f_equal. apply map_ext.
    intros psi. f_equal. ring.
  Qed.

  Lemma suml_abs2_scale (A : Type) c (f : A -> R) l :
    suml (map (fun x => abs2 (c * f x)) l) = abs2 c * suml (map (fun x => abs2 (f x)) l).
  Proof.
    rewrite <- (suml_map_scale Rth). f_equal. apply map_ext. intros x. apply abs2_mul.
  Qed.

  (* the multiplier applied to every mode *)
  Definition modif (a : img) (psis : list img) : img :=
    fun k1 k2 => ifftshift2 a k1 k2 * isq (estimate_intensities psis k1 k2).

  Lemma fpm_eq a psis :
    Forall2 eq2 (fourier_projection_mixed a psis)
            (map (fun psi => idft2_ortho (fun k1 k2 => modif a psis k1 k2 * dft2_ortho psi k1 k2)) psis).
  Proof.
    unfold C16_Model.fourier_projection_mixed. cbv zeta. rewrite map_map.
    set (Fs := map dft2_ortho psis).
    assert (G : forall l : list img, Forall2 eq2
      (map (fun x => idft2_ortho (fun k1 k2 =>
           memo2 0 N1 N2 (fun k0 k3 => memo2 0 N1 N2 (ifftshift2 a) k0 k3 * isq (est2 Fs k0 k3)) k1 k2
           * dft2_ortho x k1 k2)) l)
      (map (fun psi => idft2_ortho (fun k1 k2 => modif a psis k1 k2 * dft2_ortho psi k1 k2)) l)).
    { induction l as [|x l IH]; cbn [map]; constructor; [|exact IH].
      apply idft2_ortho_ext. intros k1 k2 H1 H2. rewrite !memo2_spec by assumption.
      unfold modif, Fs. rewrite est2_eq. reflexivity. }
    apply G.
  Qed.

  Lemma Forall2_eq2_trans l1 l2 l3 : Forall2 eq2 l1 l2 -> Forall2 eq2 l2 l3 -> Forall2 eq2 l1 l3.
  Proof.
    intros H. revert l3. induction H as [|x y l1 l2 Hxy _ IH]; intros l3 H3;
      inversion H3 as [|y' z l2' l3' Hyz Hrest]; subst; constructor.
    - intros n1 n2 Hn1 Hn2. rewrite (Hxy n1 n2 Hn1 Hn2). apply Hyz; assumption.
    - apply IH. exact Hrest.
  Qed.

  Lemma estimate_intensities_ext l1 l2 : Forall2 eq2 l1 l2 ->
    eq2 (estimate_intensities l1) (estimate_intensities l2).
  Proof.
    intros H k1 k2 H1 H2. rewrite !estimate_intensities_eq.
    induction H as [|x y l1 l2 Hxy _ IH]; cbn [map FinSum.suml]; [reflexivity|].
    rewrite IH. rewrite (dft2_ortho_ext _ _ Hxy k1 k2 H1 H2). reflexivity.
  Qed.

  (* corner-centred intensity after the projection: |modif|^2 * estimate *)
  Lemma fpm_intensity a psis :
    eq2 (estimate_intensities (fourier_projection_mixed a psis))
        (fun k1 k2 => abs2 (modif a psis k1 k2) * estimate_intensities psis k1 k2).
  Proof.
    intros k1 k2 H1 H2. rewrite (estimate_intensities_ext _ _ (fpm_eq a psis) k1 k2 H1 H2).
    rewrite !estimate_intensities_eq, map_map.
    rewrite <- (suml_abs2_scale _ (modif a psis k1 k2) (fun psi => dft2_ortho psi k1 k2) psis).
    f_equal. apply map_ext. intros psi. f_equal.
    exact (dft2_ortho_idft2_ortho (fun k1 k2 => modif a psis k1 k2 * dft2_ortho psi k1 k2) k1 k2 H1 H2).
  Qed.

  (* "where the estimate is non-zero": isq inverts the square root of the estimate there *)
  Definition isq_ok (psis : list img) : Prop :=
    forall k1 k2, (k1 < N1)%nat -> (k2 < N2)%nat ->
      let S := estimate_intensities psis k1 k2 in isq S * isq S * S = 1 /\ conj (isq S) = isq S.

  Theorem fourier_projection_mixed_amp a psis : amp2 a -> isq_ok psis ->
    eq2 (detector_forward (fourier_projection_mixed a psis)) (fun n1 n2 => a n1 n2 * a n1 n2).
  Proof.
    intros Ha Hq n1 n2 H1 H2.
    rewrite <- (fftshift2_ifftshift2 Rth Cok Rok1 Rok2 (fun m1 m2 => a m1 m2 * a m1 m2) n1 n2 H1 H2).
    unfold C16_Model.detector_forward. cbv zeta. unfold DFT2.fftshift2, DFT2.roll2.
    set (k1 := zidx N1 (Z.of_nat n1 - Z.of_nat (N1 / 2))). set (k2 := zidx N2 (Z.of_nat n2 - Z.of_nat (N2 / 2))).
    assert (Hk1 : (k1 < N1)%nat) by apply (zidx_lt Rth Cok Rok1).
    assert (Hk2 : (k2 < N2)%nat) by apply (zidx_lt Rth Cok Rok2).
    rewrite (fpm_intensity a psis k1 k2 Hk1 Hk2). unfold modif.
    destruct (Hq k1 k2 Hk1 Hk2) as [Hinv Hreal]. cbv zeta in Hinv, Hreal.
    set (S := estimate_intensities psis k1 k2) in *.
    rewrite abs2_mul. unfold C16_Model.abs2. rewrite Hreal.
    rewrite (amp_real _ (ifftshift2_amp a Ha k1 k2 Hk1 Hk2)).
    transitivity (ifftshift2 a k1 k2 * ifftshift2 a k1 k2 * (isq S * isq S * S)); [ring|].
    rewrite Hinv. unfold DFT2.ifftshift2, DFT2.roll2. ring.
  Qed.

  Hypothesis isq_amp : forall a, amp a -> a * isq (a * a) * a = a.

  Lemma Forall2_map_fix (g' : img -> img) (P L : list img) :
    Forall2 eq2 P L -> (forall q y, eq2 q y -> In y L -> eq2 (g' q) q) -> Forall2 eq2 (map g' P) P.
  Proof.
    intros H. induction H as [|q y P L Hqy _ IH]; intros Hg; cbn [map]; constructor.
    - apply (Hg q y Hqy). left. reflexivity.
    - apply IH. intros q' y' Hq' Hy'. apply (Hg q' y' Hq'). right. exact Hy'.
  Qed.

  Theorem fourier_projection_mixed_idem a psis : amp2 a -> isq_ok psis ->
    Forall2 eq2 (fourier_projection_mixed a (fourier_projection_mixed a psis)) (fourier_projection_mixed a psis).
  Proof.
    intros Ha Hq.
    set (P := fourier_projection_mixed a psis).
    assert (HS : eq2 (estimate_intensities P) (fun k1 k2 => ifftshift2 a k1 k2 * ifftshift2 a k1 k2)).
    { intros k1 k2 H1 H2. unfold P. rewrite (fpm_intensity a psis k1 k2 H1 H2). unfold modif.
      destruct (Hq k1 k2 H1 H2) as [Hinv Hreal]. cbv zeta in Hinv, Hreal.
      set (S := estimate_intensities psis k1 k2) in *.
      rewrite abs2_mul. unfold C16_Model.abs2. rewrite Hreal.
      rewrite (amp_real _ (ifftshift2_amp a Ha k1 k2 H1 H2)).
      transitivity (ifftshift2 a k1 k2 * ifftshift2 a k1 k2 * (isq S * isq S * S)); [ring|].
      rewrite Hinv. ring. }
    eapply Forall2_eq2_trans; [apply (fpm_eq a P)|].
    apply (Forall2_map_fix _ P _ (fpm_eq a psis)).
    intros q y Hqy Hy. apply in_map_iff in Hy. destruct Hy as [psi [Hy _]]. subst y.
    intros n1 n2 H1 H2. rewrite (Hqy n1 n2 H1 H2).
    apply idft2_ortho_ext; [|assumption|assumption].
    intros k1 k2 Hk1 Hk2.
    rewrite (dft2_ortho_ext _ _ Hqy k1 k2 Hk1 Hk2).
    rewrite (dft2_ortho_idft2_ortho _ k1 k2 Hk1 Hk2).
    unfold modif at 1. rewrite (HS k1 k2 Hk1 Hk2). unfold modif.
    set (am := ifftshift2 a k1 k2). set (S := estimate_intensities psis k1 k2).
    transitivity ((am * isq (am * am) * am) * isq S * dft2_ortho psi k1 k2); [ring|].
    rewrite (isq_amp am (ifftshift2_amp a Ha k1 k2 Hk1 Hk2)). reflexivity.
  Qed.
End Ops.
