(* C07 — proofs, part 3 (round 3): explicit output size, N = 1, integer forms of the padded FFT
   size (and where the seeded variant differs), crop of non-square images, one SIRT epoch. *)
From QV.lib Require Import Prelude.
From QV.model Require Import C07_Model C07_Model_Ext.
From QV.proof Require Import C07_Proofs C07_Proofs_Iradon.
From Coq Require Import QArith Qround Qabs Qfield Lqa Setoid Morphisms.
Local Open Scope Q_scope.

(* ================================================================== explicit output size *)
Lemma iradon_out_default_port hker pi v A N circle ang sino row col :
  port_iradon_out hker pi v (output_size N circle) A N circle ang sino row col
  = port_iradon hker pi v A N circle ang sino row col.
Proof. reflexivity. Qed.

Lemma iradon_out_default_sk hker pi A N circle ang sino row col :
  sk_iradon_out hker pi (output_size N circle) A N circle ang sino row col
  = sk_iradon hker pi A N circle ang sino row col.
Proof. reflexivity. Qed.

Lemma det_size_ge2 N circle :
  (2 <= N \/ (N = 1 /\ circle = true))%Z -> (2 <= sk_det_size N circle)%Z.
Proof.
  intros [HN | [-> ->]].
  - unfold sk_det_size. destruct circle; [|exact HN]. pose proof (diagonal_ge N). lia.
  - vm_compute. discriminate.
Qed.

(* every output size (smaller or LARGER than the detector), every N >= 2, and N = 1 in circle mode *)
Lemma iradon_out_eq hker pi out A N circle ang sino row col :
  (2 <= N \/ (N = 1 /\ circle = true))%Z ->
  port_iradon_out hker pi repaired out A N circle ang sino row col
  == sk_iradon_out hker pi out A N circle ang sino row col.
Proof.
  intros HN. unfold port_iradon_out, sk_iradon_out. cbv zeta.
  destruct (det_size_repaired N circle) as [-> ->].
  pose proof (det_size_ge2 N circle HN) as HS.
  set (S := sk_det_size N circle) in *. set (pb := sk_pad_before N circle). set (P := padded_size S).
  assert (E : forall i,
    port_interp repaired S (circ_filter hker P S (pad_col pb N (sino i)))
                (port_t out (fst (ang i)) (snd (ang i)) row col)
    == np_interp (- (S / 2)) S (circ_filter hker P S (pad_col pb N (sino i)))
                 (sk_t out (fst (ang i)) (snd (ang i)) row col)).
  { intros i. rewrite port_t_eq_sk. apply interp_eq. exact HS. }
  destruct (circle && outside_circle out row col)%bool.
  - unfold Qdiv. ring.
  - rewrite (sumQ_ext _ _ _ (fun i _ => E i)). unfold Qdiv. ring.
Qed.

(* the detector of a single pixel in circle mode: 2 samples, pad_before 1, FFT size 64 *)
Lemma N1_geometry :
  sk_det_size 1 true = 2%Z /\ sk_pad_before 1 true = 1%Z /\ padded_size (sk_det_size 1 true) = 64%Z /\
  output_size 1 true = 1%Z /\ output_size 1 false = 0%Z.
Proof. repeat split; vm_compute; reflexivity. Qed.

(* ================================================================== padded FFT size *)
Local Close Scope Q_scope.
Local Open Scope Z_scope.

Lemma bit_length_pred m : 2 <= m -> bit_length (m - 1) = Z.log2_up m.
Proof.
  intros H. unfold bit_length. destruct (Z.leb_spec (m - 1) 0) as [L | L]; [lia|].
  rewrite (Z.log2_up_eqn m) by lia. rewrite <- Z.sub_1_r. lia.
Qed.

Lemma padded_size_int_eq m : 1 <= m -> padded_size_int m = padded_size m.
Proof.
  intros H. unfold padded_size_int, padded_size. rewrite bit_length_pred by lia. reflexivity.
Qed.

(* the least power of two that is >= 64 and >= 2 m *)
Lemma padded_size_least m p e :
  1 <= m -> 0 <= e -> p = 2 ^ e -> 64 <= p -> 2 * m <= p -> padded_size m <= p.
Proof.
  intros Hm He -> H64 H2m. unfold padded_size. apply Z.max_lub; [exact H64|].
  apply Z.pow_le_mono_r; [lia|].
  rewrite <- (Z.log2_up_pow2 e) by lia. apply Z.log2_up_le_mono. exact H2m.
Qed.

(* the seeded variant `1 << (2 m).bit_length()` is the reference unless 2 m is a power of two ... *)
Lemma padded_seeded_eq m :
  1 <= m -> (~ exists b, 2 * m = 2 ^ b) -> padded_size_seeded m = padded_size m.
Proof.
  intros H Hn. unfold padded_size_seeded, padded_size, bit_length.
  destruct (Z.leb_spec (2 * m) 0) as [L | L]; [lia|].
  pose proof (Z.le_log2_log2_up (2 * m)) as H1. pose proof (Z.le_log2_up_succ_log2 (2 * m)) as H2.
  assert (H3 : Z.log2 (2 * m) <> Z.log2_up (2 * m)).
  { intro E. apply Hn. apply (proj1 (Z.log2_log2_up_exact (2 * m) L)). exact E. }
  replace (Z.log2 (2 * m) + 1) with (Z.log2_up (2 * m)) by lia. reflexivity.
Qed.

(* ... where it doubles the FFT length as soon as the detector has 32 samples: m = 32, 64, 128, ...
   (circle mode: n = 22, 45, 90, ... whose diagonal is such a power of two) *)
Lemma padded_seeded_neq e : 5 <= e -> padded_size_seeded (2 ^ e) = 2 * padded_size (2 ^ e).
Proof.
  intros He. unfold padded_size_seeded, padded_size, bit_length.
  replace (2 * 2 ^ e) with (2 ^ (e + 1)) by (rewrite Z.pow_add_r by lia; lia).
  assert (Hp : 0 < 2 ^ (e + 1)) by (apply Z.pow_pos_nonneg; lia).
  destruct (Z.leb_spec (2 ^ (e + 1)) 0) as [L | L]; [lia|].
  rewrite Z.log2_pow2, Z.log2_up_pow2 by lia.
  assert (H64 : 64 <= 2 ^ (e + 1)). { change 64 with (2 ^ 6). apply Z.pow_le_mono_r; lia. }
  replace (e + 1 + 1) with (Z.succ (e + 1)) by lia. rewrite Z.pow_succ_r by lia. lia.
Qed.

Lemma padded_seeded_refuted : exists m, 1 <= m /\ padded_size_seeded m <> padded_size m.
Proof. exists 32. split; [lia|]. vm_compute. discriminate. Qed.

(* ================================================================== crop of non-square images *)
Lemma crop_start_eq e : sk_crop_start e = port_crop_start e.
Proof.
  unfold sk_crop_start, port_crop_start. destruct (0 <? e) eqn:E; [|reflexivity]. apply Z.ltb_lt in E.
  change (2%Q) with (iz 2). rewrite Qceiling_div_pos by lia. f_equal. lia.
Qed.

Lemma crop_masked_eq H W img r k :
  crop_masked sk_crop_start H W img r k = crop_masked port_crop_start H W img r k.
Proof. unfold crop_masked. cbv zeta. rewrite !crop_start_eq. reflexivity. Qed.

(* a square image is not cropped and the mask is the reconstruction disc of the model *)
Lemma crop_masked_square n img r k :
  crop_masked port_crop_start n n img r k = disc_mask n img r k.
Proof.
  unfold crop_masked, disc_mask, in_disc_rect, in_disc. cbv zeta.
  rewrite Z.min_id, Z.sub_diag. change (port_crop_start 0) with 0. rewrite !Z.add_0_r. reflexivity.
Qed.

(* the crop window lies inside the image and has the side min(H, W) *)
Lemma crop_window e : 0 <= e -> 0 <= port_crop_start e <= e.
Proof. intros H. unfold port_crop_start. destruct (0 <? e) eqn:E; [apply Z.ltb_lt in E|]; lia. Qed.

(* ================================================================== one SIRT epoch *)
Local Close Scope Z_scope.
Local Open Scope Q_scope.

Lemma pad_col_ext pb N f g j : (forall m, f m == g m) -> pad_col pb N f j == pad_col pb N g j.
Proof. intros H. unfold pad_col. destruct (_ && _)%bool; [apply H | reflexivity]. Qed.

Lemma circ_filter_ext hker P S f g j :
  (forall m, f m == g m) -> circ_filter hker P S f j == circ_filter hker P S g j.
Proof. intros H. unfold circ_filter. apply sumQ_ext. intros m _. cbv beta. rewrite (H m). reflexivity. Qed.

Lemma port_interp_ext v S f g t : (forall j, f j == g j) -> port_interp v S f t == port_interp v S g t.
Proof.
  intros H. unfold port_interp. cbv zeta.
  destruct (v_interp_mask v); [destruct (_ && _)%bool|]; rewrite ?H; ring.
Qed.

Lemma port_iradon_ext hker pi v A N circle ang f g row col :
  (forall i j, f i j == g i j) ->
  port_iradon hker pi v A N circle ang f row col == port_iradon hker pi v A N circle ang g row col.
Proof.
  intros H. unfold port_iradon. cbv zeta.
  set (S := port_det_size v N circle). set (pb := port_pad_before v N circle).
  set (P := padded_size S). set (out := output_size N circle).
  assert (E : forall i,
    port_interp v S (circ_filter hker P S (pad_col pb N (f i))) (port_t out (fst (ang i)) (snd (ang i)) row col)
    == port_interp v S (circ_filter hker P S (pad_col pb N (g i))) (port_t out (fst (ang i)) (snd (ang i)) row col)).
  { intros i. apply port_interp_ext. intros j. apply circ_filter_ext. intros m. apply pad_col_ext. apply H. }
  destruct (circle && outside_circle out row col)%bool.
  - reflexivity.
  - rewrite (sumQ_ext _ _ _ (fun i _ => E i)). reflexivity.
Qed.

Lemma Qeq_bool_comp_l a b : a == b -> Qeq_bool a 0 = Qeq_bool b 0.
Proof.
  intros E. destruct (Qeq_bool a 0) eqn:Ea; destruct (Qeq_bool b 0) eqn:Eb; try reflexivity.
  - apply Qeq_bool_iff in Ea. apply Qeq_bool_neq in Eb. exfalso. apply Eb. rewrite <- E. exact Ea.
  - apply Qeq_bool_iff in Eb. apply Qeq_bool_neq in Ea. exfalso. apply Ea. rewrite E. exact Eb.
Qed.

(* the SIRT update of tomography_conv.py computed with the port's transforms IS the update computed
   with scikit-image's: forward projection (any sampler), back-projection of the error (any filter
   kernel), normalisation by the unfiltered back-projection of ones, including its `== 0` branch *)
Lemma sirt_eq sample hker pi A n ang tilt obj row col :
  sampler_proper sample -> (2 <= n)%Z ->
  port_sirt sample hker pi repaired A n ang tilt obj row col
  == sk_sirt sample hker pi A n ang tilt obj row col.
Proof.
  intros Hs Hn. unfold port_sirt, sk_sirt, sirt_update. cbv zeta.
  pose proof (iradon_eq delta_ker pi A n true ang (fun _ _ => 1) row col Hn) as En.
  set (np := port_iradon delta_ker pi repaired A n true ang (fun _ _ => 1) row col) in *.
  set (ns := sk_iradon delta_ker pi A n true ang (fun _ _ => 1) row col) in *.
  assert (Ec :
    port_iradon hker pi repaired A n true ang
      (fun i j => tilt i j - port_radon repaired sample obj n (fst (ang i)) (snd (ang i)) j) row col
    == sk_iradon hker pi A n true ang
      (fun i j => tilt i j - sk_radon sample (disc_mask n obj) n (fst (ang i)) (snd (ang i)) j) row col).
  { rewrite <- (iradon_eq hker pi A n true ang _ row col Hn).
    apply port_iradon_ext. intros i j.
    rewrite (radon_eq_skimage sample Hs obj n (fst (ang i)) (snd (ang i)) j Hn). reflexivity. }
  rewrite Ec. rewrite (Qeq_bool_comp_l np ns En).
  destruct (Qeq_bool ns 0); [reflexivity|]. rewrite En. reflexivity.
Qed.
