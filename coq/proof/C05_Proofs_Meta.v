(* C05 — the checkpoint WITHOUT the raw data: Ptychography.save(save_raw_data=False) +
   from_file(path, dset=d).  The dataset model is not in the file; `_dataset_metadata` carries the
   values of its parameters; the supplied dataset model gets fresh cells holding those values,
   no optimiser and no scheduler.
     attach_binding_inv   the binding invariant survives attaching the supplied dataset model
     view_attach          the id-free view afterwards: model i is replaced by
                          (the metadata values, the supplied constraints, no optimiser, no scheduler)
     view_reload_meta     the whole route on the view: `vattach i c` (every other field untouched) *)
From QV.lib Require Import Prelude.
From QV.model Require Import C05_Model.
From QV.proof Require Import C05_Proofs_Base C05_Proofs_Copy C05_Proofs_Reconnect C05_Proofs_Ops.
Set Implicit Arguments.

Section Lists.
  Variables A B : Type.

  Lemma map_nth_seq (d : A) (l : list A) : forall n,
    map (fun j => nth (j - n) l d) (seq n (length l)) = l.
  Proof.
    induction l as [|a t IH]; intros n; [reflexivity|].
    cbn [length seq map]. rewrite Nat.sub_diag. cbn [nth]. f_equal.
    rewrite <- (IH (S n)) at 2. apply map_ext_in. intros j Hj. apply in_seq in Hj.
    replace (j - n) with (S (j - S n)) by lia. reflexivity.
  Qed.

  Lemma map_upd_nth_const (g g' : A -> B) (l : list A) i (f : A -> A) (v : B) :
    (forall x, In x l -> g' x = g x) -> (forall x, g' (f x) = v) ->
    map g' (upd_nth l i f) = upd_nth (map g l) i (fun _ => v).
  Proof.
    intros Hg Hf. revert i. induction l as [|x t IH]; intros i; [destruct i; reflexivity|].
    destruct i; cbn [upd_nth map].
    - rewrite Hf. f_equal. apply map_ext_in. intros y Hy. apply Hg. now right.
    - rewrite Hg by now left. f_equal. apply IH. intros y Hy. apply Hg. now right.
  Qed.

  Lemma upd_nth_same (l : list A) i (x : A) : nth_error l i = Some x -> upd_nth l i (fun _ => x) = l.
  Proof.
    revert i. induction l as [|y t IH]; intros i; [destruct i; discriminate|].
    destruct i; cbn; [intros E; injection E as ->; reflexivity|]. intros E. f_equal. now apply IH.
  Qed.

  Lemma upd_nth_none (l : list A) i (f : A -> A) : nth_error l i = None -> upd_nth l i f = l.
  Proof.
    revert i. induction l as [|y t IH]; intros i; [destruct i; reflexivity|].
    destruct i; cbn; [discriminate|]. intros E. f_equal. now apply IH.
  Qed.

  Lemma map_upd_nth (g : A -> B) (l : list A) i (f : A -> A) (f' : B -> B) :
    (forall x, g (f x) = f' (g x)) -> map g (upd_nth l i f) = upd_nth (map g l) i f'.
  Proof.
    intros Hf. revert i. induction l as [|x t IH]; intros i; [destruct i; reflexivity|].
    destruct i; cbn [upd_nth map]; [now rewrite Hf|now rewrite IH].
  Qed.
End Lists.

Section Meta.
  Variables V M L R C SS : Type.
  Implicit Types (s : st V M L R C SS) (h : heap V M R SS) (m : mdl C) (v : view V M L R C SS).

  (* the view of a model that owns the given values and nothing else *)
  Definition fresh_view (meta : list (option V)) (c : C) : mview V M R C SS :=
    {| vvals := meta; vcons := c; vopt := None; vsched := None |}.
  Definition meta_v v (i : nat) : list (option V) :=
    match nth_error (vmodels v) i with Some mv => vvals mv | None => [] end.
  (* the route on the id-free view: model i keeps its VALUES (the learned scan positions and descan
     shifts), takes the constraints of the dataset that is supplied, and has no optimiser / scheduler *)
  Definition vattach (i : nat) (c : C) v : view V M L R C SS :=
    {| vmodels := upd_nth (vmodels v) i (fun _ => fresh_view (meta_v v i) c);
       vlosses := vlosses v; vlrs := vlrs v |}.

  Lemma meta_of_view s i : meta_of s i = meta_v (view_of s) i.
  Proof.
    unfold meta_of, meta_v, view_of. cbn [vmodels]. rewrite nth_error_map.
    destruct (nth_error (models (rc s)) i); reflexivity.
  Qed.

  (* ------------------------------------------------------------------ attach *)
  Lemma attach_binding_inv i meta c s : binding_inv s -> binding_inv (attach i meta c s).
  Proof.
    intros Hinv. unfold attach. destruct (nth_error (models (rc s)) i) as [m|] eqn:En; [|exact Hinv].
    eapply rebind_binding_inv with (f := fun _ => {| mparams := seq (hnext (hh s)) (length meta); mopt := None;
                                                     msched := None; mcons := c |});
      [exact Hinv|exact En| | |].
    - split; [cbn; lia|]. split; intros j Hj; reflexivity.
    - intros y (Hyp & _ & _) _. split; [|split; cbn; discriminate].
      cbn [mparams]. intros p Hp Hp'. apply in_seq in Hp. rewrite Forall_forall in Hyp. apply Hyp in Hp'. lia.
    - unfold bound. cbn [mparams mopt msched hnext]. split; [apply seq_NoDup|]. split.
      + apply Forall_forall. intros p Hp. apply in_seq in Hp. lia.
      + split; [reflexivity|exact I].
  Qed.

  Lemma attach_losses i meta c s : losses (rc (attach i meta c s)) = losses (rc s).
  Proof. unfold attach. destruct (nth_error (models (rc s)) i); reflexivity. Qed.
  Lemma attach_lrs i meta c s : lrs (rc (attach i meta c s)) = lrs (rc s).
  Proof. unfold attach. destruct (nth_error (models (rc s)) i); reflexivity. Qed.

  Lemma view_attach i meta c s :
    binding_inv s ->
    view_of (attach i meta c s)
    = {| vmodels := upd_nth (vmodels (view_of s)) i (fun _ => fresh_view meta c);
         vlosses := vlosses (view_of s); vlrs := vlrs (view_of s) |}.
  Proof.
    intros (_ & Hb). unfold attach.
    destruct (nth_error (models (rc s)) i) as [m0|] eqn:En.
    2:{ unfold view_of at 1. cbn [vmodels vlosses vlrs]. f_equal. symmetry. apply upd_nth_none.
        unfold view_of. cbn [vmodels]. rewrite nth_error_map, En. reflexivity. }
    unfold view_of. cbn [hh rc models losses lrs vmodels vlosses vlrs]. f_equal.
    apply map_upd_nth_const.
    - intros m Hm. rewrite Forall_forall in Hb. specialize (Hb m Hm).
      destruct Hb as (_ & Hlt & _ & _). unfold mview_of. cbn [hp ho hs]. f_equal.
      apply map_ext_in. intros p Hp. rewrite Forall_forall in Hlt. apply Hlt in Hp.
      destruct (Nat.ltb_spec p (hnext (hh s))); [reflexivity|lia].
    - intros _. unfold mview_of, fresh_view. cbn [mparams mopt msched mcons hp]. f_equal.
      rewrite <- (map_nth_seq None meta (hnext (hh s))) at 2.
      apply map_ext_in. intros j Hj. apply in_seq in Hj.
      destruct (Nat.ltb_spec j (hnext (hh s))); [lia|].
      destruct (Nat.ltb_spec j (hnext (hh s) + length meta)); [reflexivity|lia].
  Qed.

  (* ------------------------------------------------------------------ the whole route *)
  Lemma reload_meta_eq w i c dev s :
    reload_meta w i c dev s
    = load w dev (attach i (meta_of (to_dev w s) i) c (copy_st Joint (to_dev w s))).
  Proof. reflexivity. Qed.

  Lemma reload_meta_binding_inv w i c dev s : binding_inv s -> binding_inv (reload_meta w i c dev s).
  Proof.
    intros H. rewrite reload_meta_eq.
    assert (H1 : binding_inv (to_dev w s)) by (apply to_dev_binding; now apply binding_loaded).
    assert (H2 : binding_inv (attach i (meta_of (to_dev w s) i) c (copy_st Joint (to_dev w s)))).
    { apply attach_binding_inv. apply copy_binding; auto. }
    unfold load. destruct dev; [|exact H2]. apply to_dev_binding. now apply binding_loaded.
  Qed.

  Theorem view_reload_meta i c dev s :
    binding_inv s -> view_of (reload_meta false i c dev s) = vattach i c (view_of s).
  Proof.
    intros H. rewrite reload_meta_eq.
    assert (H1 : binding_inv (to_dev false s)) by (apply to_dev_binding; now apply binding_loaded).
    assert (E1 : view_of (to_dev false s) = view_of s) by (apply view_to_dev; now apply binding_loaded).
    assert (H2 : binding_inv (copy_st Joint (to_dev false s))) by (apply copy_binding; auto).
    assert (E2 : view_of (copy_st Joint (to_dev false s)) = view_of s) by (rewrite view_copy by exact H1; exact E1).
    assert (E3 : view_of (attach i (meta_of (to_dev false s) i) c (copy_st Joint (to_dev false s)))
                 = vattach i c (view_of s)).
    { rewrite view_attach by exact H2. rewrite E2, meta_of_view, E1. reflexivity. }
    unfold load. destruct dev; [|exact E3].
    rewrite view_to_dev; [exact E3|]. apply binding_loaded. now apply attach_binding_inv.
  Qed.

  Theorem reload_meta_inv_and_view i c dev s :
    binding_inv s ->
    binding_inv (reload_meta false i c dev s) /\ view_of (reload_meta false i c dev s) = vattach i c (view_of s).
  Proof. intros H. split; [now apply reload_meta_binding_inv|now apply view_reload_meta]. Qed.

  (* when the dataset model carries no optimiser and the supplied dataset has the same
     constraints, the route is the identity on every field an iteration reads *)
  Lemma vattach_id i c s m :
    binding_inv s -> nth_error (models (rc s)) i = Some m -> mopt m = None -> mcons m = c ->
    vattach i c (view_of s) = view_of s.
  Proof.
    intros (_ & Hb) En Ho Ec. unfold vattach.
    assert (Em : nth_error (vmodels (view_of s)) i = Some (mview_of (hh s) m)).
    { unfold view_of. cbn [vmodels]. rewrite nth_error_map, En. reflexivity. }
    assert (Ev : fresh_view (meta_v (view_of s) i) c = mview_of (hh s) m).
    { unfold meta_v. rewrite Em. unfold fresh_view, mview_of. cbn [vvals].
      rewrite Forall_forall in Hb. specialize (Hb m (nth_error_In _ _ En)).
      destruct Hb as (_ & _ & Hbo & _). rewrite Ho in Hbo. rewrite Ho, Hbo, Ec. reflexivity. }
    rewrite Ev. rewrite (upd_nth_same _ _ Em). destruct (view_of s); reflexivity.
  Qed.

  (* what is reported, through the observation record *)
  Lemma obs_vattach i c v :
    o_iters (obs_of_view (vattach i c v)) = o_iters (obs_of_view v) /\
    o_losses (obs_of_view (vattach i c v)) = o_losses (obs_of_view v) /\
    o_lrs (obs_of_view (vattach i c v)) = o_lrs (obs_of_view v) /\
    o_vals (obs_of_view (vattach i c v)) = o_vals (obs_of_view v) /\
    o_cons (obs_of_view (vattach i c v)) = upd_nth (o_cons (obs_of_view v)) i (fun _ => c).
  Proof.
    unfold obs_of_view, vattach. cbn [o_iters o_losses o_lrs o_vals o_cons vmodels vlosses vlrs].
    repeat split.
    - unfold meta_v. destruct (nth_error (vmodels v) i) as [mv|] eqn:En.
      + rewrite (map_upd_nth_const (@vvals V M R C SS) (@vvals V M R C SS) (vmodels v) i
                   (fun _ => fresh_view (vvals mv) c) (v := vvals mv)); [|reflexivity|reflexivity].
        apply upd_nth_same. rewrite nth_error_map, En. reflexivity.
      + now rewrite upd_nth_none.
    - apply map_upd_nth_const; reflexivity.
  Qed.
End Meta.

Print Assumptions view_reload_meta.
Print Assumptions reload_meta_binding_inv.
