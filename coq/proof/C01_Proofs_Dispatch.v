(* C01 — the type-dispatch chain of _serialize_value: for every value exactly one branch fires
   (the first guard that holds), and it is the branch meant for that kind. *)
From QV.lib Require Import Prelude.
From QV.model Require Import C01_Model.
From Coq Require Import String.
Local Open Scope string_scope.
Local Open Scope list_scope.

Definition nth_guard (i : nat) : value -> bool := nth i guards (fun _ => false).

Lemma first_true_spec l v i0 :
  let d := first_true l v i0 in
  i0 <= d <= i0 + List.length l /\
  (forall j, j < d - i0 -> nth j l (fun _ => false) v = false) /\
  (d < i0 + List.length l -> nth (d - i0) l (fun _ => false) v = true).
Proof.
  revert i0. induction l as [|g r IH]; intros i0; cbn [first_true List.length].
  - split; [lia|]. split; intros; lia.
  - destruct (g v) eqn:Eg.
    + split; [lia|]. split; [intros j Hj; lia|]. intros _. rewrite Nat.sub_diag. exact Eg.
    + destruct (IH (S i0)) as (H1 & H2 & H3). split; [lia|]. split.
      * intros j Hj. destruct j as [|j]; [exact Eg|]. cbn [nth]. apply H2. lia.
      * intros Hd. replace (first_true r v (S i0) - i0) with (S (first_true r v (S i0) - S i0)) by lia.
        cbn [nth]. apply H3. lia.
Qed.

Theorem dispatch_intended v : dispatch v = intended v.
Proof.
  destruct v as [| | | | | |dt n| |k tys meta h| | | | | | | | |]; try reflexivity.
  destruct k; reflexivity.
Qed.

Theorem dispatch_total_unique v :
  dispatch v = intended v /\ dispatch v <= 15 /\
  (forall j, j < dispatch v -> nth_guard j v = false) /\
  (dispatch v < 15 -> nth_guard (dispatch v) v = true).
Proof.
  split; [apply dispatch_intended|].
  pose proof (first_true_spec guards v 0) as H. cbn zeta in H. fold (dispatch v) in H.
  rewrite !Nat.sub_0_r in H. change (0 + List.length guards) with 15 in H.
  destruct H as (H1 & H2 & H3). split; [lia|]. split; [exact H2 | exact H3].
Qed.
