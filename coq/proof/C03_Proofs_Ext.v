(* C03 — round-3 extensions:
     1. the calibration setters, exactly: for EVERY Python value kind of the argument the setter
        fails with the validator's error class or replaces exactly one calibration entry list;
     2. an Ellipsis in ANY position of an index expression is the same as writing the full slices
        it stands for (the whole __getitem__ result: data, axis order, calibration, class, view/copy);
     3. Dataset4dstem.get_dp_mean/max/median and get_virtual_image return a Dataset2d over the kept
        axes with exactly their calibration. *)
From Coq Require Import QArith String.
From QV.lib Require Import Prelude C03_Slice.
From QV.model Require Import C03_Model.
From QV.proof Require Import C03_Proofs.
From Coq Require Import List.
Import ListNotations.
Local Close Scope Q_scope.
Local Open Scope list_scope.

(* ------------------------------------------------------------------ 1. setters, exactly *)
Definition with_origin (o : obs) (l : list Q) : obs :=
  mkObs (o_cls o) (o_shape o) (o_flat o) l (o_sampling o) (o_units o).
Definition with_sampling (o : obs) (l : list Q) : obs :=
  mkObs (o_cls o) (o_shape o) (o_flat o) (o_origin o) l (o_units o).
Definition with_units (o : obs) (l : list string) : obs :=
  mkObs (o_cls o) (o_shape o) (o_flat o) (o_origin o) (o_sampling o) l.

Lemma get_ds_put s t d : t < length (dss s) -> get_ds (put_ds s t d) t = d.
Proof. intros Ht. apply (get_ds_dss s (put_ds s t d) t d eq_refl Ht). Qed.

Lemma set_origin_exact s t v :
  Inv s -> t < length (dss s) ->
  match validate_ndinfo v (length (o_shape (observe s t))) with
  | Ok l => exists s', set_origin s t v = Ok s' /\ observe s' t = with_origin (observe s t) l
  | Err e => set_origin s t v = Err e
  end.
Proof.
  intros HI Ht. destruct (Inv_get _ _ HI Ht) as [(Wa & Wo & Ws & Wu) _].
  unfold set_origin, ndim. cbn [observe o_shape].
  destruct (validate_ndinfo v _) as [l|e]; cbn [bind]; [|reflexivity].
  unfold alloc_num. eexists. split; [reflexivity|].
  unfold observe, with_origin. rewrite get_ds_put by exact Ht.
  cbn [d_arr d_origin d_sampling d_units d_cls o_cls o_shape o_flat o_sampling o_units].
  unfold get_arr, get_num, get_str. cbn [arrs nums strs put_ds].
  rewrite nth_app_new. rewrite app_nth1 by exact Ws. reflexivity.
Qed.

Lemma set_sampling_exact s t v :
  Inv s -> t < length (dss s) ->
  match validate_ndinfo v (length (o_shape (observe s t))) with
  | Ok l => exists s', set_sampling s t v = Ok s' /\ observe s' t = with_sampling (observe s t) l
  | Err e => set_sampling s t v = Err e
  end.
Proof.
  intros HI Ht. destruct (Inv_get _ _ HI Ht) as [(Wa & Wo & Ws & Wu) _].
  unfold set_sampling, ndim. cbn [observe o_shape].
  destruct (validate_ndinfo v _) as [l|e]; cbn [bind]; [|reflexivity].
  unfold alloc_num. eexists. split; [reflexivity|].
  unfold observe, with_sampling. rewrite get_ds_put by exact Ht.
  cbn [d_arr d_origin d_sampling d_units d_cls o_cls o_shape o_flat o_origin o_units].
  unfold get_arr, get_num, get_str. cbn [arrs nums strs put_ds].
  rewrite nth_app_new. rewrite app_nth1 by exact Wo. reflexivity.
Qed.

Lemma set_units_exact s t v :
  Inv s -> t < length (dss s) ->
  match validate_units v (length (o_shape (observe s t))) with
  | Ok l => exists s', set_units s t v = Ok s' /\ observe s' t = with_units (observe s t) l
  | Err e => set_units s t v = Err e
  end.
Proof.
  intros HI Ht. destruct (Inv_get _ _ HI Ht) as [(Wa & Wo & Ws & Wu) _].
  unfold set_units, ndim. cbn [observe o_shape].
  destruct (validate_units v _) as [l|e]; cbn [bind]; [|reflexivity].
  unfold alloc_str. eexists. split; [reflexivity|].
  unfold observe, with_units. rewrite get_ds_put by exact Ht.
  cbn [d_arr d_origin d_sampling d_units d_cls o_cls o_shape o_flat o_origin o_sampling].
  unfold get_arr, get_num, get_str. cbn [arrs nums strs put_ds].
  rewrite nth_app_new. reflexivity.
Qed.

(* the error class of the validator, by the kind of Python value: nothing but a number, or a
   sequence of exactly ndim numbers (possibly nested rectangularly), is accepted *)
Lemma validate_ndinfo_table v n :
  validate_ndinfo v n =
  match v with
  | NScalar q => Ok (repeat q n)
  | NList l => if length l =? n then Ok l else Err ValueErr
  | NNested ll => if rectangular ll
                  then (if length (concat ll) =? n then Ok (concat ll) else Err ValueErr)
                  else Err TypeErr
  | NNone | NOther => Err TypeErr
  | NStr | NBool | NNonNum _ => Err ValueErr
  end.
Proof. destruct v; reflexivity. Qed.

(* ------------------------------------------------------------------ 2. Ellipsis anywhere *)
Lemma count_ell_app a b : count_ell (a ++ b) = count_ell a + count_ell b.
Proof. unfold count_ell. rewrite filter_app, app_length. reflexivity. Qed.

Lemma count_ell_fulls k : count_ell (repeat full k) = 0.
Proof. unfold count_ell. induction k as [|k IH]; [reflexivity|exact IH]. Qed.

Lemma count_ell_cons_ell l : count_ell (IEll :: l) = S (count_ell l).
Proof. reflexivity. Qed.

Lemma expand_ell_at pre post k :
  count_ell pre = 0 -> expand_ell (pre ++ IEll :: post) k = pre ++ repeat full k ++ post.
Proof.
  induction pre as [|x r IH]; intros H; cbn [app expand_ell]; [reflexivity|].
  destruct x; try discriminate; f_equal; apply IH; exact H.
Qed.

Lemma np_expand_ell n pre post k :
  count_ell pre = 0 -> count_ell post = 0 -> length pre + k + length post = n ->
  np_expand n (pre ++ IEll :: post) = Ok (pre ++ repeat full k ++ post).
Proof.
  intros H1 H2 Hn. unfold np_expand.
  assert (Hc : count_ell (pre ++ IEll :: post) = 1)
    by (rewrite count_ell_app, count_ell_cons_ell, H1, H2; reflexivity).
  rewrite Hc. rewrite app_length. cbn [length].
  destruct (1 <? 1) eqn:E0; [apply Nat.ltb_lt in E0; lia|].
  destruct (n <? length pre + S (length post) - 1) eqn:E; [apply Nat.ltb_lt in E; lia|].
  rewrite Nat.eqb_refl.
  replace (n - (length pre + S (length post) - 1)) with k by lia.
  rewrite expand_ell_at by exact H1. reflexivity.
Qed.

Lemma np_expand_explicit n pre post k :
  count_ell pre = 0 -> count_ell post = 0 -> length pre + k + length post = n ->
  np_expand n (pre ++ repeat full k ++ post) = Ok (pre ++ repeat full k ++ post).
Proof.
  intros H1 H2 Hn. unfold np_expand.
  assert (Hc : count_ell (pre ++ repeat full k ++ post) = 0)
    by (rewrite !count_ell_app, count_ell_fulls, H1, H2; reflexivity).
  rewrite Hc. rewrite !app_length, repeat_length, Nat.sub_0_r.
  destruct (1 <? 0) eqn:E0; [apply Nat.ltb_lt in E0; lia|].
  destruct (n <? length pre + (k + length post)) eqn:E; [apply Nat.ltb_lt in E; lia|].
  destruct (0 =? 1) eqn:E1; [apply Nat.eqb_eq in E1; lia|].
  replace (n - (length pre + (k + length post))) with 0 by lia. cbn [repeat].
  rewrite app_nil_r. reflexivity.
Qed.

Lemma drop_nonadv_app_adv a b :
  existsb is_adv a = true -> drop_nonadv (a ++ b) = drop_nonadv a ++ b.
Proof.
  induction a as [|x r IH]; cbn [existsb app drop_nonadv]; [discriminate|].
  destruct (is_adv x); cbn [orb]; intros H; [reflexivity|apply IH; exact H].
Qed.

Lemma drop_nonadv_app_non a b :
  existsb is_adv a = false -> drop_nonadv (a ++ b) = drop_nonadv b.
Proof.
  induction a as [|x r IH]; cbn [existsb app drop_nonadv]; [reflexivity|].
  destruct (is_adv x); cbn [orb]; intros H; [discriminate|apply IH; exact H].
Qed.

Lemma existsb_rev (A : Type) (p : A -> bool) l : existsb p (rev l) = existsb p l.
Proof.
  induction l as [|x r IH]; [reflexivity|]. cbn [rev existsb].
  rewrite existsb_app, IH. cbn [existsb]. rewrite orb_false_r. apply orb_comm.
Qed.

Lemma forallb_rev (A : Type) (p : A -> bool) l : forallb p (rev l) = forallb p l.
Proof.
  induction l as [|x r IH]; [reflexivity|]. cbn [rev forallb].
  rewrite forallb_app, IH. cbn [forallb]. rewrite andb_true_r. apply andb_comm.
Qed.

Lemma forallb_nonadv_block M : existsb is_adv M = false -> M <> [] -> forallb is_adv M = false.
Proof.
  destruct M as [|x r]; [congruence|]. cbn [existsb forallb].
  destruct (is_adv x); cbn [orb andb]; [discriminate|reflexivity].
Qed.

(* a non-empty block of non-advanced items (slices, an Ellipsis) in the middle: whether the
   advanced indices are "separated" does not depend on what the block consists of *)
Lemma separated_mid pre post M :
  existsb is_adv M = false -> M <> [] ->
  separated (pre ++ M ++ post) =
  if existsb is_adv pre then (if existsb is_adv post then true else separated pre)
  else separated post.
Proof.
  intros HM Hne. unfold separated. rewrite !forallb_rev.
  destruct (existsb is_adv pre) eqn:Ep.
  - rewrite drop_nonadv_app_adv by exact Ep. rewrite !rev_app_distr, <- app_assoc.
    destruct (existsb is_adv post) eqn:Eq.
    + rewrite drop_nonadv_app_adv by (rewrite existsb_rev; exact Eq).
      rewrite !forallb_app.
      rewrite (forallb_nonadv_block (rev M)).
      * rewrite andb_false_l, andb_false_r. reflexivity.
      * rewrite existsb_rev. exact HM.
      * intros E. apply (f_equal (@rev index)) in E. rewrite rev_involutive in E. exact (Hne E).
    + rewrite drop_nonadv_app_non by (rewrite existsb_rev; exact Eq).
      rewrite drop_nonadv_app_non by (rewrite existsb_rev; exact HM). reflexivity.
  - rewrite drop_nonadv_app_non by exact Ep. rewrite drop_nonadv_app_non by exact HM. reflexivity.
Qed.

Lemma fulls_nonadv k : existsb is_adv (repeat full k) = false.
Proof. induction k as [|k IH]; [reflexivity|exact IH]. Qed.

Lemma separated_ellipsis pre post k :
  1 <= k -> separated (pre ++ IEll :: post) = separated (pre ++ repeat full k ++ post).
Proof.
  intros Hk. change (pre ++ IEll :: post) with (pre ++ [IEll] ++ post).
  rewrite (separated_mid pre post [IEll]) by (reflexivity || discriminate).
  rewrite (separated_mid pre post (repeat full k)); [reflexivity|apply fulls_nonadv|].
  destruct k; [lia|discriminate].
Qed.

(* NumPy's result (SPEC side): the Ellipsis is the k >= 1 full slices it stands for *)
Lemma np_index_ellipsis sh fl pre post k :
  count_ell pre = 0 -> count_ell post = 0 -> length pre + k + length post = length sh -> 1 <= k ->
  np_index sh fl (pre ++ IEll :: post) = np_index sh fl (pre ++ repeat full k ++ post).
Proof.
  intros H1 H2 Hn Hk. unfold np_index.
  rewrite (np_expand_ell _ pre post k H1 H2 Hn), (np_expand_explicit _ pre post k H1 H2 Hn).
  cbn [bind]. set (ex := pre ++ repeat full k ++ post).
  destruct (mapM norm_one (combine ex sh)) as [nix0|e] eqn:H0; [|reflexivity]. cbn [bind].
  destruct (bcast (list_lens nix0)) as [m|]; [|reflexivity].
  destruct (check_lists m nix0 sh) as [nix|e] eqn:HC; [|reflexivity]. cbn [bind].
  rewrite (separated_ellipsis pre post k Hk). fold ex.
  assert (Hlen : length ex = length sh) by (unfold ex; rewrite !app_length, repeat_length; lia).
  assert (Hce : count_ell ex = 0) by (unfold ex; rewrite !count_ell_app, count_ell_fulls, H1, H2; reflexivity).
  pose proof (norm_kinds ex sh nix0 m nix Hlen Hce H0 HC) as HK.
  assert (HNI : forallb is_NI nix = false).
  { rewrite <- (forallb_ext2 _ _ is_int is_NI ex nix (krel_int _ _ HK)).
    unfold ex. rewrite !forallb_app. destruct k; [lia|]. cbn [repeat forallb full is_int].
    rewrite andb_false_l, andb_false_r. reflexivity. }
  rewrite HNI. reflexivity.
Qed.

(* the CODE's result: ds[pre, ..., post] is ds[pre, :, ..., :, post] — the same outcome (error or
   new state: data, view/copy, axis order, calibration, class), wherever the Ellipsis stands *)
Lemma getitem_ellipsis s t pre post k :
  count_ell pre = 0 -> count_ell post = 0 -> 1 <= k ->
  length pre + k + length post = ndim (get_arr s (d_arr (get_ds s t))) ->
  getitem s t (pre ++ IEll :: post) = getitem s t (pre ++ repeat full k ++ post).
Proof.
  intros H1 H2 Hk Hn. unfold getitem. cbn zeta. unfold ndim in Hn.
  rewrite (np_index_ellipsis _ _ pre post k H1 H2 Hn Hk).
  destruct (np_index _ _ (pre ++ repeat full k ++ post)) as [v|e]; [|reflexivity]. cbn [bind].
  unfold ndim.
  destruct (code_expand_np _ _ _ (np_expand_ell _ pre post k H1 H2 Hn)) as [-> _].
  destruct (code_expand_np _ _ _ (np_expand_explicit _ pre post k H1 H2 Hn)) as [-> _].
  unfold code_kept_axes. rewrite !separated_code, (separated_ellipsis pre post k Hk). reflexivity.
Qed.

(* ------------------------------------------------------------------ 3. Dataset4dstem reductions *)
Section Reductions.
  Variable divf : Z -> Z -> Z.

  (* get_dp_mean / get_dp_max / get_dp_median: a NEW Dataset2d over the detector axes (2, 3),
     carrying exactly their calibration entries, in order *)
  Lemma reduce_dp_exact s t r s' :
    reduce_dp divf s t r = Ok s' -> Inv s -> t < length (dss s) ->
    let src := observe s t in
    let res := observe s' (length (dss s)) in
    length (dss s') = S (length (dss s)) /\
    o_cls src = D4stem /\ length (o_shape src) = 4 /\
    o_cls res = D2 /\ o_shape res = lastn 2 (o_shape src) /\
    o_origin res = lastn 2 (o_origin src) /\ o_sampling res = lastn 2 (o_sampling src) /\
    o_units res = lastn 2 (o_units src).
  Proof.
    intros H HI Ht. cbn zeta. unfold reduce_dp in H. cbn zeta in H.
    destruct (d_cls (get_ds s t)) eqn:Ec; try discriminate.
    destruct (a_shape (get_arr s (d_arr (get_ds s t)))) as [|n0 [|n1 [|n2 [|n3 [|n4 rest]]]]] eqn:Es;
      try discriminate.
    match type of H with (if ?c then _ else _) = _ => destruct c; [discriminate|] end.
    inv_bind H. rename x into data.
    destruct (alloc_fresh_spec s [n2; n3] data) as (E1 & D1 & A1 & L1 & N1).
    destruct (alloc_fresh s [n2; n3] data) as [s1 aid]. cbn [fst snd] in *. subst aid.
    assert (Hc : cls_ok D2 (ndim (get_arr s1 (length (arrs s))))) by (rewrite N1; reflexivity).
    destruct (from_array_lists _ _ _ _ _ _ _ H L1 Hc) as [HL HO].
    rewrite D1 in HL, HO. rewrite HO, N1. unfold observe.
    cbn [o_cls o_shape o_origin o_sampling o_units a_shape]. rewrite Ec, Es.
    repeat split; try reflexivity; exact HL.
  Qed.
End Reductions.

(* get_virtual_image: a NEW Dataset2d over the scan axes (0, 1) with exactly their calibration;
   it exists only when the detector is well-formed (mask of the detector shape, or a circle /
   annulus) *)
Lemma virtual_image_exact s t dt s' :
  virtual_image s t dt = Ok s' -> Inv s -> t < length (dss s) ->
  let src := observe s t in
  let res := observe s' (length (dss s)) in
  length (dss s') = S (length (dss s)) /\
  o_cls src = D4stem /\ length (o_shape src) = 4 /\
  o_cls res = D2 /\ o_shape res = firstn 2 (o_shape src) /\
  o_origin res = firstn 2 (o_origin src) /\ o_sampling res = firstn 2 (o_sampling src) /\
  o_units res = firstn 2 (o_units src) /\
  (exists mask, detector_mask (nth 2 (o_shape src) 0) (nth 3 (o_shape src) 0) dt = Ok mask).
Proof.
  intros H HI Ht. cbn zeta. unfold virtual_image in H. cbn zeta in H.
  destruct (d_cls (get_ds s t)) eqn:Ec; try discriminate.
  destruct (a_shape (get_arr s (d_arr (get_ds s t)))) as [|n0 [|n1 [|n2 [|n3 [|n4 rest]]]]] eqn:Es;
    try discriminate.
  inv_bind H. rename x into mask.
  match type of H with (let (_, _) := alloc_fresh s ?sh ?fl in _) = _ =>
    destruct (alloc_fresh_spec s sh fl) as (E1 & D1 & A1 & L1 & N1);
    destruct (alloc_fresh s sh fl) as [s1 aid] end.
  cbn [fst snd] in *. subst aid.
  assert (Hc : cls_ok D2 (ndim (get_arr s1 (length (arrs s))))) by (rewrite N1; reflexivity).
  destruct (from_array_lists _ _ _ _ _ _ _ H L1 Hc) as [HL HO].
  rewrite D1 in HL, HO. rewrite HO, N1. unfold observe.
  cbn [o_cls o_shape o_origin o_sampling o_units a_shape]. rewrite Ec, Es. cbn [nth].
  repeat split; try reflexivity; try exact HL. exists mask. exact Hx.
Qed.

(* a malformed detector never produces a dataset *)
Lemma virtual_image_bad s t : virtual_image s t DBad = Err ValueErr \/ virtual_image s t DBad = Err OtherErr.
Proof.
  unfold virtual_image. cbn zeta.
  destruct (d_cls (get_ds s t)); try (right; reflexivity).
  destruct (a_shape (get_arr s (d_arr (get_ds s t)))) as [|n0 [|n1 [|n2 [|n3 [|n4 rest]]]]];
    try (right; reflexivity).
  left. reflexivity.
Qed.

(* ------------------------------------------------------------------ for every reachable state *)
Section ReachableExt.
  Variable FR : list Z -> list Z -> list nat -> list Z -> list Z.
  Variable divf : Z -> Z -> Z.
  Variable ops : list op.
  Let s := run FR divf empty_state ops.

  Lemma reach_setters_exact t :
    t < length (dss s) ->
    let o := observe s t in
    let n := length (o_shape o) in
    (forall v, match validate_ndinfo v n with
               | Ok l => (exists s', set_origin s t v = Ok s' /\ observe s' t = with_origin o l) /\
                         (exists s', set_sampling s t v = Ok s' /\ observe s' t = with_sampling o l)
               | Err e => set_origin s t v = Err e /\ set_sampling s t v = Err e
               end) /\
    (forall u, match validate_units u n with
               | Ok l => exists s', set_units s t u = Ok s' /\ observe s' t = with_units o l
               | Err e => set_units s t u = Err e
               end).
  Proof.
    intros Ht o n. pose proof (reach_Inv FR divf ops) as HI. fold s in HI. split.
    - intros v. pose proof (set_origin_exact s t v HI Ht) as H1.
      pose proof (set_sampling_exact s t v HI Ht) as H2. fold o n in H1, H2.
      destruct (validate_ndinfo v n); split; assumption.
    - intros u. exact (set_units_exact s t u HI Ht).
  Qed.

  Lemma reach_getitem_ellipsis t pre post k :
    count_ell pre = 0 -> count_ell post = 0 -> 1 <= k ->
    length pre + k + length post = length (o_shape (observe s t)) ->
    getitem s t (pre ++ IEll :: post) = getitem s t (pre ++ repeat full k ++ post).
  Proof. intros H1 H2 Hk Hn. apply getitem_ellipsis; assumption. Qed.

  Lemma reach_reduce_dp t r s' :
    t < length (dss s) -> reduce_dp divf s t r = Ok s' ->
    let src := observe s t in
    let res := observe s' (length (dss s)) in
    length (dss s') = S (length (dss s)) /\
    o_cls src = D4stem /\ length (o_shape src) = 4 /\
    o_cls res = D2 /\ o_shape res = lastn 2 (o_shape src) /\
    o_origin res = lastn 2 (o_origin src) /\ o_sampling res = lastn 2 (o_sampling src) /\
    o_units res = lastn 2 (o_units src).
  Proof. intros Ht H. apply (reduce_dp_exact divf s t r s' H (reach_Inv FR divf ops) Ht). Qed.

  Lemma reach_virtual_image t dt s' :
    t < length (dss s) -> virtual_image s t dt = Ok s' ->
    let src := observe s t in
    let res := observe s' (length (dss s)) in
    length (dss s') = S (length (dss s)) /\
    o_cls src = D4stem /\ length (o_shape src) = 4 /\
    o_cls res = D2 /\ o_shape res = firstn 2 (o_shape src) /\
    o_origin res = firstn 2 (o_origin src) /\ o_sampling res = firstn 2 (o_sampling src) /\
    o_units res = firstn 2 (o_units src) /\
    (exists mask, detector_mask (nth 2 (o_shape src) 0) (nth 3 (o_shape src) 0) dt = Ok mask).
  Proof. intros Ht H. apply (virtual_image_exact s t dt s' H (reach_Inv FR divf ops) Ht). Qed.
End ReachableExt.

(* ------------------------------------------------------------------ 4. slices with any step *)
(* slice_len is len(range(start, stop, step)) for positive AND negative steps: every selected
   index lies strictly before `stop` in the direction of travel, and the next one would not *)
Local Open Scope Z_scope.
Lemma slice_range_exact a b c n start stop step :
  slice_indices a b c n = Some (start, stop, step) ->
  let len := slice_len start stop step in
  step <> 0 /\
  (forall k, 0 <= k < len -> if 0 <? step then start + step * k < stop else stop < start + step * k) /\
  (if 0 <? step then stop <= start + step * len else start + step * len <= stop).
Proof.
  intros Hs. assert (Hne : step <> 0).
  { unfold slice_indices in Hs.
    destruct (match c with None => 1 | Some s => s end =? 0) eqn:E; [discriminate|].
    injection Hs as _ _ <-. apply Z.eqb_neq. exact E. }
  clear Hs. cbn zeta. split; [exact Hne|]. unfold slice_len.
  destruct (0 <? step) eqn:Hp.
  - apply Z.ltb_lt in Hp. destruct (start <? stop) eqn:Hc.
    + apply Z.ltb_lt in Hc.
      pose proof (Z.mul_div_le (stop - start - 1) step Hp) as Hq.
      pose proof (Z.mul_succ_div_gt (stop - start - 1) step Hp) as Hq'.
      assert (Hq0 : 0 <= (stop - start - 1) / step) by (apply Z.div_pos; lia).
      remember ((stop - start - 1) / step) as q eqn:Eq. clear Eq. split.
      * intros k Hk. assert (step * k <= step * q) by (apply Z.mul_le_mono_nonneg_l; lia). lia.
      * replace (step * (q + 1)) with (step * Z.succ q) by (f_equal; lia). lia.
    + apply Z.ltb_ge in Hc. split; [intros k Hk; lia|lia].
  - apply Z.ltb_ge in Hp. assert (Hn : 0 < - step) by lia.
    destruct (stop <? start) eqn:Hc.
    + apply Z.ltb_lt in Hc.
      pose proof (Z.mul_div_le (start - stop - 1) (- step) Hn) as Hq.
      pose proof (Z.mul_succ_div_gt (start - stop - 1) (- step) Hn) as Hq'.
      assert (Hq0 : 0 <= (start - stop - 1) / (- step)) by (apply Z.div_pos; lia).
      remember ((start - stop - 1) / (- step)) as q eqn:Eq. clear Eq. split.
      * intros k Hk. assert ((- step) * k <= (- step) * q) by (apply Z.mul_le_mono_nonneg_l; lia).
        replace (step * k) with (- ((- step) * k)) by ring. lia.
      * replace (step * (q + 1)) with (- ((- step) * Z.succ q)) by (unfold Z.succ; ring). lia.
    + apply Z.ltb_ge in Hc. split; [intros k Hk; lia|lia].
Qed.
Local Close Scope Z_scope.

Lemma slice_python_range (a b c : option Z) (n start stop step : Z) :
  (0 <= n)%Z -> slice_indices a b c n = Some (start, stop, step) ->
  let len := slice_len start stop step in
  (step <> 0)%Z /\ (0 <= len)%Z /\
  (forall k, (0 <= k < len)%Z ->
     (0 <= start + step * k < n)%Z /\
     (if (0 <? step)%Z then (start + step * k < stop)%Z else (stop < start + step * k)%Z)) /\
  (if (0 <? step)%Z then (stop <= start + step * len)%Z else (start + step * len <= stop)%Z).
Proof.
  intros Hn Hs. cbn zeta. destruct (slice_range_exact a b c n start stop step Hs) as (H0 & H1 & H2).
  split; [exact H0|]. split; [apply slice_len_nonneg|]. split; [|exact H2].
  intros k Hk. split; [apply (slice_indices_in_range a b c n start stop step k Hn Hs Hk)|apply H1; exact Hk].
Qed.
