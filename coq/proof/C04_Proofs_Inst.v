(* C04 — a concrete instance of every hypothesis used by the property theorems (non-vacuity):
   Gaussian rationals (lib/DFT_Inst.v), reconstruction grid 4 x 4 with w = (-i)^k, scan grid
   2 x 2 with ws a = w (2 a) (upsampling factor 2), concrete masks. *)
From Coq Require Import ZArith List Bool Arith Lia Ring Permutation QArith Qcanon.
From QV.lib Require Import Prelude Chunks FinSum DFT DFT2 DFT_Inst.
From QV.model Require Import C04_Model.
From QV.proof Require Import C04_Proofs_Base.
Import ListNotations.
Local Close Scope Q_scope.
Local Open Scope Qc_scope.
Unset Implicit Arguments.

Definition chalf : C := (Q2Qc (1 # 2), 0).
Definition cinv (z : C) : C := (/ fst z, 0).
Definition ws2r (a : Z) : C := w4 (Z.of_nat 2 * a).

Lemma chalf_ok : cmul chalf (cadd c1 c1) = c1.
Proof. unfold chalf, cmul, cadd, c1; cbn [fst snd]. f_equal; apply Qc_is_canon; reflexivity. Qed.

Lemma mod2_cases (d : Z) : (d mod 2 = 0 \/ d mod 2 = 1)%Z.
Proof. pose proof (Z.mod_pos_bound d 2). lia. Qed.

Lemma w4_2d (d : Z) : w4 (2 * d) = if (d mod 2 =? 0)%Z then c1 else (- (1), 0).
Proof.
  unfold w4. replace 4%Z with (2 * 2)%Z by reflexivity. rewrite Z.mul_mod_distr_l by lia.
  destruct (mod2_cases d) as [H|H]; rewrite H; reflexivity.
Qed.

Theorem C_root_ok2 : root_ok c0 c1 cadd cmul cconj 2 ws2r chalf.
Proof.
  constructor.
  - lia.
  - reflexivity.
  - intros a b. unfold ws2r. rewrite Z.mul_add_distr_l. apply w4_add.
  - reflexivity.
  - intros a. unfold ws2r. rewrite w4_conj. f_equal. lia.
  - intros d. unfold ws2r. cbn [sumn]. change (Z.of_nat 2) with 2%Z.
    change (Z.of_nat 0) with 0%Z. change (Z.of_nat 1) with 1%Z.
    rewrite Z.mul_0_r, Z.mul_1_r, Z.mul_0_r. rewrite w4_2d.
    change (w4 0) with c1.
    destruct (d mod 2 =? 0)%Z; unfold cadd, c0, c1; cbn; unfold cadd, c0, c1; cbn [fst snd];
      f_equal; ring.
  - unfold chalf, cmul; cbn; unfold cadd, c0, c1; cbn [fst snd]. f_equal; apply Qc_is_canon; reflexivity.
Qed.

Lemma ws2r_link : forall a : Z, ws2r a = w4 (Z.of_nat 2 * a)%Z.
Proof. reflexivity. Qed.

Add Ring Cr : C_ring.

(* a multiplier kernel is linear and local *)
Lemma kern_mult_linear (g : nat * nat -> img C) :
  forall p a b (X Y : img C) (k1 k2 : nat), (k1 < 4)%nat -> (k2 < 4)%nat ->
    kern_mult cmul g p (fun i j => cadd (cmul a (X i j)) (cmul b (Y i j))) k1 k2
    = cadd (cmul a (kern_mult cmul g p X k1 k2)) (cmul b (kern_mult cmul g p Y k1 k2)).
Proof.
  intros. unfold kern_mult. ring.
Qed.

Lemma kern_mult_ext (g : nat * nat -> img C) :
  forall p (X Y : img C), (forall k1 k2 : nat, (k1 < 4)%nat -> (k2 < 4)%nat -> X k1 k2 = Y k1 k2) ->
    forall k1 k2 : nat, (k1 < 4)%nat -> (k2 < 4)%nat -> kern_mult cmul g p X k1 k2 = kern_mult cmul g p Y k1 k2.
Proof. intros p X Y H k1 k2 H1 H2. unfold kern_mult. rewrite H by assumption. reflexivity. Qed.

Lemma id_norm_respects :
  forall P Q : img C, (forall k1 k2 : nat, (k1 < 4)%nat -> (k2 < 4)%nat -> P k1 k2 = Q k1 k2) ->
    forall k1 k2 : nat, (k1 < 4)%nat -> (k2 < 4)%nat -> (fun X : img C => X) P k1 k2 = (fun X : img C => X) Q k1 k2.
Proof. intros P Q H. exact H. Qed.

Lemma creal_conj (q : Qc) : cconj (q, 0) = (q, 0).
Proof. unfold cconj; cbn [fst snd]. f_equal. Qed.

(* concrete masks: 2 x 3 detector, five BF pixels; A and B are complementary *)
Definition mfull : mask2 := [[true; true; false]; [true; true; true]].
Definition mA : mask2 := [[true; false; false]; [false; true; false]].
Definition mB : mask2 := [[false; true; false]; [true; false; true]].

Ltac by_cases6 p := destruct p as [|[|[|[|[|[|p]]]]]]; cbn; try (intros; discriminate); auto;
                    try (destruct p; cbn; intros; discriminate).

Lemma mA_sub : submask mfull mA.
Proof. intros p. by_cases6 p. Qed.
Lemma mB_sub : submask mfull mB.
Proof. intros p. by_cases6 p. Qed.
Lemma mAB_off : forall p, nth p (flat mfull) false = false ->
  nth p (flat mA) false = false /\ nth p (flat mB) false = false.
Proof. intros p. by_cases6 p; destruct p; auto. Qed.
Lemma mAB_on : forall p, nth p (flat mfull) false = true -> nth p (flat mA) false = negb (nth p (flat mB) false).
Proof. intros p. by_cases6 p. Qed.

Definition wone : nat * nat -> C := fun _ => c1.
Lemma weight_inv (m : mask2) : m = mfull \/ m = mA \/ m = mB ->
  cmul (bf_weights c0 cadd (ctx_n m) (ctx_wt wone m)) (cinv (bf_weights c0 cadd (ctx_n m) (ctx_wt wone m))) = c1.
Proof.
  intros [H|[H|H]]; subst m; apply injective_projections; cbn [fst snd]; apply Qc_is_canon; reflexivity.
Qed.

(* instance data for the non-vacuity examples *)
Definition ex_contrib (j : nat) : img C := fun k1 k2 => (Q2Qc (inject_Z (Z.of_nat (j + k1 * k2))), Q2Qc (inject_Z 1)).
Definition ex_pw (j : nat) : img C := fun k1 k2 => (Q2Qc (inject_Z (Z.of_nat (1 + j + k1))), 0).
Definition ex_env : img C := fun _ _ => c1.
Definition ex_garbage : img C := fun _ _ => c0.
Definition ex_g : nat * nat -> img C := fun p k1 k2 => (Q2Qc (inject_Z (Z.of_nat (fst p + k1))), Q2Qc (inject_Z (Z.of_nat (snd p + k2)))).
Definition ex_one : nat * nat -> img C := fun _ _ _ => c1.
Definition ex_s1 : nat * nat -> Z := fun p => Z.of_nat (fst p).
Definition ex_s2 : nat * nat -> Z := fun p => (- Z.of_nat (snd p))%Z.
Definition ex_ramp : nat * nat -> img C :=
  fun p k1 k2 => cmul (w4 (Z.of_nat k1 * ex_s1 p)%Z) (w4 (Z.of_nat k2 * ex_s2 p)%Z).
Definition ex_stack (m : nat) : img C := fun i k => (Q2Qc (inject_Z (Z.of_nat (m + 2 * i + k))), 0).
Definition ex_stack' (m : nat) : img C := fun i k => (Q2Qc (inject_Z (Z.of_nat (m * i + k))), 0).
Definition ex_a : C := (Q2Qc (inject_Z 2), 0).
Definition ex_b : C := (Q2Qc (inject_Z (-3)), 0).

Lemma ex_perm : Permutation (concat [[2; 0]; [1]]%nat) (seq 0 3).
Proof. cbn. apply perm_trans with [0; 2; 1]%nat; [apply perm_swap | apply perm_skip, perm_swap]. Qed.

Lemma ex_parts_ok : forall part, In part [mA; mB] ->
  same_shape mfull part /\ submask mfull part /\ (1 <= (fun _ : mask2 => 2%nat) part)%nat /\
  cmul (bf_weights c0 cadd (ctx_n part) (ctx_wt wone part)) (cinv (bf_weights c0 cadd (ctx_n part) (ctx_wt wone part))) = c1.
Proof.
  intros part [<-|[<-|[]]]; (split; [reflexivity|]); (split; [apply mA_sub || apply mB_sub|]); (split; [lia|]);
    apply weight_inv; auto.
Qed.

Lemma ex_stack_real : forall m i k, cconj (ex_stack m i k) = ex_stack m i k.
Proof. intros. apply creal_conj. Qed.
