(* C01 / C14 — basic lemmas: strings and decimal keys, string maps, the nested induction
   principle on values, append-only characterisation of the store operations. *)
From QV.lib Require Import Prelude.
From QV.model Require Import C01_Model.
From Coq Require Import String Ascii Decimal DecimalString DecimalNat.
Local Open Scope string_scope.
Local Open Scope list_scope.

(* ------------------------------------------------------------------ strings *)
Lemma sapp_nil_l s : sapp "" s = s.
Proof. reflexivity. Qed.

Lemma sapp_cons c a b : sapp (String c a) b = String c (sapp a b).
Proof. reflexivity. Qed.

Lemma slen_sapp a b : String.length (sapp a b) = String.length a + String.length b.
Proof. induction a as [|c a IH]; cbn [sapp String.append String.length]; [reflexivity|]. unfold sapp in IH. rewrite IH. reflexivity. Qed.

Lemma sapp_neq_self k suf : suf <> "" -> sapp k suf <> k.
Proof.
  intros Hs He. apply (f_equal String.length) in He. rewrite slen_sapp in He.
  destruct suf as [|c r]; [congruence|]. cbn [String.length] in He. lia.
Qed.

Lemma las_sapp a b : list_ascii_of_string (sapp a b) = list_ascii_of_string a ++ list_ascii_of_string b.
Proof. induction a as [|c a IH]; cbn; [reflexivity|]. unfold sapp in IH. rewrite IH. reflexivity. Qed.

Lemma las_inj a b : list_ascii_of_string a = list_ascii_of_string b -> a = b.
Proof.
  intros H. rewrite <- (string_of_list_ascii_of_string a), <- (string_of_list_ascii_of_string b), H.
  reflexivity.
Qed.

Lemma sapp_inj_l a b s : sapp a s = sapp b s -> a = b.
Proof.
  intros H. apply las_inj. apply (f_equal list_ascii_of_string) in H. rewrite !las_sapp in H.
  eapply app_inv_tail. exact H.
Qed.

Lemma ends_with_refl s : ends_with s s = true.
Proof. destruct s; cbn [ends_with]; rewrite String.eqb_refl; reflexivity. Qed.

Lemma ends_with_app k suf : ends_with (sapp k suf) suf = true.
Proof.
  induction k as [|c k IH].
  - apply ends_with_refl.
  - rewrite sapp_cons. cbn [ends_with]. rewrite IH. apply orb_true_r.
Qed.

Lemma ends_with_inv s suf : ends_with s suf = true -> exists p, s = sapp p suf.
Proof.
  induction s as [|c s IH]; cbn [ends_with]; intros H.
  - rewrite orb_false_r in H. apply String.eqb_eq in H. exists "". subst. reflexivity.
  - apply orb_true_iff in H. destruct H as [H|H].
    + apply String.eqb_eq in H. exists "". rewrite <- H. reflexivity.
    + destruct (IH H) as [p Hp]. exists (String c p). rewrite sapp_cons, <- Hp. reflexivity.
Qed.

(* keys that do not end with the flag suffix *)
Definition plain (k : string) : Prop := ends_with k ".is_path" = false.

Lemma plain_neq_flag k k' : plain k -> k <> sapp k' ".is_path".
Proof. intros Hp He. subst. unfold plain in Hp. rewrite ends_with_app in Hp. discriminate. Qed.

Lemma flag_inj k k' : sapp k ".is_path" = sapp k' ".is_path" -> k = k'.
Proof. apply sapp_inj_l. Qed.

Lemma flag_neq_self k : sapp k ".is_path" <> k.
Proof. apply sapp_neq_self. discriminate. Qed.

(* ---- decimal keys *)
Lemma uint_of_char_None a : uint_of_char a None = None.
Proof. reflexivity. Qed.

Lemma uint_of_string_app_None p q :
  NilEmpty.uint_of_string q = None -> NilEmpty.uint_of_string (sapp p q) = None.
Proof.
  intros Hq. induction p as [|c p IH]; [exact Hq|].
  rewrite sapp_cons. cbn [NilEmpty.uint_of_string]. rewrite IH. reflexivity.
Qed.

Lemma str_of_nonempty i : str_of i <> "".
Proof.
  unfold str_of. intros He.
  pose proof (NilEmpty.usu (Nat.to_uint i)) as H. rewrite He in H. cbn in H. injection H as H.
  pose proof (Unsigned.of_to i) as Ho. rewrite <- H in Ho. cbn in Ho. subst i. discriminate H.
Qed.

Lemma idx_of_str_of i : idx_of (str_of i) = Some i.
Proof.
  unfold idx_of. pose proof (str_of_nonempty i) as Hn.
  destruct (str_of i) as [|c r] eqn:E; [congruence|].
  rewrite <- E. unfold str_of. rewrite NilEmpty.usu, Unsigned.of_to. reflexivity.
Qed.

Lemma str_of_inj i j : str_of i = str_of j -> i = j.
Proof.
  intros H. pose proof (idx_of_str_of i) as Hi. rewrite H, idx_of_str_of in Hi. congruence.
Qed.

Lemma idx_of_suffix_None p q :
  q <> "" -> NilEmpty.uint_of_string q = None -> idx_of (sapp p q) = None.
Proof.
  intros Hq Hn. unfold idx_of. destruct (sapp p q) as [|c r] eqn:E; [reflexivity|].
  rewrite <- E, uint_of_string_app_None by exact Hn. reflexivity.
Qed.

Lemma idx_of_flag k : idx_of (sapp k ".is_path") = None.
Proof. apply idx_of_suffix_None; [discriminate | reflexivity]. Qed.

Lemma str_of_plain i : plain (str_of i).
Proof.
  unfold plain. destruct (ends_with (str_of i) ".is_path") eqn:E; [|reflexivity].
  apply ends_with_inv in E. destruct E as [p Hp].
  pose proof (idx_of_str_of i) as Hi. rewrite Hp, idx_of_flag in Hi. discriminate.
Qed.

Lemma str_of_not_torch_save i : ends_with (str_of i) ".torch_save" = false.
Proof.
  destruct (ends_with (str_of i) ".torch_save") eqn:E; [|reflexivity].
  apply ends_with_inv in E. destruct E as [p Hp].
  pose proof (idx_of_str_of i) as Hi. rewrite Hp, idx_of_suffix_None in Hi; [discriminate|discriminate|reflexivity].
Qed.

(* a key whose idx_of is None is not an index key *)
Lemma idx_None_neq_str_of k i : idx_of k = None -> k <> str_of i.
Proof. intros H He. subst. rewrite idx_of_str_of in H. discriminate. Qed.

(* ------------------------------------------------------------------ mem / nodupb *)
Lemma mem_In k l : mem k l = true <-> In k l.
Proof.
  unfold mem. rewrite existsb_exists. split.
  - intros [x [Hx He]]. apply String.eqb_eq in He. subst. exact Hx.
  - intros H. exists k. split; [exact H | apply String.eqb_refl].
Qed.

Lemma mem_false_In k l : mem k l = false <-> ~ In k l.
Proof. rewrite <- mem_In. destruct (mem k l); split; intros; congruence. Qed.

Lemma nodupb_NoDup l : nodupb l = true -> NoDup l.
Proof.
  induction l as [|x l IH]; cbn [nodupb]; intros H; [constructor|].
  apply andb_true_iff in H. destruct H as [H1 H2]. constructor.
  - apply negb_true_iff in H1. apply mem_false_In. exact H1.
  - apply IH. exact H2.
Qed.

Lemma NoDup_nodupb l : NoDup l -> nodupb l = true.
Proof.
  induction 1 as [|x l Hn _ IH]; cbn [nodupb]; [reflexivity|].
  rewrite IH, andb_true_r. apply negb_true_iff. apply mem_false_In. exact Hn.
Qed.

Lemma mem_app k a b : mem k (a ++ b) = mem k a || mem k b.
Proof. unfold mem. apply existsb_app. Qed.

(* ------------------------------------------------------------------ string maps *)
Section SMapLemmas.
  Context {A : Type}.
  Implicit Types (m : smap A) (k : string).

  Lemma lookup_app k m1 m2 :
    lookup k (m1 ++ m2) = match lookup k m1 with Some x => Some x | None => lookup k m2 end.
  Proof.
    induction m1 as [|[k' x] m1 IH]; simpl; [reflexivity|].
    destruct (String.eqb k k'); [reflexivity | exact IH].
  Qed.

  Lemma lookup_notin k m : ~ In k (keys m) -> lookup k m = None.
  Proof.
    induction m as [|[k' x] m IH]; simpl; intros H; [reflexivity|].
    destruct (String.eqb_spec k k') as [->|Hne]; [exfalso; apply H; left; reflexivity|].
    apply IH. intros Hi. apply H. right. exact Hi.
  Qed.

  Lemma lookup_some_in k m x : lookup k m = Some x -> In k (keys m).
  Proof.
    induction m as [|[k' y] m IH]; simpl; intros H; [discriminate|].
    destruct (String.eqb_spec k k') as [->|Hne]; [left; reflexivity | right; apply IH; exact H].
  Qed.

  Lemma lookup_none_notin k m : lookup k m = None -> ~ In k (keys m).
  Proof.
    induction m as [|[k' y] m IH]; simpl; intros H Hi; [exact Hi|].
    destruct (String.eqb_spec k k') as [->|Hne]; [discriminate|].
    destruct Hi as [Hi|Hi]; [congruence | exact (IH H Hi)].
  Qed.

  Lemma set_key_absent k x m : lookup k m = None -> set_key k x m = m ++ [(k, x)].
  Proof.
    induction m as [|[k' y] m IH]; simpl; intros H; [reflexivity|].
    destruct (String.eqb k k'); [discriminate|]. rewrite IH by exact H. reflexivity.
  Qed.

  Lemma has_key_lookup k m : has_key k m = match lookup k m with Some _ => true | None => false end.
  Proof. reflexivity. Qed.

  Lemma keys_app m1 m2 : keys (m1 ++ m2) = keys m1 ++ keys m2.
  Proof. unfold keys. apply map_app. Qed.
End SMapLemmas.

(* ------------------------------------------------------------------ nested induction on values *)
Section ValueInd.
  Variable P : value -> Prop.
  Hypothesis HNone : P VNone.
  Hypothesis HBool : forall b, P (VBool b).
  Hypothesis HInt : forall z, P (VInt z).
  Hypothesis HFloat : forall f, P (VFloat f).
  Hypothesis HStr : forall s, P (VStr s).
  Hypothesis HPath : forall s, P (VPath s).
  Hypothesis HNp : forall dt n, P (VNpScalar dt n).
  Hypothesis HArr : forall a, P (VArr a).
  Hypothesis HBlob : forall k tys meta h, P (VBlob k tys meta h).
  Hypothesis HLogger : forall c n l, P (VLogger c n l).
  Hypothesis HRng : forall bg s, P (VRng bg s).
  Hypothesis HList : forall l, Forall P l -> P (VList l).
  Hypothesis HTuple : forall l, Forall P l -> P (VTuple l).
  Hypothesis HSet : forall l, Forall P l -> P (VSet l).
  Hypothesis HDict : forall l, Forall (fun kv => P (snd kv)) l -> P (VDict l).
  Hypothesis HObj : forall m c l, Forall (fun kv => P (snd kv)) l -> P (VObj m c l).
  Hypothesis HOther : forall tys h, P (VOther tys h).
  Hypothesis HTb : forall d q f s, P (VTbWriter d q f s).

  Fixpoint value_ind' (v : value) : P v :=
    match v with
    | VNone => HNone
    | VBool b => HBool b
    | VInt z => HInt z
    | VFloat f => HFloat f
    | VStr s => HStr s
    | VPath s => HPath s
    | VNpScalar dt n => HNp dt n
    | VArr a => HArr a
    | VBlob k tys meta h => HBlob k tys meta h
    | VLogger c n l => HLogger c n l
    | VRng bg s => HRng bg s
    | VList l => HList l ((fix go (l : list value) : Forall P l :=
                           match l return Forall P l with [] => Forall_nil P | x :: r => Forall_cons x (value_ind' x) (go r) end) l)
    | VTuple l => HTuple l ((fix go (l : list value) : Forall P l :=
                             match l return Forall P l with [] => Forall_nil P | x :: r => Forall_cons x (value_ind' x) (go r) end) l)
    | VSet l => HSet l ((fix go (l : list value) : Forall P l :=
                         match l return Forall P l with [] => Forall_nil P | x :: r => Forall_cons x (value_ind' x) (go r) end) l)
    | VDict l => HDict l ((fix go (l : list (string * value)) : Forall (fun kv => P (snd kv)) l :=
                           match l return Forall (fun kv => P (snd kv)) l with
                           | [] => Forall_nil _
                           | (k, x) :: r => Forall_cons (k, x) (value_ind' x : P (snd (k, x))) (go r)
                           end) l)
    | VObj m c l => HObj m c l ((fix go (l : list (string * value)) : Forall (fun kv => P (snd kv)) l :=
                                 match l return Forall (fun kv => P (snd kv)) l with
                                 | [] => Forall_nil _
                                 | (k, x) :: r => Forall_cons (k, x) (value_ind' x : P (snd (k, x))) (go r)
                                 end) l)
    | VOther tys h => HOther tys h
    | VTbWriter d q f s => HTb d q f s
    end.
End ValueInd.

(* ------------------------------------------------------------------ nodes: append-only view *)
Definition napp (g p : node) : node :=
  Group (n_attrs g ++ n_attrs p) (n_arrays g ++ n_arrays p) (n_groups g ++ n_groups p).

Lemma napp_empty_r g : napp g empty_group = g.
Proof. destruct g as [a r s]. unfold napp. cbn. rewrite !app_nil_r. reflexivity. Qed.

Lemma napp_empty_l g : napp empty_group g = g.
Proof. destruct g as [a r s]. reflexivity. Qed.

Lemma napp_assoc a b c : napp (napp a b) c = napp a (napp b c).
Proof. destruct a, b, c. unfold napp. cbn. rewrite !app_assoc. reflexivity. Qed.

(* `name` (and its flag) is not yet used in g *)
Definition fresh (name : string) (g : node) : Prop :=
  lookup name (n_attrs g) = None /\ lookup (sapp name ".is_path") (n_attrs g) = None /\
  lookup name (n_arrays g) = None /\ lookup name (n_groups g) = None.

Lemma fresh_empty name : fresh name empty_group.
Proof. repeat split. Qed.

Lemma set_attr_fresh k j g : lookup k (n_attrs g) = None -> set_attr k j g = napp g (Group [(k, j)] [] []).
Proof.
  destruct g as [a r s]. cbn [n_attrs set_attr]. intros H. rewrite set_key_absent by exact H.
  unfold napp. cbn. rewrite !app_nil_r. reflexivity.
Qed.

Lemma create_array_fresh k x g :
  lookup k (n_arrays g) = None -> lookup k (n_groups g) = None ->
  create_array k x g = napp g (Group [] [(k, x)] []).
Proof.
  destruct g as [a r s]. cbn [n_arrays n_groups create_array]. intros H1 H2.
  unfold has_key. rewrite H1, H2. cbn. unfold napp. cbn. rewrite !app_nil_r. reflexivity.
Qed.

Lemma with_group_fresh k f g :
  lookup k (n_groups g) = None -> with_group k f g = napp g (Group [] [] [(k, f empty_group)]).
Proof.
  destruct g as [a r s]. cbn [n_groups with_group]. intros H. rewrite H.
  unfold napp. cbn. rewrite !app_nil_r. reflexivity.
Qed.

(* ------------------------------------------------------------------ misc list lemmas *)
Lemma flat_map_app' {A B} (f : A -> list B) l1 l2 : flat_map f (l1 ++ l2) = flat_map f l1 ++ flat_map f l2.
Proof. apply flat_map_app. Qed.

Lemma flat_map_flat_map {A B C} (f : A -> list B) (g : B -> list C) l :
  flat_map g (flat_map f l) = flat_map (fun x => flat_map g (f x)) l.
Proof.
  induction l as [|x l IH]; cbn [flat_map]; [reflexivity|]. rewrite flat_map_app, IH. reflexivity.
Qed.

Lemma flat_map_ext_in {A B} (f g : A -> list B) l :
  (forall x, In x l -> f x = g x) -> flat_map f l = flat_map g l.
Proof.
  induction l as [|x l IH]; cbn [flat_map]; intros H; [reflexivity|].
  rewrite (H x (or_introl eq_refl)), IH; [reflexivity|]. intros y Hy. apply H. right. exact Hy.
Qed.

Lemma filter_as_flat_map {A} (p : A -> bool) l : filter p l = flat_map (fun x => if p x then [x] else []) l.
Proof.
  induction l as [|x l IH]; cbn [filter flat_map]; [reflexivity|]. rewrite IH. destruct (p x); reflexivity.
Qed.

Lemma collect_map_RVal vs : collect (map RVal vs) = Some vs.
Proof. induction vs as [|v vs IH]; cbn [map collect]; [reflexivity|]. rewrite IH. reflexivity. Qed.

Lemma collect_kv_RVal (l : list (string * value)) :
  collect_kv (map (fun kv => (fst kv, RVal (snd kv))) l) = Some l.
Proof.
  induction l as [|[k v] l IH]; cbn [map collect_kv fst snd]; [reflexivity|]. rewrite IH. reflexivity.
Qed.
