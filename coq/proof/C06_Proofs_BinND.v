(* C06 — Dataset.bin over several axes at once:
   (1) binning a list of distinct axes in one call = binning them one call after the other;
   (2) the closed multi-index formula: output pixel J is the sum, over the whole multi-index
       block, of the input pixels whose coordinate on every listed axis a_i is J[a_i]*f_i + u_i. *)
From QV.lib Require Import Prelude FinSum.
From QV.model Require Import C06_Model C06_ModelND.
From QV.proof Require Import C06_Proofs C06_Proofs_ND C06_Proofs_Index.
From Coq Require Import QArith Qcanon ArithRing Ring.
Local Close Scope Q_scope.
Local Close Scope Qc_scope.
Unset Implicit Arguments.

Notation qget := (get 0%Qc).

(* ------------------------------------------------------------------------------------ *)
(* cutting axis b and block-reducing a different axis a commute *)
Lemma div_mul_le n f : (n / f) * f <= n.
Proof. destruct f as [|f]; [cbn; lia|]. rewrite Nat.mul_comm. apply Nat.mul_div_le. lia. Qed.

Lemma block_coord_lt n f j u : j < n / f -> u < f -> j * f + u < (n / f) * f.
Proof. intros Hj Hu. apply idx_lt; assumption. Qed.

Lemma reduce_take_commute a f b L (t : tensor Qc) :
  wf t -> a <> b -> a < length (shape t) -> b < length (shape t) ->
  L <= len_of b (shape t) -> len_of a (shape t) = (len_of a (shape t) / f) * f ->
  reduce_at a f (take_at b L t) = take_at b L (reduce_at a f t).
Proof.
  intros Hw Hne Ha Hb HL Hcut.
  set (sh := shape t) in *. set (nb := len_of a sh / f) in *.
  assert (Hsh1 : shape (take_at b L t) = set_nth b L sh) by reflexivity.
  assert (Hsh2 : shape (reduce_at a f t) = set_nth a nb sh) by reflexivity.
  assert (Hla : len_of a (set_nth b L sh) = len_of a sh) by (apply len_set_nth_neq; [exact Hb | lia]).
  assert (Hlb : len_of b (set_nth a nb sh) = len_of b sh) by (apply len_set_nth_neq; [exact Ha | lia]).
  assert (HshL : shape (reduce_at a f (take_at b L t)) = set_nth a nb (set_nth b L sh)).
  { rewrite reduce_at_shape, Hsh1, Hla. reflexivity. }
  assert (HshR : shape (take_at b L (reduce_at a f t)) = set_nth b L (set_nth a nb sh)) by reflexivity.
  assert (Hw1 : wf (take_at b L t)) by (apply take_at_wf; assumption).
  assert (Hw2 : wf (reduce_at a f t)) by (apply reduce_at_wf; assumption).
  apply (tensor_ext 0%Qc).
  - apply reduce_at_wf; [exact Hw1 | rewrite Hsh1, set_nth_length; assumption].
  - apply take_at_wf; [exact Hw2 | rewrite Hsh2, set_nth_length; assumption | rewrite Hsh2, Hlb; exact HL].
  - rewrite HshL, HshR. apply set_nth_comm; assumption.
  - intros J HJ. rewrite HshL in HJ.
    assert (HJ' : in_bounds (set_nth b L (set_nth a nb sh)) J) by (rewrite <- set_nth_comm by assumption; exact HJ).
    assert (Ha2 : a < length (set_nth b L sh)) by (rewrite set_nth_length; assumption).
    pose proof (proj1 (in_bounds_set_shape a nb (set_nth b L sh) J Ha2) HJ) as (Hl & Hja & Hoth).
    rewrite set_nth_length in Hl, Hoth by exact Hb.
    pose proof (Hoth b Hb ltac:(lia)) as Hjb. rewrite nth_set_nth_eq in Hjb by lia.
    (* left: reduce, then read through the cut *)
    rewrite get_reduce_at; [| rewrite Hsh1, set_nth_length; assumption | rewrite Hsh1, Hla; exact Hcut
                             | rewrite Hsh1, Hla; exact HJ].
    (* right: read through the cut, then reduce *)
    rewrite get_take_at; [| exact Hw2 | rewrite Hsh2, set_nth_length; assumption | rewrite Hsh2, Hlb; exact HL
                          | rewrite Hsh2; exact HJ'].
    rewrite get_reduce_at; [| exact Ha | exact Hcut |].
    2:{ apply (in_bounds_set_shape a nb sh J Ha). split; [exact Hl|]. split; [exact Hja|].
        intros c Hc Hca. destruct (Nat.eq_dec c b) as [->|Hcb]; [unfold len_of in HL; lia|].
        specialize (Hoth c Hc Hca). rewrite nth_set_nth_neq in Hoth by lia. exact Hoth. }
    apply (sumn_ext Qcrt). intros u Hu.
    apply get_take_at; [exact Hw | exact Hb | exact HL|].
    apply (in_bounds_set_shape b L sh _ Hb). rewrite set_nth_length by lia.
    split; [exact Hl|]. split; [rewrite nth_set_nth_neq by lia; exact Hjb|].
    intros c Hc Hcb. destruct (Nat.eq_dec c a) as [->|Hca].
    + rewrite nth_set_nth_eq by lia. unfold len_of in Hcut. fold sh in Hcut.
      pose proof (block_coord_lt (nth a sh 0) f (nth a J 0) u Hja Hu). unfold len_of in *. lia.
    + rewrite nth_set_nth_neq by lia. specialize (Hoth c Hc Hca). rewrite nth_set_nth_neq in Hoth by lia. exact Hoth.
Qed.

(* the cut of the remaining axes commutes with the reduction of an axis not among them *)
Lemma reduce_take_nd_commute a f r : forall (t : tensor Qc),
  wf t -> a < length (shape t) -> axes_ok r (length (shape t)) -> ~ In a (map fst r) ->
  len_of a (shape t) = (len_of a (shape t) / f) * f ->
  reduce_at a f (take_nd r t) = take_nd r (reduce_at a f t).
Proof.
  induction r as [|[b g] r IH]; intros t Hw Ha Hok Hnin Hcut; [reflexivity|].
  destruct (axes_ok_tail _ _ _ Hok) as (Hok' & Hb & Hnin'). cbn [fst snd map] in *.
  assert (Hne : a <> b) by (intros ->; apply Hnin; left; reflexivity).
  rewrite !take_nd_cons. cbn [fst snd].
  assert (Hlb : len_of b (shape (reduce_at a f t)) = len_of b (shape t)).
  { rewrite reduce_at_shape. apply len_set_nth_neq; [exact Ha | exact Hne]. }
  rewrite Hlb.
  set (L := eff_len (len_of b (shape t)) g).
  assert (HL : L <= len_of b (shape t)) by apply eff_len_le.
  assert (Hnd : length (shape (take_at b L t)) = length (shape t)) by (cbn [take_at shape]; apply set_nth_length; exact Hb).
  assert (Hla : len_of a (shape (take_at b L t)) = len_of a (shape t)).
  { cbn [take_at shape]. apply len_set_nth_neq; [exact Hb | lia]. }
  rewrite IH.
  - f_equal. apply reduce_take_commute; assumption.
  - apply take_at_wf; assumption.
  - rewrite Hnd. exact Ha.
  - rewrite Hnd. exact Hok'.
  - intros C. apply Hnin. right. exact C.
  - rewrite Hla. exact Hcut.
Qed.

(* (1) one call over af :: r  =  the call for af followed by the call for r *)
Theorem bin_sum_cons af r (t : tensor Qc) :
  wf t -> axes_ok (af :: r) (length (shape t)) ->
  bin_sum (af :: r) t = bin_sum r (bin_sum [af] t).
Proof.
  intros Hw Hok. destruct af as [a f].
  destruct (axes_ok_tail _ _ _ Hok) as (Hok' & Ha & Hnin). cbn [fst snd] in *.
  unfold bin_sum. rewrite take_nd_cons. cbn [fst snd].
  set (L := eff_len (len_of a (shape t)) f).
  set (t1 := take_at a L t).
  assert (Hw1 : wf t1) by (apply take_at_wf; [exact Hw | exact Ha | apply eff_len_le]).
  assert (Hnd1 : length (shape t1) = length (shape t)) by (cbn [t1 take_at shape]; apply set_nth_length; exact Ha).
  assert (Hl1 : len_of a (shape t1) = L) by (cbn [t1 take_at shape]; apply len_set_nth; lia).
  change (take_nd [(a, f)] t) with t1.
  change (reduce_nd ((a, f) :: r) (take_nd r t1)) with (reduce_nd r (reduce_at a f (take_nd r t1))).
  change (reduce_nd [(a, f)] t1) with (reduce_at a f t1).
  f_equal. apply reduce_take_nd_commute.
  - exact Hw1.
  - rewrite Hnd1. exact Ha.
  - rewrite Hnd1. exact Hok'.
  - exact Hnin.
  - rewrite Hl1. unfold L. rewrite eff_len_div. reflexivity.
Qed.

Lemma bin_sum_single_props a f (t : tensor Qc) :
  wf t -> a < length (shape t) ->
  wf (bin_sum [(a, f)] t) /\ shape (bin_sum [(a, f)] t) = set_nth a (len_of a (shape t) / f) (shape t).
Proof.
  intros Hw Ha. destruct (bin_sum_single a f t Ha) as [Hd Hs]. split; [|exact Hs].
  unfold wf. rewrite Hd, Hs, bin_axis_length, prod_set_nth by exact Ha. reflexivity.
Qed.

Theorem bin_sum_sequential afs : forall (t : tensor Qc),
  wf t -> axes_ok afs (length (shape t)) ->
  bin_sum afs t = fold_left (fun acc af => bin_sum [af] acc) afs t.
Proof.
  induction afs as [|[a f] r IH]; intros t Hw Hok; [reflexivity|].
  destruct (axes_ok_tail _ _ _ Hok) as (Hok' & Ha & Hnin). cbn [fst] in *.
  rewrite bin_sum_cons by assumption. cbn [fold_left].
  destruct (bin_sum_single_props a f t Hw Ha) as [Hw1 Hs1].
  apply IH; [exact Hw1|]. rewrite Hs1, set_nth_length by exact Ha. exact Hok'.
Qed.

(* ------------------------------------------------------------------------------------ *)
(* one listed axis, multi-index form (non-dividing factors included) *)
Theorem get_bin_single a f (t : tensor Qc) J :
  wf t -> a < length (shape t) ->
  in_bounds (set_nth a (len_of a (shape t) / f) (shape t)) J ->
  qget (bin_sum [(a, f)] t) J
  = FinSum.sumn 0%Qc Qcplus f (fun u => qget t (set_nth a (nth a J 0 * f + u) J)).
Proof.
  intros Hw Ha HJ.
  change (bin_sum [(a, f)] t) with (reduce_at a f (take_at a (eff_len (len_of a (shape t)) f) t)).
  set (L := eff_len (len_of a (shape t)) f).
  assert (HL : L <= len_of a (shape t)) by apply eff_len_le.
  assert (Hs1 : shape (take_at a L t) = set_nth a L (shape t)) by reflexivity.
  assert (Hl1 : len_of a (set_nth a L (shape t)) = L) by (apply len_set_nth; lia).
  pose proof (proj1 (in_bounds_set_shape a _ _ J Ha) HJ) as (Hl & Hja & Hoth).
  rewrite get_reduce_at.
  - apply (sumn_ext Qcrt). intros u Hu. apply get_take_at; [exact Hw | exact Ha | exact HL|].
    apply (in_bounds_set_shape a L _ _ Ha). rewrite set_nth_length by lia.
    split; [exact Hl|]. split.
    + rewrite nth_set_nth_eq by lia. unfold L, eff_len. apply block_coord_lt; assumption.
    + intros c Hc Hca. rewrite nth_set_nth_neq by lia. apply Hoth; assumption.
  - rewrite Hs1, set_nth_length; assumption.
  - rewrite Hs1, Hl1. unfold L. rewrite eff_len_div. reflexivity.
  - rewrite Hs1, Hl1, set_nth_set_nth by lia. unfold L. rewrite eff_len_div. exact HJ.
Qed.

(* ------------------------------------------------------------------------------------ *)
(* sums over offset tuples *)
Local Open Scope Qc_scope.
Lemma osum_ext fs : forall G G',
  (forall us, Forall2 lt us fs -> G us = G' us) -> osum fs G = osum fs G'.
Proof.
  induction fs as [|f fs IH]; intros G G' H; cbn [osum].
  - apply H. constructor.
  - apply (sumn_ext Qcrt). intros u Hu. apply IH. intros us Hus. apply H. constructor; assumption.
Qed.

(* Fubini: one more summation index can be moved to the front *)
Lemma osum_fubini fs : forall f (H : nat -> list nat -> Qc),
  osum fs (fun us => FinSum.sumn 0 Qcplus f (fun u => H u us))
  = FinSum.sumn 0 Qcplus f (fun u => osum fs (fun us => H u us)).
Proof.
  induction fs as [|g fs IH]; intros f H; cbn [osum]; [reflexivity|].
  rewrite (sumn_ext Qcrt g _ (fun v => FinSum.sumn 0 Qcplus f (fun u => osum fs (fun us => H u (v :: us)))))
    by (intros v _; apply (IH f (fun u us => H u (v :: us)))).
  apply (sumn_swap Qcrt).
Qed.
Local Close Scope Qc_scope.

(* ------------------------------------------------------------------------------------ *)
(* the block multi-index: coordinate by coordinate *)
Lemma block_index_length afs : forall J us nd,
  (forall af, In af afs -> fst af < nd) -> length J = nd -> length (block_index afs J us) = nd.
Proof.
  induction afs as [|[a f] r IH]; intros J us nd Hb HJ; [exact HJ|].
  destruct us as [|u us]; [exact HJ|]. cbn [block_index fst snd].
  assert (E : length (block_index r J us) = nd) by (apply IH; [intros af Hin; apply Hb; right; exact Hin | exact HJ]).
  rewrite set_nth_length; [exact E|]. rewrite E. apply (Hb (a, f)). left. reflexivity.
Qed.

Lemma block_index_other afs : forall J us nd b,
  (forall af, In af afs -> fst af < nd) -> length J = nd -> ~ In b (map fst afs) ->
  nth b (block_index afs J us) 0 = nth b J 0.
Proof.
  induction afs as [|[a f] r IH]; intros J us nd b Hb HJ Hnin; [reflexivity|].
  destruct us as [|u us]; [reflexivity|]. cbn [block_index fst snd]. cbn [map fst] in Hnin.
  assert (E : length (block_index r J us) = nd)
    by (apply block_index_length; [intros af Hin; apply Hb; right; exact Hin | exact HJ]).
  rewrite nth_set_nth_neq.
  - apply (IH J us nd b); [intros af Hin; apply Hb; right; exact Hin | exact HJ | intros C; apply Hnin; right; exact C].
  - rewrite E. apply (Hb (a, f)). left. reflexivity.
  - intros ->. apply Hnin. left. reflexivity.
Qed.

(* coordinate of the p-th listed axis a_p: J[a_p] * f_p + u_p *)
Theorem block_index_listed afs : forall J us nd p,
  axes_ok afs nd -> length J = nd -> length us = length afs -> p < length afs ->
  nth (fst (nth p afs (0, 0))) (block_index afs J us) 0
  = nth (fst (nth p afs (0, 0))) J 0 * snd (nth p afs (0, 0)) + nth p us 0.
Proof.
  induction afs as [|[a f] r IH]; intros J us nd p Hok HJ Hus Hp; [cbn in Hp; lia|].
  destruct (axes_ok_tail _ _ _ Hok) as (Hok' & Ha & Hnin). cbn [fst] in *.
  destruct us as [|u us]; [discriminate|]. cbn [length] in Hus, Hp.
  cbn [block_index fst snd].
  assert (Hb : forall af, In af r -> fst af < nd) by (destruct Hok' as [_ H]; exact H).
  assert (E : length (block_index r J us) = nd) by (apply block_index_length; assumption).
  destruct p as [|p]; cbn [nth fst snd].
  - rewrite nth_set_nth_eq by lia. reflexivity.
  - assert (Hin : In (nth p r (0, 0)) r) by (apply nth_In; lia).
    assert (Hne : a <> fst (nth p r (0, 0))).
    { intros C. apply Hnin. rewrite C. apply in_map. exact Hin. }
    rewrite nth_set_nth_neq by (try rewrite E; assumption).
    apply (IH J us nd p); try assumption; lia.
Qed.

(* every block multi-index stays inside the input array *)
Lemma block_index_in_bounds afs : forall sh J us,
  axes_ok afs (length sh) -> length J = length sh ->
  (forall b, b < length sh -> ~ In b (map fst afs) -> nth b J 0 < nth b sh 0) ->
  (forall af, In af afs -> nth (fst af) J 0 < nth (fst af) sh 0 / snd af) ->
  Forall2 lt us (map snd afs) ->
  in_bounds sh (block_index afs J us).
Proof.
  induction afs as [|[a f] r IH]; intros sh J us Hok HJ Hun Hli Hus.
  - cbn [block_index]. split; [exact HJ|]. intros b Hb. apply Hun; [exact Hb | intros []].
  - destruct (axes_ok_tail _ _ _ Hok) as (Hok' & Ha & Hnin). cbn [fst] in *.
    cbn [map snd] in Hus. inversion Hus as [|u f' us' fs' Hu Hus' E1 E2]; subst.
    cbn [block_index fst snd].
    pose proof (Hli (a, f) ltac:(left; reflexivity)) as Hja. cbn [fst snd] in Hja.
    assert (Hin : in_bounds sh (block_index r J us')).
    { apply IH; try assumption.
      - intros b Hb Hnb. destruct (Nat.eq_dec b a) as [->|Hne].
        + destruct f as [|f]; [cbn in Hja; lia|].
          pose proof (div_mul_le (nth a sh 0) (S f)). nia.
        + apply Hun; [exact Hb|]. cbn [map fst]. intros [C|C]; [lia | exact (Hnb C)].
      - intros af Hin. apply Hli. right. exact Hin. }
    destruct Hin as [Hl Hb]. split; [rewrite set_nth_length by lia; exact Hl|].
    intros b Hbb. destruct (Nat.eq_dec a b) as [<-|Hne].
    + rewrite nth_set_nth_eq by lia.
      pose proof (div_mul_le (nth a sh 0) f). pose proof (block_coord_lt _ _ _ _ Hja Hu). lia.
    + rewrite nth_set_nth_neq by lia. apply Hb. exact Hbb.
Qed.

(* ------------------------------------------------------------------------------------ *)
(* (2) the closed formula *)
Theorem bin_sum_closed afs : forall (t : tensor Qc) J,
  wf t -> axes_ok afs (length (shape t)) ->
  in_bounds (shape (bin_sum afs t)) J ->
  qget (bin_sum afs t) J = osum (map snd afs) (fun us => qget t (block_index afs J us)).
Proof.
  induction afs as [|[a f] r IH]; intros t J Hw Hok HJ; [reflexivity|].
  destruct (axes_ok_tail _ _ _ Hok) as (Hok' & Ha & Hnin). cbn [fst] in *.
  rewrite bin_sum_cons in HJ |- * by assumption.
  destruct (bin_sum_single_props a f t Hw Ha) as [Hw1 Hs1].
  set (t1 := bin_sum [(a, f)] t) in *.
  assert (Hnd1 : length (shape t1) = length (shape t)) by (rewrite Hs1; apply set_nth_length; exact Ha).
  assert (Hok1 : axes_ok r (length (shape t1))) by (rewrite Hnd1; exact Hok').
  rewrite (IH t1 J Hw1 Hok1 HJ).
  cbn [map snd osum]. rewrite <- osum_fubini.
  apply osum_ext. intros us Hus.
  (* shape facts of the final result, to place the block indices inside t1 *)
  destruct (bin_sum_shape r t1 Hw1 Hok1) as (_ & Hndf & Hoth & Hlis).
  destruct HJ as [HJl HJb]. rewrite Hndf in HJl, HJb.
  assert (Hbr : forall af, In af r -> fst af < length (shape t1)) by (destruct Hok1 as [_ H]; exact H).
  assert (HI : in_bounds (shape t1) (block_index r J us)).
  { apply block_index_in_bounds; try assumption.
    - intros b Hb Hnb. specialize (HJb b Hb). unfold len_of in Hoth. rewrite (Hoth b Hnb) in HJb. exact HJb.
    - intros af Hin. specialize (HJb (fst af) (Hbr af Hin)). unfold len_of in Hlis. rewrite (Hlis af Hin) in HJb. exact HJb. }
  unfold t1 at 1. rewrite get_bin_single; [| exact Hw | exact Ha | rewrite <- Hs1; exact HI].
  rewrite (block_index_other r J us (length (shape t1)) a Hbr HJl Hnin).
  reflexivity.
Qed.

(* reducer = "mean": the closed block sum divided by the block volume *)
Theorem bin_mean_closed afs (t : tensor Qc) J :
  wf t -> axes_ok afs (length (shape t)) ->
  in_bounds (shape (bin_sum afs t)) J ->
  qget (bin_mean afs t) J
  = (osum (map snd afs) (fun us => qget t (block_index afs J us)) / qc_of_nat (block_volume afs))%Qc.
Proof.
  intros Hw Hok HJ. rewrite <- bin_sum_closed by assumption.
  unfold get, bin_mean. cbn [shape data].
  destruct (bin_sum_shape afs t Hw Hok) as (Hwf & _).
  set (g := fun v : Qc => (v / qc_of_nat (block_volume afs))%Qc).
  rewrite (nth_indep _ 0%Qc (g 0%Qc)).
  - rewrite map_nth. reflexivity.
  - rewrite map_length. unfold wf in Hwf. rewrite Hwf. apply ravel_lt. exact HJ.
Qed.
