(* C19 — last writer wins over histories; merge / refresh read back the last default that
   wrote a key; the "new-defaults" rule of update_defaults *)
From QV.lib Require Import Prelude.
From QV.model Require Import C19_Model.
From QV.proof Require Import C19_Proofs_Keys C19_Proofs_Set C19_Proofs_Update C19_Proofs_Ctx C19_Proofs_Hist.
From Coq Require Import String Ascii.

(* a statement that does not write the key (nor anything above or below it) *)
Definition set_args (arg : option cfg) (kw : items) : items :=
  match arg with Some (Node l) => l | _ => [] end ++ kw_items kw.

Definition no_write (key' : string) (o : sop) : Prop :=
  match o with
  | SSet arg kw =>
      arg_ok arg /\ items_ok (kw_items kw) /\
      forall key v, In (key, v) (set_args arg kw) -> diverge (path_of key) (path_of key')
  | SUpd new => good (Node new) /\ forall w, In w (wp_items new) -> diverge w (path_of key')
  | SRefresh _ => False
  end.

Lemma nodev_same q : forall q', same_path q q' -> nodev q -> nodev q'.
Proof.
  unfold same_path, nodev. induction q as [|k q IH]; intros [|k' q'] S N; try discriminate; [constructor|].
  cbn [map] in S. injection S as E S. inversion N; subst. constructor; [congruence | apply IH; assumption].
Qed.

Lemma path_of_cons key : exists k r, path_of key = k :: r.
Proof. unfold path_of. destruct (split_dot key) as [k r]. eauto. Qed.

Section Last.
  Variable validate : cfg -> err + string.

  Lemma set_items_preserve_any l : forall d recs d' recs' e key',
    good (Node d) -> items_ok l -> key_ok key' ->
    (forall key2 v2, In (key2, v2) l -> diverge (path_of key2) (path_of key')) ->
    set_items validate l d recs = (d', recs', e) ->
    C19_Model.get key' d' = C19_Model.get key' d.
  Proof.
    induction l as [|[key v] l IH]; intros d recs d' recs' e key' G Ok Pk Hd H; cbn [set_items] in H.
    - inversion H; subst. reflexivity.
    - inversion Ok as [|? ? [Hk Hv] Ok']; subst. cbn [fst snd] in *.
      destruct (set_item validate key v d) as [e1|[d1 rc]] eqn:S; [inversion H; subst; reflexivity|].
      rewrite (IH d1 (recs ++ [rc]) d' recs' e key'); try assumption.
      + apply (set_preserves_siblings validate key key' v d d1 rc); try assumption. apply (Hd key v). left. reflexivity.
      + exact (set_item_good validate _ _ _ _ _ G Hk Hv S).
      + intros key2 v2 I. apply (Hd key2 v2). right. exact I.
  Qed.

  Lemma set_call_preserve arg kw d d' recs e key' :
    good (Node d) -> arg_ok arg -> items_ok (kw_items kw) -> key_ok key' ->
    (forall key v, In (key, v) (set_args arg kw) -> diverge (path_of key) (path_of key')) ->
    set_call validate arg kw d = (d', recs, e) ->
    C19_Model.get key' d' = C19_Model.get key' d.
  Proof.
    intros G Ha Hk Pk Hd. unfold set_call, set_args in *. destruct arg as [[x|l]|]; cbn [arg_ok app] in *.
    - intros H. inversion H; subst. reflexivity.
    - destruct (set_items validate l d []) as [[d0 r0] e0] eqn:S1.
      assert (E0 : C19_Model.get key' d0 = C19_Model.get key' d).
      { apply (set_items_preserve_any l d [] d0 r0 e0 key' G Ha Pk); [|exact S1].
        intros key2 v2 I. apply (Hd key2 v2). apply in_or_app. left. exact I. }
      destruct e0 as [e0|]; [intros H; inversion H; subst; exact E0|].
      intros S2. rewrite <- E0.
      apply (set_items_preserve_any _ d0 r0 d' recs e key' (set_items_good validate l _ _ _ _ _ G Ha S1) Hk Pk); [|exact S2].
      intros key2 v2 I. apply (Hd key2 v2). apply in_or_app. right. exact I.
    - intros S. apply (set_items_preserve_any _ d [] d' recs e key' G Hk Pk); [|exact S].
      intros key2 v2 I. apply (Hd key2 v2). exact I.
  Qed.

  Lemma check_items_wp new : forall new' qk qr,
    check_items validate new = inr new' -> norm qk <> "device"%string ->
    (forall w, In w (wp_items new) -> diverge w (qk :: qr)) ->
    forall w, In w (wp_items new') -> diverge w (qk :: qr).
  Proof.
    induction new as [|[k v] new IH]; intros new' qk qr H Nd HW; cbn [check_items] in H.
    - inversion H; subst. intros w [].
    - destruct (check_key_val validate k v) as [e|v'] eqn:C; [discriminate|].
      destruct (check_items validate new) as [e|r'] eqn:R; [discriminate|]. inversion H; subst.
      intros w I. unfold wp_items in I. cbn [flat_map fst snd] in I. apply in_app_or in I. destruct I as [I|I].
      + destruct (string_dec k "device") as [->|Kd].
        * apply in_map_iff in I. destruct I as [w0 [<- _]]. cbn [diverge]. left. intros E. apply Nd. rewrite <- E. reflexivity.
        * unfold check_key_val in C. rewrite (check_dev_other validate k v Kd) in C. inversion C; subst.
          apply HW. unfold wp_items. cbn [flat_map fst snd]. apply in_or_app. left. exact I.
      + apply (IH r' qk qr eq_refl Nd); [|exact I]. intros w' I'. apply HW. unfold wp_items. cbn [flat_map].
        apply in_or_app. right. exact I'.
  Qed.

  Lemma update_siblings_items l prio old dv old' e q x :
    good (Node l) -> good (Node old) -> pure_path q -> nodev q ->
    (forall w, In w (wp_items l) -> diverge w q) ->
    update_cfg validate prio (Node l) old dv = (old', e) ->
    get_path q (Node old) = inr x -> get_path q (Node old') = inr x.
  Proof.
    intros Gl G Pq Nq HW U Hg. destruct l as [|kv l].
    - rewrite update_nil in U. inversion U; subst. exact Hg.
    - apply (update_siblings validate (Node (kv :: l)) Gl prio old dv old' e q x G Pq Nq); try assumption.
  Qed.

  Lemma upd_preserve new s key' x :
    inv s -> good (Node new) -> key_ok key' -> nodev (path_of key') ->
    (forall w, In w (wp_items new) -> diverge w (path_of key')) ->
    C19_Model.get key' (conf s) = inr x ->
    C19_Model.get key' (conf (fst (update_defaults validate new s))) = inr x.
  Proof.
    intros [Gc Gd] Gn Pk Nk HW Hg. unfold update_defaults.
    destruct (check_items validate new) as [e1|new'] eqn:C; [exact Hg|].
    destruct (merge validate (dflts s)) as [cur [e1|]]; [exact Hg|]. unfold update_items.
    destruct (update_cfg validate PNewDefaults (Node new') (conf s) (Some (Node cur))) as [c' e1] eqn:U.
    cbn [fst conf]. unfold C19_Model.get in *.
    destruct (path_of_cons key') as [qk [qr Eq]]. unfold key_ok in Pk. rewrite Eq in *. inversion Nk as [|? ? Nqk _]; subst.
    apply (update_siblings_items new' PNewDefaults (conf s) (Some (Node cur)) c' e1 (qk :: qr) x); try assumption.
    - exact (proj1 (check_items_good validate _ _ Gn C)).
    - exact (check_items_wp _ _ _ _ C Nqk HW).
  Qed.

  Lemma no_write_ok key' o : no_write key' o -> sop_ok o.
  Proof.
    destruct o as [arg kw|new|yaml]; cbn [no_write sop_ok].
    - intros [Ha [Hk _]]. split; assumption.
    - intros [Gn _]. exact Gn.
    - intros [].
  Qed.

  Lemma sop_preserves_get o s key' x :
    inv s -> no_write key' o -> key_ok key' -> nodev (path_of key') ->
    C19_Model.get key' (conf s) = inr x ->
    C19_Model.get key' (conf (fst (step_s validate o s))) = inr x.
  Proof.
    intros I Nw Pk Nk Hg. destruct o as [arg kw|new|yaml]; cbn [no_write step_s] in *.
    - destruct Nw as [Ha [Hk Hd]]. destruct (set_call validate arg kw (conf s)) as [[c' recs] e] eqn:S.
      cbn [fst conf]. rewrite (set_call_preserve _ _ _ _ _ _ _ (proj1 I) Ha Hk Pk Hd S). exact Hg.
    - destruct Nw as [Gn HW]. apply upd_preserve; assumption.
    - destruct Nw.
  Qed.

  Lemma run_s_preserves_get post : forall s key' x,
    inv s -> Forall (no_write key') post -> key_ok key' -> nodev (path_of key') ->
    C19_Model.get key' (conf s) = inr x ->
    C19_Model.get key' (conf (run_s validate post s)) = inr x.
  Proof.
    induction post as [|o post IH]; intros s key' x I Nw Pk Nk Hg; cbn [run_s]; [exact Hg|].
    inversion Nw as [|? ? No Nw']; subst. apply IH; try assumption.
    - apply step_s_inv; [exact I | exact (no_write_ok _ _ No)].
    - apply sop_preserves_get; assumption.
  Qed.

  (* after any history: the value most recently set for a key is what get returns (under
     either spelling) until a later statement writes that key — another set, an
     update_defaults that carries it (which wins only under the rule below), or a refresh *)
  Theorem get_last_writer_hist pre key v v' d2 r key' post :
    Forall op_ok pre ->
    let s1 := run validate pre empty_store in
    key_ok key -> good v -> key_ok key' -> nodev (path_of key') ->
    same_path (path_of key) (path_of key') ->
    check_key_val validate key v = inr v' ->
    set_item validate key v (conf s1) = inr (d2, r) ->
    Forall (no_write key') post ->
    C19_Model.get key' (conf (run_s validate post {| conf := d2; dflts := dflts s1 |})) = inr v'.
  Proof.
    intros Okpre s1 Pk Gv Pk' Nk Sp C S Nw.
    destruct (one_spelling_inv validate pre Okpre) as [Gc Gd]. fold s1 in Gc, Gd.
    apply run_s_preserves_get; try assumption.
    - split; cbn [conf dflts]; [|exact Gd]. exact (set_item_good validate _ _ _ _ _ Gc Pk Gv S).
    - cbn [conf]. exact (get_set validate key key' v v' (conf s1) d2 r Gc Pk Pk' Sp C S).
  Qed.

  (* ------------------------------------------------------------ merge / refresh *)
  Lemma merge_from_app a : forall acc b,
    merge_from validate acc (a ++ b) =
    match merge_from validate acc a with (acc', None) => merge_from validate acc' b | x => x end.
  Proof.
    induction a as [|d a IH]; intros acc b; cbn [app merge_from]; [reflexivity|].
    destruct (update_items validate PNew d acc None) as [acc' [e|]]; [reflexivity | apply IH].
  Qed.

  Lemma merge_from_siblings ds : forall acc r e q x,
    good (Node acc) -> goods ds -> pure_path q -> nodev q ->
    (forall d, In d ds -> forall w, In w (wp_items d) -> diverge w q) ->
    merge_from validate acc ds = (r, e) ->
    get_path q (Node acc) = inr x -> get_path q (Node r) = inr x.
  Proof.
    induction ds as [|d ds IH]; intros acc r e q x G Gs Pq Nq HW H Hg; cbn [merge_from] in H.
    - inversion H; subst. exact Hg.
    - inversion Gs as [|? ? Gd Gs']; subst. unfold update_items in H.
      destruct (update_cfg validate PNew (Node d) acc None) as [acc' e1] eqn:U.
      assert (G' : good (Node acc')) by exact (update_good validate _ Gd _ _ _ _ _ G U).
      assert (Hg' : get_path q (Node acc') = inr x).
      { apply (update_siblings_items d PNew acc None acc' e1 q x); try assumption.
        apply HW. left. reflexivity. }
      destruct e1 as [e1|]; [inversion H; subst; exact Hg'|].
      apply (IH acc' r e q x); try assumption. intros d2 I. apply HW. right. exact I.
  Qed.

  (* the merge of a list of defaults reads back, for every leaf, the last mapping that wrote it *)
  Theorem merge_last_writer ds1 d ds2 m q q' x :
    goods (ds1 ++ d :: ds2) -> pure_path q -> pure_path q' -> nodev q -> same_path q q' -> q <> [] ->
    get_path q (Node d) = inr (Leaf x) ->
    (forall d2, In d2 ds2 -> forall w, In w (wp_items d2) -> diverge w q') ->
    merge validate (ds1 ++ d :: ds2) = (m, None) ->
    get_path q' (Node m) = inr (Leaf x).
  Proof.
    intros Gs Pq Pq' Nq Sq Hq Hg HW H. unfold merge in H. rewrite merge_from_app in H.
    apply Forall_app in Gs. destruct Gs as [G1 G2]. inversion G2 as [|? ? Gd G2']; subst.
    destruct (merge_from validate [] ds1) as [a1 [e|]] eqn:M1; [discriminate|].
    assert (Ga1 : good (Node a1)) by exact (merge_from_good validate _ _ _ _ good_nil G1 M1).
    cbn [merge_from] in H. unfold update_items in H.
    destruct (update_cfg validate PNew (Node d) a1 None) as [a2 [e|]] eqn:U; [discriminate|].
    assert (Ga2 : good (Node a2)) by exact (update_good validate _ Gd _ _ _ _ _ Ga1 U).
    apply (merge_from_siblings ds2 a2 m None q' (Leaf x) Ga2 G2' Pq' (nodev_same _ _ Sq Nq) HW H).
    exact (update_new_get validate (Node d) Gd a1 None a2 q q' x Ga1 Pq Pq' Nq Sq Hq Hg U).
  Qed.

  (* a name no default carries is absent from the merge *)
  Theorem merge_absent ds : forall acc r e qk,
    (forall d, In d ds -> forall k v, In (k, v) d -> norm k <> norm qk) ->
    merge_from validate acc ds = (r, e) -> find qk r = find qk acc.
  Proof.
    induction ds as [|d ds IH]; intros acc r e qk Hn H; cbn [merge_from] in H.
    - inversion H; subst. reflexivity.
    - unfold update_items in H. destruct (update_cfg validate PNew (Node d) acc None) as [acc' e1] eqn:U.
      destruct (update_frame validate PNew qk d _ _ _ _ (Hn d (or_introl eq_refl)) U) as [F _].
      destruct e1 as [e1|]; [inversion H; subst; exact F|].
      rewrite (IH acc' r e qk (fun d2 I => Hn d2 (or_intror I)) H). exact F.
  Qed.

  (* refresh: the previous configuration plays no role, the defaults stay, and (no yaml
     files) the new configuration is exactly the merge of the accumulated defaults *)
  Theorem refresh_is_merge_defaults yaml s :
    (forall c, refresh validate yaml {| conf := c; dflts := dflts s |} = refresh validate yaml s) /\
    dflts (fst (refresh validate yaml s)) = dflts s /\
    refresh validate [] s =
      ({| conf := fst (merge validate (dflts s)); dflts := dflts s |}, snd (merge validate (dflts s))).
  Proof.
    split; [intros c; reflexivity|]. split.
    - unfold refresh. destruct (merge_from validate [] (dflts s)) as [c1 [e|]]; [reflexivity|].
      destruct (merge validate yaml) as [cy [e|]]; [reflexivity|].
      destruct (update_items validate PNew cy c1 None); reflexivity.
    - unfold refresh, merge. destruct (merge_from validate [] (dflts s)) as [c1 [e|]]; reflexivity.
  Qed.

  (* ------------------------------------------------------------ the "new-defaults" rule *)
  Lemma check_items_In new : forall new' k v,
    check_items validate new = inr new' -> In (k, v) new -> k <> "device"%string -> In (k, v) new'.
  Proof.
    induction new as [|[k0 v0] new IH]; intros new' k v H I Kd; [destruct I|]. cbn [check_items] in H.
    destruct (check_key_val validate k0 v0) as [e|v'] eqn:C; [discriminate|].
    destruct (check_items validate new) as [e|r'] eqn:R; [discriminate|]. inversion H; subst.
    destruct I as [E|I].
    - inversion E; subst. unfold check_key_val in C. rewrite (check_dev_other validate k v Kd) in C.
      inversion C; subst. left. reflexivity.
    - right. exact (IH r' k v eq_refl I Kd).
  Qed.

  (* update_defaults(new): the new mapping joins the defaults; a (top-level, scalar) key of
     it takes the new value iff it was absent or still equal to the value the accumulated
     defaults gave it — a value the user changed is kept *)
  Theorem update_defaults_rule new s s' :
    inv s -> good (Node new) -> update_defaults validate new s = (s', None) ->
    exists new' cur,
      check_items validate new = inr new' /\ merge validate (dflts s) = (cur, None) /\
      dflts s' = dflts s ++ [new'] /\
      forall k x k2, In (k, Leaf x) new -> k <> "device"%string -> pure k2 = true -> norm k2 = norm k ->
        find k2 (conf s') =
        match find k2 (conf s) with
        | None => Some (Leaf x)
        | Some ov => match find k2 cur with
                     | Some dvv => if cfg_eqb dvv ov then Some (Leaf x) else Some ov
                     | None => Some ov
                     end
        end.
  Proof.
    intros [Gc Gd] Gn. unfold update_defaults.
    destruct (check_items validate new) as [e1|new'] eqn:C; [discriminate|].
    destruct (check_items_good validate _ _ Gn C) as [Gn' _].
    destruct (merge validate (dflts s)) as [cur [e1|]] eqn:M; [discriminate|].
    assert (Gcur : good (Node cur)) by exact (merge_from_good validate _ _ _ _ good_nil Gd M).
    unfold update_items.
    destruct (update_cfg validate PNewDefaults (Node new') (conf s) (Some (Node cur))) as [c' e1] eqn:U.
    intros H. inversion H; subst. exists new', cur. repeat split; try reflexivity. cbn [conf].
    intros k x k2 I Kd Pk2 En.
    pose proof (check_items_In _ _ _ _ C I Kd) as I'. apply in_split in I'. destruct I' as [l1 [l2 El]].
    rewrite El in Gn', U. destruct (good_app_inv _ _ _ _ Gn') as [G1 [G2 [N1 N2]]].
    destruct (good_cons_inv _ _ _ G2) as [Pk _].
    rewrite update_app in U.
    destruct (update_cfg validate PNewDefaults (Node l1) (conf s) (Some (Node cur))) as [o1 [e1|]] eqn:U1; [discriminate|].
    assert (Go1 : good (Node o1)) by exact (update_good validate _ G1 _ _ _ _ _ Gc U1).
    destruct (update_frame validate PNewDefaults k l1 _ _ _ _ N1 U1) as [F1 C1].
    rewrite update_cons in U. cbv zeta in U.
    set (k' := canon k o1) in *. set (r := entry_val validate PNewDefaults k (Leaf x) k' (lookup k' o1) (Some (Node cur))) in *.
    destruct (snd r) as [e2|] eqn:Er; [discriminate|].
    assert (N2' : forall ka va, In (ka, va) l2 -> norm ka <> norm k2).
    { intros ka va Ia. rewrite En. exact (N2 ka va Ia). }
    destruct (update_frame validate PNewDefaults k2 l2 _ _ _ _ N2' U) as [F2 _]. rewrite F2.
    unfold k'. rewrite (find_put_same k (fst r) o1 k2 Go1 Pk Pk2 (eq_sym En)). fold k'.
    (* what the entry held, and what the defaults hold *)
    assert (Ef : lookup k' o1 = find k2 (conf s)).
    { change (lookup k' o1) with (find k o1). rewrite F1.
      exact (find_same_norm k k2 (conf s) (good_keys_of _ Gc) Pk Pk2 (eq_sym En)). }
    assert (Pk' : pure k' = true) by (apply pure_canon; [apply good_keys_of; exact Go1 | exact Pk]).
    assert (Ed : find k' cur = find k2 cur).
    { apply (find_same_norm k' k2 cur (good_keys_of _ Gcur) Pk' Pk2). unfold k'. rewrite norm_canon. congruence. }
    unfold r, entry_val in *. rewrite (check_dev_other validate k (Leaf x) Kd) in *.
    rewrite Ef in *. unfold leaf_val in *.
    destruct (find k2 (conf s)) as [ov|]; [|reflexivity].
    unfold dmatch, dkey in *. destruct cur as [|c0 cur0] eqn:Ecur.
    - cbn [dv_truthy fst]. rewrite <- Ed. reflexivity.
    - cbn [dv_truthy] in *. rewrite <- Ecur in *. change (lookup (canon k' cur) cur) with (find k' cur) in *.
      rewrite Ed in *. destruct (find k2 cur) as [dvv|]; [|reflexivity].
      destruct (cfg_eqb dvv ov); reflexivity.
  Qed.
End Last.
