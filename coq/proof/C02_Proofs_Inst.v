(* C02 — concrete instances showing that the hypotheses of the C02 theorems are satisfiable:
   Gaussian rationals Q(i), 4 x 4 grid (lib/DFT_Inst.v), sN = 1/4 = 1/sqrt(16). *)
From Coq Require Import ZArith List Lia Ring QArith Qcanon.
From QV.lib Require Import Prelude FinSum DFT DFT2 DFT_Inst.
From QV.model Require Import C02_Model.
From QV.proof Require Import C02_Proofs_Index C02_Proofs_Forward.
Import ListNotations.
Local Close Scope Q_scope.
Local Open Scope Qc_scope.

Lemma C02i_setting :
  ring_theory c0 c1 cadd cmul csub copp eq /\ conj_ok cadd cmul cconj /\
  root_ok c0 c1 cadd cmul cconj 4 w4 quarter /\
  cmul quarter quarter = cmul quarter quarter /\ cconj quarter = quarter.
Proof.
  split; [exact C_ring|]. split; [exact C_conj_ok|]. split; [exact C_root_ok|]. split; [reflexivity|].
  unfold cconj, quarter. cbn [fst snd]. f_equal; try ring.
Qed.

Lemma quarter_conj : cconj quarter = quarter.
Proof. apply C02i_setting. Qed.

Lemma w4_unit a : cmul (w4 a) (cconj (w4 a)) = c1.
Proof.
  rewrite w4_conj, <- w4_add. replace (a + - a)%Z with 0%Z by lia. reflexivity.
Qed.

(* even 4 x 4 detector: shift by -N/2 = -2 on both axes, then fftshift = identity *)
Lemma C02i_centre (x : nat -> nat -> C) n1 n2 : (n1 < 4)%nat -> (n2 < 4)%nat ->
  fftshift2 4 4 (fmul2 c0 cadd cmul 4 w4 quarter 4 w4 quarter
                   (fun k1 k2 => cmul (w4 (Z.of_nat k1 * -2)) (w4 (Z.of_nat k2 * -2))) x) n1 n2 = x n1 n2.
Proof.
  intros H1 H2.
  apply (centre_then_fftshift_id C c0 c1 cadd cmul csub copp C_ring cconj C_conj_ok 4 w4 quarter 4 w4 quarter
           C_root_ok C_root_ok (-2) (-2) x n1 n2); try assumption; reflexivity.
Qed.

Lemma C02i_dc (x : nat -> nat -> C) :
  fftshift2 4 4 (dft2 c0 cadd cmul 4 w4 4 w4 x) 2 2 = sum2 c0 cadd 4 4 x.
Proof.
  exact (detector_dc_position C c0 c1 cadd cmul csub copp C_ring cconj C_conj_ok 4 w4 quarter 4 w4 quarter
           C_root_ok C_root_ok x).
Qed.

(* a two-slice pure-phase object on a 6 x 5 periodic grid, one propagator, two modes *)
Definition iobj (a b : Z) : Z -> Z -> C := fun r c => w4 (a * r + b * c).
Definition ikern (d : Z) : nat -> nat -> C := fun k1 k2 => w4 (d * (Z.of_nat k1 * Z.of_nat k1 + Z.of_nat k2 * Z.of_nat k2)).
Definition iramp (s : Z) : nat -> C := fun k => w4 (Z.of_nat k * s).

Lemma C02i_composition (P Q : nat -> nat -> C) k1 k2 :
  forward_code c0 cadd cmul cconj 4 w4 quarter 4 w4 quarter quarter
               (map (fun o => flatten o 5) [iobj 1 2; iobj 3 1]) 6 5 4 3 (iramp 1) (iramp 3) [ikern 1] [P; Q] k1 k2
  = forward_ref c0 cadd cmul cconj 4 w4 quarter 4 w4 quarter quarter
               [iobj 1 2; iobj 3 1] 6 5 4 3 (iramp 1) (iramp 3) [ikern 1] [P; Q] k1 k2.
Proof.
  apply (forward_is_composition C c0 c1 cadd cmul csub copp C_ring cconj C_conj_ok 4 w4 quarter 4 w4 quarter
           C_root_ok C_root_ok quarter); [lia | lia | reflexivity].
Qed.

Lemma C02i_normalisation (P Q : nat -> nat -> C) (c : C) :
  sum2 c0 cadd 4 4
    (forward_ref c0 cadd cmul cconj 4 w4 quarter 4 w4 quarter quarter
       [iobj 1 2; iobj 3 1] 6 5 4 3 (iramp 1) (iramp 3) [ikern 1] (scale_modes cmul c [P; Q]))
  = cmul (cmul c (cconj c)) (total_probe_intensity c0 cadd cmul cconj 4 4 [P; Q]).
Proof.
  apply (probe_normalisation C c0 c1 cadd cmul csub copp C_ring cconj C_conj_ok 4 w4 quarter 4 w4 quarter
           C_root_ok C_root_ok quarter).
  - reflexivity.
  - exact quarter_conj.
  - repeat constructor; intros i j _ _; unfold gather_window, iobj; apply w4_unit.
  - repeat constructor. intros i j _ _. unfold ikern. apply w4_unit.
  - intros i j _ _. unfold iramp.
    rewrite (conj_mul _ _ _ _ C_conj_ok).
    transitivity (cmul (cmul (w4 (Z.of_nat i * 1)) (cconj (w4 (Z.of_nat i * 1))))
                       (cmul (w4 (Z.of_nat j * 3)) (cconj (w4 (Z.of_nat j * 3))))).
    + pose proof C_ring as Rth. destruct Rth. clear - Rmul_comm Rmul_assoc.
      set (a := w4 (Z.of_nat i * 1)). set (b := w4 (Z.of_nat j * 3)). set (a' := cconj a). set (b' := cconj b).
      rewrite <- (Rmul_assoc a b (cmul a' b')). rewrite (Rmul_assoc b a' b'). rewrite (Rmul_comm b a').
      rewrite <- (Rmul_assoc a' b b'). rewrite (Rmul_assoc a a' (cmul b b')). reflexivity.
    + rewrite !w4_unit. reflexivity.
  - reflexivity.
Qed.
