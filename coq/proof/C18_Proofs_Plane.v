(* C18 — the PCA plane fit of CenterOfMassOriginModel.fit_origin_background: points that lie on
   a plane z = A x + B y + D give a covariance matrix whose kernel contains (A, B, -1); under
   the stated eigh contract the fitted surface is that plane. *)
From QV.lib Require Import Prelude Chunks C18_QTensor.
From QV.model Require Import C18_Model.
From QV.proof Require Import C18_Proofs.
From Coq Require Import QArith Qround Lqa.
Local Close Scope Q_scope.

(* ------------------------------------------------------------------ sums over point lists *)
Lemma Qn_S n : (Qn (S n) == Qn n + 1)%Q.
Proof. unfold Qn. rewrite Nat2Z.inj_succ, <- Z.add_1_r, inject_Z_plus. reflexivity. Qed.

Lemma sum_affine (A B D : Q) (l : list P3) :
  (sumQ (map (fun p => A * px p + B * py p + D) l)
   == A * sumQ (map px l) + B * sumQ (map py l) + Qn (length l) * D)%Q.
Proof.
  induction l as [|p l IH]; cbn [map sumQ length].
  - unfold Qn. cbn. ring.
  - rewrite IH, Qn_S. ring.
Qed.

Lemma mean_on_plane A B D pts :
  pts <> [] -> on_plane A B D pts ->
  (mean (map pz pts) == A * mean (map px pts) + B * mean (map py pts) + D)%Q.
Proof.
  intros Hne Hpl. unfold mean. rewrite !map_length.
  assert (Hs : (sumQ (map pz pts) == A * sumQ (map px pts) + B * sumQ (map py pts) + Qn (length pts) * D)%Q).
  { rewrite <- sum_affine. apply sumQ_map_ext_in. exact Hpl. }
  rewrite Hs. field. apply Qn_neq0. destruct pts; [congruence | cbn; lia].
Qed.

Lemma centered_length pts : length (centered pts) = length pts.
Proof. unfold centered. apply map_length. Qed.

Lemma centered_nonempty pts : pts <> [] -> centered pts <> [].
Proof. destruct pts; [congruence | discriminate]. Qed.

Lemma on_plane_centered A B D pts :
  pts <> [] -> on_plane A B D pts -> on_plane A B 0 (centered pts).
Proof.
  intros Hne Hpl p' Hin. unfold centered in Hin. apply in_map_iff in Hin.
  destruct Hin as [p [<- Hp]]. cbn [sub3 centroid px py pz].
  rewrite (Hpl p Hp), (mean_on_plane A B D pts Hne Hpl). ring.
Qed.

(* sum_i f_i x_i * A + sum_i f_i y_i * B - sum_i f_i z_i = sum_i f_i (A x_i + B y_i - z_i) *)
Lemma sum_comb (f : P3 -> Q) (A B : Q) (l : list P3) :
  (sumQ (map (fun p => f p * px p) l) * A + sumQ (map (fun p => f p * py p) l) * B
   + sumQ (map (fun p => f p * pz p) l) * (-1)
   == sumQ (map (fun p => f p * (A * px p + B * py p - pz p)) l))%Q.
Proof. induction l as [|p l IH]; cbn [map sumQ]; [ring | rewrite <- IH; ring]. Qed.

Lemma sum_comb_zero (f : P3 -> Q) (A B : Q) (l : list P3) :
  on_plane A B 0 l ->
  (sumQ (map (fun p => f p * px p) l) * A + sumQ (map (fun p => f p * py p) l) * B
   + sumQ (map (fun p => f p * pz p) l) * (-1) == 0)%Q.
Proof.
  intros Hpl. rewrite sum_comb. apply sumQ_map_zero. intros p Hp. rewrite (Hpl p Hp). ring.
Qed.

(* ------------------------------------------------------------------ kernel of the covariance *)
Lemma cov3_kernel A B q :
  q <> [] -> on_plane A B 0 q -> eq3 (matvec (cov3 q) (mk3 A B (-1))) zero3.
Proof.
  intros Hne Hpl.
  pose proof (on_plane_centered A B 0 q Hne Hpl) as Hr.
  unfold eq3, matvec, cov3, dot3. cbn [row1 row2 row3 px py pz zero3].
  set (r := centered q) in *. set (k := (Qn (length q) - 1)%Q).
  repeat split.
  - setoid_replace (sumQ (map (fun p => px p * px p) r) / k * A + sumQ (map (fun p => px p * py p) r) / k * B
                    + sumQ (map (fun p => px p * pz p) r) / k * -1)%Q
      with ((sumQ (map (fun p => px p * px p) r) * A + sumQ (map (fun p => px p * py p) r) * B
             + sumQ (map (fun p => px p * pz p) r) * (-1)) * / k)%Q by (unfold Qdiv; ring).
    rewrite (sum_comb_zero px A B r Hr). ring.
  - setoid_replace (sumQ (map (fun p => py p * px p) r) / k * A + sumQ (map (fun p => py p * py p) r) / k * B
                    + sumQ (map (fun p => py p * pz p) r) / k * -1)%Q
      with ((sumQ (map (fun p => py p * px p) r) * A + sumQ (map (fun p => py p * py p) r) * B
             + sumQ (map (fun p => py p * pz p) r) * (-1)) * / k)%Q by (unfold Qdiv; ring).
    rewrite (sum_comb_zero py A B r Hr). ring.
  - setoid_replace (sumQ (map (fun p => pz p * px p) r) / k * A + sumQ (map (fun p => pz p * py p) r) / k * B
                    + sumQ (map (fun p => pz p * pz p) r) / k * -1)%Q
      with ((sumQ (map (fun p => pz p * px p) r) * A + sumQ (map (fun p => pz p * py p) r) * B
             + sumQ (map (fun p => pz p * pz p) r) * (-1)) * / k)%Q by (unfold Qdiv; ring).
    rewrite (sum_comb_zero pz A B r Hr). ring.
Qed.

Lemma plane_normal_in_kernel A B D pts :
  pts <> [] -> on_plane A B D pts ->
  eq3 (matvec (plane_covariance pts) (mk3 A B (-1))) zero3.
Proof.
  intros Hne Hpl. unfold plane_covariance. apply cov3_kernel.
  - apply centered_nonempty. exact Hne.
  - apply (on_plane_centered A B D). exact Hne. exact Hpl.
Qed.

(* ------------------------------------------------------------------ positive semi-definite *)
Lemma quad_sum (v : P3) (l : list P3) :
  (px v * (sumQ (map (fun p => px p * px p) l) * px v + sumQ (map (fun p => px p * py p) l) * py v
           + sumQ (map (fun p => px p * pz p) l) * pz v)
   + py v * (sumQ (map (fun p => py p * px p) l) * px v + sumQ (map (fun p => py p * py p) l) * py v
             + sumQ (map (fun p => py p * pz p) l) * pz v)
   + pz v * (sumQ (map (fun p => pz p * px p) l) * px v + sumQ (map (fun p => pz p * py p) l) * py v
             + sumQ (map (fun p => pz p * pz p) l) * pz v)
   == sumQ (map (fun p => dot3 p v * dot3 p v) l))%Q.
Proof.
  induction l as [|p l IH]; cbn [map sumQ]; [ring|]. rewrite <- IH. unfold dot3. ring.
Qed.

Lemma quad_cov3 (v : P3) (q : list P3) :
  (dot3 v (matvec (cov3 q) v)
   == sumQ (map (fun p => dot3 p v * dot3 p v) (centered q)) * / (Qn (length q) - 1))%Q.
Proof.
  rewrite <- quad_sum. unfold matvec, cov3, dot3. cbn [row1 row2 row3 px py pz].
  unfold Qdiv. ring.
Qed.

Lemma sq_pos (x : Q) : ~ (x == 0)%Q -> (0 < x * x)%Q.
Proof. intros Hx. destruct (Q_dec x 0) as [[Hlt|Hgt]|Heq]; [nra | nra | contradiction]. Qed.

Lemma dot3_self_pos v : ~ eq3 v zero3 -> (0 < dot3 v v)%Q.
Proof.
  intros Hv. unfold dot3.
  pose proof (Qsq_nonneg (px v)). pose proof (Qsq_nonneg (py v)). pose proof (Qsq_nonneg (pz v)).
  destruct (Qeq_dec (px v) 0) as [Hx|Hx]; [| pose proof (sq_pos _ Hx); lra].
  destruct (Qeq_dec (py v) 0) as [Hy|Hy]; [| pose proof (sq_pos _ Hy); lra].
  destruct (Qeq_dec (pz v) 0) as [Hz|Hz]; [| pose proof (sq_pos _ Hz); lra].
  exfalso. apply Hv. unfold eq3, zero3. cbn [px py pz]. auto.
Qed.

Lemma dot3_eigen M v mu : eq3 (matvec M v) (scale3 mu v) -> (dot3 v (matvec M v) == mu * dot3 v v)%Q.
Proof.
  intros [Hx [Hy Hz]]. unfold dot3 at 1. rewrite Hx, Hy, Hz. unfold dot3, scale3. cbn [px py pz]. ring.
Qed.

(* every eigenvalue of a sample covariance matrix (N >= 2) is non-negative *)
Lemma cov3_eigen_nonneg q mu v :
  2 <= length q -> ~ eq3 v zero3 -> eq3 (matvec (cov3 q) v) (scale3 mu v) -> (0 <= mu)%Q.
Proof.
  intros HN Hv Heig.
  pose proof (dot3_eigen _ _ _ Heig) as Hq. rewrite quad_cov3 in Hq.
  pose proof (dot3_self_pos v Hv) as Hpos.
  assert (Hs : (0 <= sumQ (map (fun p => dot3 p v * dot3 p v) (centered q)))%Q)
    by (apply sumQ_nonneg; intros p _; apply Qsq_nonneg).
  assert (Hk : (0 < / (Qn (length q) - 1))%Q) by (apply Qinv_lt_0_compat, nm1_pos; exact HN).
  assert (Hprod : (0 <= mu * dot3 v v)%Q).
  { rewrite <- Hq. apply Qmult_le_0_compat; lra. }
  destruct (Qlt_le_dec mu 0) as [Hneg|Hok]; [| exact Hok].
  exfalso. nra.
Qed.

(* ------------------------------------------------------------------ the fit *)
Lemma two_by_two (al be u v u' v' : Q) :
  (al * u + be * v == 0)%Q -> (al * u' + be * v' == 0)%Q -> ~ (u * v' - u' * v == 0)%Q ->
  (al == 0)%Q /\ (be == 0)%Q.
Proof.
  intros H1 H2 Hdet.
  assert (Ha : (al * (u * v' - u' * v) == 0)%Q).
  { setoid_replace (al * (u * v' - u' * v))%Q with (v' * (al * u + be * v) - v * (al * u' + be * v'))%Q by ring.
    rewrite H1, H2. ring. }
  assert (Hb : (be * (u * v' - u' * v) == 0)%Q).
  { setoid_replace (be * (u * v' - u' * v))%Q with (u * (al * u' + be * v') - u' * (al * u + be * v))%Q by ring.
    rewrite H1, H2. ring. }
  split.
  - destruct (Qmult_integral _ _ Ha); [assumption | contradiction].
  - destruct (Qmult_integral _ _ Hb); [assumption | contradiction].
Qed.

Lemma noncollinear_two pts : noncollinear pts -> 2 <= length pts.
Proof.
  intros [o [p [q [Ho [Hp [Hq Hdet]]]]]].
  destruct pts as [|x [|y l]]; [contradiction | | cbn; lia].
  exfalso. destruct Ho as [<-|[]], Hp as [<-|[]], Hq as [<-|[]]. apply Hdet. ring.
Qed.

Lemma plane_fit_exact A B D pts lam n :
  on_plane A B D pts -> noncollinear pts ->
  eigh_min_contract (plane_covariance pts) lam n ->
  forall p, In p pts -> (plane_fitted pts n (px p) (py p) == pz p)%Q.
Proof.
  intros Hpl Hnc [Heig [Hn0 Hmin]] p0 Hp0.
  pose proof (noncollinear_two pts Hnc) as HN.
  assert (Hne : pts <> []) by (destruct pts; [cbn in HN; lia | discriminate]).
  set (q := centered pts) in *.
  assert (Hq2 : 2 <= length q) by (unfold q; rewrite centered_length; exact HN).
  assert (Hqne : q <> []) by (apply centered_nonempty; exact Hne).
  assert (Hqpl : on_plane A B 0 q) by (apply (on_plane_centered A B D); assumption).
  (* the smallest eigenvalue is 0 *)
  assert (Hlam0 : (lam <= 0)%Q).
  { apply (Hmin 0%Q (mk3 A B (-1))).
    - intros [_ [_ Hz]]. cbn in Hz. discriminate Hz.
    - pose proof (plane_normal_in_kernel A B D pts Hne Hpl) as [Kx [Ky Kz]].
      unfold eq3, scale3, zero3 in *. cbn [px py pz] in *. rewrite Kx, Ky, Kz. repeat split; ring. }
  assert (Hlam1 : (0 <= lam)%Q) by (apply (cov3_eigen_nonneg q lam n); assumption).
  assert (Hlam : (lam == 0)%Q) by lra.
  (* hence every (twice) centred point is orthogonal to n *)
  pose proof (dot3_eigen _ _ _ Heig) as Hquad. unfold plane_covariance in Hquad. fold q in Hquad.
  rewrite quad_cov3, Hlam in Hquad.
  set (r := centered q) in *.
  assert (Hk : (0 < Qn (length q) - 1)%Q) by (apply nm1_pos; exact Hq2).
  assert (Hsum : (sumQ (map (fun p => dot3 p n * dot3 p n) r) == 0)%Q).
  { assert (E : (sumQ (map (fun p => dot3 p n * dot3 p n) r)
                 == (sumQ (map (fun p => dot3 p n * dot3 p n) r) * / (Qn (length q) - 1)) * (Qn (length q) - 1))%Q)
      by (field; lra).
    rewrite E, Hquad. ring. }
  assert (Horth : forall p, In p r -> (dot3 p n == 0)%Q).
  { intros p Hp. apply Qsq_zero.
    apply (sumQ_nonneg_zero (fun p => dot3 p n * dot3 p n)%Q r).
    - intros p' _. apply Qsq_nonneg.
    - rewrite Hsum. apply Qle_refl.
    - exact Hp. }
  pose proof (on_plane_centered A B 0 q Hqne Hqpl) as Hrpl. fold r in Hrpl.
  set (al := (px n + pz n * A)%Q). set (be := (py n + pz n * B)%Q).
  assert (Hlin : forall p, In p r -> (al * px p + be * py p == 0)%Q).
  { intros p Hp. pose proof (Horth p Hp) as Ho. unfold dot3 in Ho.
    rewrite (Hrpl p Hp) in Ho. unfold al, be. rewrite <- Ho. ring. }
  (* the twice-centred image of a point of pts *)
  set (c1 := centroid pts). set (c2 := centroid q).
  assert (Hin_r : forall p, In p pts -> In (sub3 (sub3 p c1) c2) r).
  { intros p Hp. unfold r, centered at 1. apply in_map_iff. exists (sub3 p c1). split; [reflexivity|].
    unfold q, centered. apply in_map_iff. exists p. split; [reflexivity | exact Hp]. }
  destruct Hnc as [o [p [q' [Ho [Hp [Hq' Hdet]]]]]].
  pose proof (Hlin _ (Hin_r o Ho)) as Lo. pose proof (Hlin _ (Hin_r p Hp)) as Lp.
  pose proof (Hlin _ (Hin_r q' Hq')) as Lq. cbn [sub3 px py pz] in Lo, Lp, Lq.
  assert (E1 : (al * (px p - px o) + be * (py p - py o) == 0)%Q).
  { setoid_replace (al * (px p - px o) + be * (py p - py o))%Q
      with ((al * (px p - px c1 - px c2) + be * (py p - py c1 - py c2))
            - (al * (px o - px c1 - px c2) + be * (py o - py c1 - py c2)))%Q by ring.
    rewrite Lp, Lo. ring. }
  assert (E2 : (al * (px q' - px o) + be * (py q' - py o) == 0)%Q).
  { setoid_replace (al * (px q' - px o) + be * (py q' - py o))%Q
      with ((al * (px q' - px c1 - px c2) + be * (py q' - py c1 - py c2))
            - (al * (px o - px c1 - px c2) + be * (py o - py c1 - py c2)))%Q by ring.
    rewrite Lq, Lo. ring. }
  destruct (two_by_two al be _ _ _ _ E1 E2 Hdet) as [Hal Hbe].
  assert (Hc : ~ (pz n == 0)%Q).
  { intros Hz. apply Hn0. unfold eq3, zero3. cbn [px py pz]. unfold al, be in Hal, Hbe.
    assert (HzA : (pz n * A == 0)%Q) by (rewrite Hz; ring).
    assert (HzB : (pz n * B == 0)%Q) by (rewrite Hz; ring).
    repeat split; [lra | lra | exact Hz]. }
  assert (Ha : (px n == - (pz n * A))%Q) by (unfold al in Hal; lra).
  assert (Hb : (py n == - (pz n * B))%Q) by (unfold be in Hbe; lra).
  unfold plane_fitted, dot3. cbn [centroid px py pz].
  rewrite (mean_on_plane A B D pts Hne Hpl), (Hpl p0 Hp0), Ha, Hb.
  field. exact Hc.
Qed.

(* ------------------------------------------------------------------ the contract is satisfiable *)
(* z = 3/4 x + 1 on a 2 x 2 scan: the unit eigenvector (3/5, 0, -4/5) of eigenvalue 0 *)
Definition ex_pts : list P3 :=
  [mk3 0 0 1; mk3 0 1 1; mk3 1 0 (7 # 4); mk3 1 1 (7 # 4)].
Definition ex_normal : P3 := mk3 (3 # 5) 0 (- (4 # 5)).

Lemma ex_contract : eigh_min_contract (plane_covariance ex_pts) 0 ex_normal.
Proof.
  unfold eigh_min_contract. split; [|split].
  - unfold eq3. split; [|split]; vm_compute; reflexivity.
  - intros [Hx _]. vm_compute in Hx. discriminate Hx.
  - intros mu v Hv Heig. apply (cov3_eigen_nonneg (centered ex_pts) mu v); [cbn; lia | exact Hv | exact Heig].
Qed.

Lemma ex_on_plane : on_plane (3 # 4) 0 1 ex_pts.
Proof.
  intros p Hp. cbn in Hp. destruct Hp as [<-|[<-|[<-|[<-|[]]]]]; vm_compute; reflexivity.
Qed.

Lemma ex_noncollinear : noncollinear ex_pts.
Proof.
  exists (mk3 0 0 1), (mk3 0 1 1), (mk3 1 0 (7 # 4)). cbn. repeat split; auto.
  intros Hd. vm_compute in Hd. discriminate Hd.
Qed.
