(* C18 — proofs about the centre-of-mass paths, the constant fit and the least-squares fit.
   (Plane fit: C18_Proofs_Plane.v; periodic shift: C18_Proofs_Shift.v.) *)
From QV.lib Require Import Prelude Chunks C18_QTensor.
From QV.model Require Import C18_Model.
From Coq Require Import QArith Qround Lqa.
Local Close Scope Q_scope.

(* ------------------------------------------------------------------ small list facts *)
Lemma nth_map_seq {A : Type} (f : nat -> A) (d : A) (n i : nat) :
  i < n -> nth i (map f (seq 0 n)) d = f i.
Proof.
  intros Hi. rewrite (nth_indep _ d (f 0)) by (rewrite map_length, seq_length; exact Hi).
  rewrite (map_nth f). rewrite seq_nth by exact Hi. reflexivity.
Qed.

Lemma nth_repeat' {A : Type} (x d : A) (n i : nat) : i < n -> nth i (repeat x n) d = x.
Proof.
  revert i. induction n as [|n IH]; intros i Hi; [lia|].
  destruct i as [|i]; [reflexivity|]. cbn [repeat nth]. apply IH. lia.
Qed.

Lemma fold_left_ext {A X : Type} (f g : A -> X -> A) (l : list X) (a : A) :
  (forall a x, f a x = g a x) -> fold_left f l a = fold_left g l a.
Proof.
  intros Hfg. revert a. induction l as [|x l IH]; intros a; cbn [fold_left]; [reflexivity|].
  rewrite Hfg. apply IH.
Qed.

Lemma map2_map2_same {A B C D : Type} (h : B -> C -> D) (f : A -> B) (g : A -> C)
      (l : list (list A)) :
  map2 (map2 h) (map (map f) l) (map (map g) l) = map (map (fun x => h (f x) (g x))) l.
Proof.
  induction l as [|x l IH]; cbn [map map2]; [reflexivity|].
  rewrite map2_map_same, IH. reflexivity.
Qed.

Lemma map_map_2d {A B C : Type} (f : A -> B) (g : B -> C) (l : list (list A)) :
  map (map g) (map (map f) l) = map (map (fun x => g (f x))) l.
Proof.
  rewrite map_map. apply map_ext. intros row. apply map_map.
Qed.

(* a loop nest over range(Rn) x range(Cn) that assigns F(I4[Rr][Rc]) to cell (Rr, Rc) *)
Lemma loop_nest_eq_map {A B : Type} (F : A -> B) (d : A) (Rn Cn : nat) (I4 : list (list A)) :
  length I4 = Rn -> Forall (fun row => length row = Cn) I4 ->
  map (fun Rr => map (fun Rc => F (nth Rc (nth Rr I4 []) d)) (seq 0 Cn)) (seq 0 Rn)
  = map (map F) I4.
Proof.
  intros HR HC. subst Rn.
  rewrite <- (map_f_nth_seq (map F) [] I4).
  apply map_ext_in. intros Rr Hin. apply in_seq in Hin.
  assert (Hlen : length (nth Rr I4 []) = Cn).
  { rewrite Forall_forall in HC. apply HC. apply nth_In. lia. }
  rewrite <- Hlen. apply map_f_nth_seq.
Qed.

(* ------------------------------------------------------------------ coordinate grids *)
Lemma wf_mesh_r H W : wf_mat H W (mesh_r H W).
Proof.
  split; unfold mesh_r.
  - rewrite map_length, seq_length. reflexivity.
  - apply Forall_forall. intros row Hin. apply in_map_iff in Hin. destruct Hin as [r [<- _]].
    apply repeat_length.
Qed.

Lemma wf_mesh_c H W : wf_mat H W (mesh_c H W).
Proof.
  split; unfold mesh_c.
  - apply repeat_length.
  - apply Forall_forall. intros row Hin. apply repeat_spec in Hin. subst row.
    rewrite map_length, seq_length. reflexivity.
Qed.

Lemma get_mesh_r H W r c : r < H -> c < W -> get (mesh_r H W) r c = Qn r.
Proof.
  intros Hr Hc. unfold get, mesh_r. rewrite nth_map_seq by exact Hr. apply nth_repeat'. exact Hc.
Qed.

Lemma get_mesh_c H W r c : r < H -> c < W -> get (mesh_c H W) r c = Qn c.
Proof.
  intros Hr Hc. unfold get, mesh_c. rewrite nth_repeat' by exact Hr. apply nth_map_seq. exact Hc.
Qed.

Lemma moment_r_spec H W I :
  wf_mat H W I -> (moment_r H W I == dsum H W (fun r c => Qn r * get I r c))%Q.
Proof.
  intros Hwf. unfold moment_r. rewrite (sum2_mul2 H W I (mesh_r H W) Hwf (wf_mesh_r H W)).
  apply dsum_ext. intros r c Hr Hc. rewrite get_mesh_r by assumption. ring.
Qed.

Lemma moment_c_spec H W I :
  wf_mat H W I -> (moment_c H W I == dsum H W (fun r c => Qn c * get I r c))%Q.
Proof.
  intros Hwf. unfold moment_c. rewrite (sum2_mul2 H W I (mesh_c H W) Hwf (wf_mesh_c H W)).
  apply dsum_ext. intros r c Hr Hc. rewrite get_mesh_c by assumption. ring.
Qed.

(* ------------------------------------------------------------------ CoM = weighted mean *)
Lemma com_is_weighted_mean H W I :
  wf_mat H W I -> peq (com_weighted H W I) (wmean H W (get I)).
Proof.
  intros Hwf. unfold peq, com_weighted, wmean. cbn [fst snd].
  rewrite (moment_r_spec H W I Hwf), (moment_c_spec H W I Hwf), (sum2_dsum H W I Hwf).
  split; reflexivity.
Qed.

Lemma com_masked_is_weighted_mean H W I m :
  wf_mat H W I -> wf_mat H W m ->
  peq (com_weighted H W (apply_mask (Some m) I)) (wmean H W (fun r c => get I r c * get m r c)%Q).
Proof.
  intros HI Hm. cbn [apply_mask].
  pose proof (com_is_weighted_mean H W (mul2 I m) (wf_mul2 H W I m HI Hm)) as [H0 H1].
  unfold peq, wmean in *. cbn [fst snd] in *.
  assert (E0 : (dsum H W (get (mul2 I m)) == dsum H W (fun r c => get I r c * get m r c))%Q).
  { apply dsum_ext. intros r c Hr Hc. rewrite (get_mul2 H W I m r c HI Hm Hr Hc). reflexivity. }
  assert (Er : (dsum H W (fun r c => Qn r * get (mul2 I m) r c)
                == dsum H W (fun r c => Qn r * (get I r c * get m r c)))%Q).
  { apply dsum_ext. intros r c Hr Hc. rewrite (get_mul2 H W I m r c HI Hm Hr Hc). reflexivity. }
  assert (Ec : (dsum H W (fun r c => Qn c * get (mul2 I m) r c)
                == dsum H W (fun r c => Qn c * (get I r c * get m r c)))%Q).
  { apply dsum_ext. intros r c Hr Hc. rewrite (get_mul2 H W I m r c HI Hm Hr Hc). reflexivity. }
  rewrite H0, H1, E0, Er, Ec. split; reflexivity.
Qed.

(* the weighted mean of non-negative weights with positive total lies inside the detector *)
Lemma dsum_nonneg H W f :
  (forall r c, r < H -> c < W -> (0 <= f r c)%Q) -> (0 <= dsum H W f)%Q.
Proof.
  intros Hf. unfold dsum. apply sumQ_nonneg. intros r Hr. apply in_seq in Hr.
  apply sumQ_nonneg. intros c Hc. apply in_seq in Hc. apply Hf; lia.
Qed.

Lemma dsum_plus H W f g : (dsum H W (fun r c => f r c + g r c) == dsum H W f + dsum H W g)%Q.
Proof.
  unfold dsum. rewrite <- sumQ_map_plus. apply sumQ_map_ext_in. intros r _.
  apply sumQ_map_plus.
Qed.

Lemma dsum_scale H W k f : (dsum H W (fun r c => k * f r c) == k * dsum H W f)%Q.
Proof.
  unfold dsum. rewrite <- sumQ_map_scale. apply sumQ_map_ext_in. intros r _.
  apply sumQ_map_scale.
Qed.

Lemma Qn_lt_le r H : r < H -> (Qn r <= Qn H - 1)%Q.
Proof.
  intros Hr. unfold Qn.
  assert (E : (inject_Z (Z.of_nat H) - 1 == inject_Z (Z.of_nat H - 1))%Q).
  { unfold Zminus. rewrite inject_Z_plus, inject_Z_opp. reflexivity. }
  rewrite E, <- Zle_Qle. lia.
Qed.

Lemma wmean_in_range H W w :
  (forall r c, r < H -> c < W -> (0 <= w r c)%Q) -> (0 < dsum H W w)%Q ->
  (0 <= fst (wmean H W w) <= Qn H - 1)%Q /\ (0 <= snd (wmean H W w) <= Qn W - 1)%Q.
Proof.
  intros Hw Hs. unfold wmean. cbn [fst snd].
  assert (Hr0 : (0 <= dsum H W (fun r c => Qn r * w r c))%Q).
  { apply dsum_nonneg. intros r c Hr Hc. apply Qmult_le_0_compat; [apply Qn_nonneg | apply Hw; assumption]. }
  assert (Hc0 : (0 <= dsum H W (fun r c => Qn c * w r c))%Q).
  { apply dsum_nonneg. intros r c Hr Hc. apply Qmult_le_0_compat; [apply Qn_nonneg | apply Hw; assumption]. }
  assert (Hr1 : (0 <= dsum H W (fun r c => (Qn H - 1 - Qn r) * w r c))%Q).
  { apply dsum_nonneg. intros r c Hr Hc. apply Qmult_le_0_compat; [| apply Hw; assumption].
    pose proof (Qn_lt_le r H Hr). lra. }
  assert (Hc1 : (0 <= dsum H W (fun r c => (Qn W - 1 - Qn c) * w r c))%Q).
  { apply dsum_nonneg. intros r c Hr Hc. apply Qmult_le_0_compat; [| apply Hw; assumption].
    pose proof (Qn_lt_le c W Hc). lra. }
  assert (Er : (dsum H W (fun r c => (Qn H - 1 - Qn r) * w r c)
                == (Qn H - 1) * dsum H W w - dsum H W (fun r c => Qn r * w r c))%Q).
  { rewrite <- (dsum_scale H W (Qn H - 1) w).
    assert (E : (dsum H W (fun r c => (Qn H - 1) * w r c)
                 == dsum H W (fun r c => (Qn H - 1 - Qn r) * w r c + Qn r * w r c))%Q)
      by (apply dsum_ext; intros; ring).
    rewrite E, dsum_plus. ring. }
  assert (Ec : (dsum H W (fun r c => (Qn W - 1 - Qn c) * w r c)
                == (Qn W - 1) * dsum H W w - dsum H W (fun r c => Qn c * w r c))%Q).
  { rewrite <- (dsum_scale H W (Qn W - 1) w).
    assert (E : (dsum H W (fun r c => (Qn W - 1) * w r c)
                 == dsum H W (fun r c => (Qn W - 1 - Qn c) * w r c + Qn c * w r c))%Q)
      by (apply dsum_ext; intros; ring).
    rewrite E, dsum_plus. ring. }
  rewrite Er in Hr1. rewrite Ec in Hc1.
  set (S := dsum H W w) in *.
  set (Mr := dsum H W (fun r c => Qn r * w r c)%Q) in *.
  set (Mc := dsum H W (fun r c => Qn c * w r c)%Q) in *.
  repeat split.
  - apply Qle_shift_div_l; [exact Hs | lra].
  - apply Qle_shift_div_r; [exact Hs | lra].
  - apply Qle_shift_div_l; [exact Hs | lra].
  - apply Qle_shift_div_r; [exact Hs | lra].
Qed.

(* ------------------------------------------------------------------ batched torch path *)
Lemma batch_col0_eq H W pats idx :
  map Some (batch_col0 H W pats idx)
  = map (fun i => Some (fst (com_weighted H W (nth i pats [])))) idx.
Proof.
  unfold batch_col0, gather. rewrite !map_map, map2_map_same, map_map. reflexivity.
Qed.

Lemma batch_col1_eq H W pats idx :
  map Some (batch_col1 H W pats idx)
  = map (fun i => Some (snd (com_weighted H W (nth i pats [])))) idx.
Proof.
  unfold batch_col1, gather. rewrite !map_map, map2_map_same, map_map. reflexivity.
Qed.

Lemma scatter_batches {A : Type} (F : nat -> option A) (b n : nat) :
  1 <= b ->
  fold_left (fun a idx => scatter idx (map F idx) a) (chunks b (seq 0 n)) (repeat None n)
  = map F (seq 0 n).
Proof.
  intros Hb. rewrite fold_scatter, chunks_concat by exact Hb.
  pose proof (scatter_seq F (repeat None n)) as Hs. rewrite repeat_length in Hs. exact Hs.
Qed.

Lemma calculate_origin_eq b H W pats :
  1 <= b ->
  calculate_origin b H W pats
  = (map (fun I => Some (fst (com_weighted H W I))) pats,
     map (fun I => Some (snd (com_weighted H W I))) pats).
Proof.
  intros Hb. unfold calculate_origin.
  rewrite (fold_left_pair
             (fun a idx => scatter idx (map Some (batch_col0 H W pats idx)) a)
             (fun a idx => scatter idx (map Some (batch_col1 H W pats idx)) a)).
  f_equal.
  - rewrite (fold_left_ext _
               (fun a idx => scatter idx (map (fun i => Some (fst (com_weighted H W (nth i pats [])))) idx) a))
      by (intros a idx; rewrite batch_col0_eq; reflexivity).
    rewrite scatter_batches by exact Hb.
    apply (map_f_nth_seq (fun I => Some (fst (com_weighted H W I))) [] pats).
  - rewrite (fold_left_ext _
               (fun a idx => scatter idx (map (fun i => Some (snd (com_weighted H W (nth i pats [])))) idx) a))
      by (intros a idx; rewrite batch_col1_eq; reflexivity).
    rewrite scatter_batches by exact Hb.
    apply (map_f_nth_seq (fun I => Some (snd (com_weighted H W I))) [] pats).
Qed.

(* every batch size gives the same origins, and each origin is the weighted mean *)
Lemma com_batch_invariant b b' H W pats :
  1 <= b -> 1 <= b' -> calculate_origin b H W pats = calculate_origin b' H W pats.
Proof. intros Hb Hb'. rewrite !calculate_origin_eq by assumption. reflexivity. Qed.

Lemma com_batched_is_weighted_mean b H W pats i I :
  1 <= b -> Forall (wf_mat H W) pats -> nth_error pats i = Some I ->
  exists q0 q1,
    nth_error (fst (calculate_origin b H W pats)) i = Some (Some q0) /\
    nth_error (snd (calculate_origin b H W pats)) i = Some (Some q1) /\
    peq (q0, q1) (wmean H W (get I)).
Proof.
  intros Hb Hwf Hi. rewrite calculate_origin_eq by exact Hb. cbn [fst snd].
  exists (fst (com_weighted H W I)), (snd (com_weighted H W I)).
  rewrite !nth_error_map, Hi. cbn [option_map]. repeat split.
  - apply com_is_weighted_mean. rewrite Forall_forall in Hwf. apply Hwf.
    eapply nth_error_In. exact Hi.
  - apply com_is_weighted_mean. rewrite Forall_forall in Hwf. apply Hwf.
    eapply nth_error_In. exact Hi.
Qed.

(* ------------------------------------------------------------------ numpy paths *)
Lemma com_vectorised_eq H W mask I4 :
  com_vectorised H W mask I4
  = (map (map (fun I => fst (com_weighted H W (apply_mask mask I)))) I4,
     map (map (fun I => snd (com_weighted H W (apply_mask mask I)))) I4).
Proof.
  unfold com_vectorised. rewrite !map2_map2_same, !map_map_2d. reflexivity.
Qed.

Lemma com_looped_eq Rn Cn H W mask I4 :
  wf_scan Rn Cn I4 ->
  com_looped Rn Cn H W mask I4
  = (map (map (fun I => fst (com_weighted H W (apply_mask mask I)))) I4,
     map (map (fun I => snd (com_weighted H W (apply_mask mask I)))) I4).
Proof.
  intros [HR HC]. unfold com_looped. f_equal.
  - apply (loop_nest_eq_map (fun I => fst (com_weighted H W (apply_mask mask I))) [] Rn Cn I4 HR HC).
  - apply (loop_nest_eq_map (fun I => snd (com_weighted H W (apply_mask mask I))) [] Rn Cn I4 HR HC).
Qed.

Lemma com_vectorised_eq_looped Rn Cn H W mask I4 :
  wf_scan Rn Cn I4 -> com_looped Rn Cn H W mask I4 = com_vectorised H W mask I4.
Proof. intros Hwf. rewrite com_looped_eq by exact Hwf. rewrite com_vectorised_eq. reflexivity. Qed.

(* the code as currently written (kcm -> row, krm -> column) is NOT path independent *)
Lemma com_looped_unrepaired_differs :
  exists I4, wf_scan 1 1 I4 /\ Forall (Forall (wf_mat 2 3)) I4 /\
    ~ meq (fst (com_looped_unrepaired 1 1 2 3 None I4)) (fst (com_vectorised 2 3 None I4)).
Proof.
  exists [[zmat [[1; 1; 1]; [1; 1; 4]]%Z]]. repeat split.
  - repeat constructor.
  - repeat constructor.
  - intros Hm. inversion Hm as [|? ? ? ? Hrow _]; subst. inversion Hrow as [|? ? ? ? Hq _]; subst.
    vm_compute in Hq. discriminate Hq.
Qed.

(* ------------------------------------------------------------------ both implementations *)
Lemma com_models_agree b H W I4 :
  1 <= b ->
  calculate_origin b H W (concat I4)
  = (map Some (concat (fst (com_vectorised H W None I4))),
     map Some (concat (snd (com_vectorised H W None I4)))).
Proof.
  intros Hb. rewrite calculate_origin_eq by exact Hb. rewrite com_vectorised_eq. cbn [fst snd apply_mask].
  rewrite <- !concat_map, !map_map. reflexivity.
Qed.

(* ------------------------------------------------------------------ constant fit *)
Lemma nm1_pos n : 2 <= n -> (0 < Qn n - 1)%Q.
Proof.
  intros Hn. unfold Qn. assert (H1 : (inject_Z 2 <= inject_Z (Z.of_nat n))%Q) by (rewrite <- Zle_Qle; lia).
  change (inject_Z 2) with 2%Q in H1. lra.
Qed.

Lemma Qn_neq0 n : 1 <= n -> ~ (Qn n == 0)%Q.
Proof. intros Hn Hz. pose proof (Qn_pos n Hn). lra. Qed.

Lemma mean_const (k : Q) (l : list Q) :
  l <> [] -> (forall x, In x l -> (x == k)%Q) -> (mean l == k)%Q.
Proof.
  intros Hne Hk. unfold mean.
  assert (Hs : (sumQ l == Qn (length l) * k)%Q).
  { rewrite <- (map_id l) at 1. rewrite <- sumQ_map_const.
    apply sumQ_map_ext_in. exact Hk. }
  rewrite Hs. field. apply Qn_neq0. destruct l; [congruence | cbn; lia].
Qed.

Lemma const_fit_exact (k0 k1 : Q) (o0 o1 : list Q) :
  o0 <> [] -> o1 <> [] ->
  (forall x, In x o0 -> (x == k0)%Q) -> (forall x, In x o1 -> (x == k1)%Q) ->
  peq (fit_constant_origin o0 o1) (k0, k1).
Proof.
  intros H0 H1 Hk0 Hk1. split; cbn [fst snd fit_constant_origin]; apply mean_const; assumption.
Qed.

Lemma fit_origin_constant_exact (k : Q) (g : list (list Q)) :
  concat g <> [] -> (forall row x, In row g -> In x row -> (x == k)%Q) ->
  forall row x, In row (fit_origin_constant g) -> In x row -> (x == k)%Q.
Proof.
  intros Hne Hk row x Hrow Hx. unfold fit_origin_constant in Hrow.
  apply in_map_iff in Hrow. destruct Hrow as [row0 [<- Hr0]].
  apply in_map_iff in Hx. destruct Hx as [x0 [<- _]].
  rewrite (mean_const k (concat g) Hne).
  - ring.
  - intros y Hy. apply in_concat in Hy. destruct Hy as [r [Hr Hyr]]. eapply Hk; eassumption.
Qed.

(* the constant fit is the arithmetic mean whatever the data (used by the correspondence) *)
Lemma fit_origin_constant_shape g : map (@length Q) (fit_origin_constant g) = map (@length Q) g.
Proof.
  unfold fit_origin_constant. rewrite map_map. apply map_ext. intros row. apply map_length.
Qed.

(* ------------------------------------------------------------------ least-squares fit *)
Lemma Qsq_nonneg (x : Q) : (0 <= x * x)%Q.
Proof. nra. Qed.

Lemma Qsq_zero (x : Q) : (x * x == 0)%Q -> (x == 0)%Q.
Proof. intros Hx. destruct (Qmult_integral _ _ Hx); assumption. Qed.

Lemma lsq_fit_exact {P : Type} (f : P -> nat -> nat -> Q) (Rn Cn : nat) (data : list (list Q)) (p0 p : P) :
  (forall r c, r < Rn -> c < Cn -> (f p0 r c == get data r c)%Q) ->
  (forall q, (sse f Rn Cn data p <= sse f Rn Cn data q)%Q) ->
  forall r c, r < Rn -> c < Cn -> (f p r c == get data r c)%Q.
Proof.
  intros H0 Hmin r c Hr Hc.
  assert (Hz : (sse f Rn Cn data p0 == 0)%Q).
  { unfold sse, dsum. apply sumQ_map_zero. intros r' Hr'. apply in_seq in Hr'.
    apply sumQ_map_zero. intros c' Hc'. apply in_seq in Hc'.
    rewrite H0 by lia. ring. }
  pose proof (Hmin p0) as Hle. rewrite Hz in Hle.
  unfold sse, dsum in Hle.
  assert (Hrow : (sumQ (map (fun c0 => (f p r c0 - get data r c0) * (f p r c0 - get data r c0)) (seq 0 Cn)) == 0)%Q).
  { apply (sumQ_nonneg_zero
             (fun r0 => sumQ (map (fun c0 => (f p r0 c0 - get data r0 c0) * (f p r0 c0 - get data r0 c0)) (seq 0 Cn)))%Q
             (seq 0 Rn)).
    - intros r' _. apply sumQ_nonneg. intros c' _. apply Qsq_nonneg.
    - exact Hle.
    - apply in_seq. lia. }
  assert (Hsq : ((f p r c - get data r c) * (f p r c - get data r c) == 0)%Q).
  { apply (sumQ_nonneg_zero (fun c0 => (f p r c0 - get data r c0) * (f p r c0 - get data r c0))%Q (seq 0 Cn)).
    - intros c' _. apply Qsq_nonneg.
    - rewrite Hrow. apply Qle_refl.
    - apply in_seq. lia. }
  apply Qsq_zero in Hsq. lra.
Qed.
