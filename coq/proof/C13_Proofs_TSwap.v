(* C13 — the torch estimator with upsample_factor > 2 under a swap of the two images (round 3).
   upsampled_correlation_torch uses a window of W = ceil(1.5 up) samples whose "centre" is index
   gs = floor(W / 2): sample a sits at xs + (a - gs)/up.  For odd W (up = 2, 3 mod 4) the window is
   symmetric about gs; for even W (up = 0, 1 mod 4) it covers offsets -gs .. gs-1.  Moreover the
   rounding of the half-pixel estimate to the upsampled grid, round_he (h up) / up, is odd but
   commutes only with EVEN integer translations, so for odd size * factor the two calls may centre
   their windows one upsampled pixel apart (e = +-1 below).
   What holds exactly:
     torch_swap_upsampled            both window maxima interior (3 x 3 patch available) and the two
                                     crosses around them mirror images  ->  results negated (mod size)
     torch_swap_negates_symmetric    odd W and even size * factor: negated for EVERY unique window
                                     maximum (edge fallback included), as for the NumPy estimator
     torch_swap_even_window_edge     even W: a maximum on the window border is not negated, although
                                     the windows are exact mirror images where they overlap *)
From QV.lib Require Import Prelude.
From QV.model Require Import C13_Model.
From QV.proof Require Import C13_Proofs C13_Proofs_Est C13_Proofs_Swap.
From Coq Require Import QArith Qround Qabs Psatz.
Local Close Scope Q_scope.
Set Implicit Arguments.

Local Notation "x ==q y" := (Qeq x y) (at level 70, no associativity).

(* ---------------------------------------------------------------- the two half-pixel estimates *)
Lemma torch_half_swap M N cc cc' p q :
  2 <= M -> 2 <= N -> uniq_max M N cc p q -> reflected_of M N cc cc' ->
  exists h1 h2 h1' h2',
    torch_half M N cc = ((p, q), (h1, h2)) /\
    torch_half M N cc' = ((negi M p, negi N q), (h1', h2')) /\
    negc M h1 h1' /\ negc N h2 h2'.
Proof.
  intros HM HN Hu Hr. assert (M0 : 0 < M) by lia. assert (N0 : 0 < N) by lia.
  pose proof (uniq_max_reflect Hu Hr) as Hu'.
  pose proof (argmax2_unique Hu) as A1. pose proof (argmax2_unique Hu') as A2.
  destruct Hu as (Hp & Hq & _).
  pose proof (negi_lt p M0) as Hp'. pose proof (negi_lt q N0) as Hq'.
  destruct (prv_props HM Hp) as [P1 _]. destruct (prv_props HN Hq) as [Q1 _].
  destruct (nxt_props HM Hp) as [P3 _]. destruct (nxt_props HN Hq) as [Q3 _].
  assert (Ec : cc' (negi M p) (negi N q) ==q cc p q)
    by (rewrite (Hr _ _ Hp' Hq'), (negi_invol Hp), (negi_invol Hq); reflexivity).
  assert (Ex0 : cc' (prv M (negi M p)) (negi N q) ==q cc (nxt M p) q).
  { rewrite (prv_negi _ M0), (Hr _ _ (negi_lt _ M0) Hq'), (negi_invol P3), (negi_invol Hq). reflexivity. }
  assert (Ex2 : cc' (nxt M (negi M p)) (negi N q) ==q cc (prv M p) q).
  { rewrite (nxt_negi _ M0), (Hr _ _ (negi_lt _ M0) Hq'), (negi_invol P1), (negi_invol Hq). reflexivity. }
  assert (Ey0 : cc' (negi M p) (prv N (negi N q)) ==q cc p (nxt N q)).
  { rewrite (prv_negi _ N0), (Hr _ _ Hp' (negi_lt _ N0)), (negi_invol Q3), (negi_invol Hp). reflexivity. }
  assert (Ey2 : cc' (negi M p) (nxt N (negi N q)) ==q cc p (prv N q)).
  { rewrite (nxt_negi _ N0), (Hr _ _ Hp' (negi_lt _ N0)), (negi_invol Q1), (negi_invol Hp). reflexivity. }
  unfold torch_half. rewrite A1, A2.
  eexists _, _, _, _. split; [reflexivity|]. split; [reflexivity|].
  split; apply negc_half; auto.
  - rewrite (tparab_comp Ex0 Ec Ex2). apply tparab_reverse.
  - rewrite (tparab_comp Ey0 Ec Ey2). apply tparab_reverse.
Qed.

(* ---------------------------------------------------------------- rounding to the upsampled grid *)
(* t' is congruent to -t + e/up modulo n *)
Definition negc_e (n up : nat) (e : Z) (t t' : Q) : Prop :=
  exists k : Z, t' ==q (- t + qN n * inject_Z k + inject_Z e / qN up)%Q.

Lemma negc_e0 n up t t' : 0 < up -> negc_e n up 0 t t' -> negc n t t'.
Proof.
  intros Hup [k Hk]. exists k. rewrite Hk. change (inject_Z 0) with 0%Q. field. apply qN_neq0. exact Hup.
Qed.

Lemma t_round_swap n up h h' :
  0 < up -> negc n h h' ->
  exists e : Z, negc_e n up e (t_round up h) (t_round up h') /\
                (Z.even (Z.of_nat n * Z.of_nat up) = true -> e = 0%Z).
Proof.
  intros Hup [k Hk].
  set (A := round_he (h * qN up)). set (B := round_he (h' * qN up)).
  exists (B + A - Z.of_nat n * k * Z.of_nat up)%Z. split.
  - exists k. unfold t_round. fold A B.
    rewrite inject_Z_minus, inject_Z_plus, !inject_Z_mult. unfold qN. field.
    apply (qN_neq0 Hup).
  - intros Hev. apply Z.even_spec in Hev. destruct Hev as [m Hm].
    assert (E : (h' * qN up ==q - (h * qN up) + inject_Z (2 * (m * k)))%Q).
    { rewrite Hk. unfold qN.
      replace (2 * (m * k))%Z with ((Z.of_nat n * Z.of_nat up) * k)%Z by (rewrite Hm; ring).
      rewrite !inject_Z_mult. ring. }
    assert (EB : B = (- A + 2 * (m * k))%Z).
    { unfold B, A. rewrite (round_he_comp E), round_he_add_even, round_he_neg. reflexivity. }
    rewrite EB. replace (Z.of_nat n * k * Z.of_nat up)%Z with ((Z.of_nat n * Z.of_nat up) * k)%Z by ring.
    rewrite Hm. ring.
Qed.

Lemma negc_t_offset n up xs xs' (e : Z) r r' d d' :
  0 < up -> negc_e n up e xs xs' ->
  (Z.of_nat r + Z.of_nat r' = 2 * Z.of_nat (t_gs up) - e)%Z -> d' ==q (- d)%Q ->
  negc n (t_offset up xs r d) (t_offset up xs' r' d').
Proof.
  intros Hup [k Hk] Hr Ed. exists k. unfold t_offset.
  replace (Z.of_nat r' - Z.of_nat (t_gs up))%Z with (- (Z.of_nat r - Z.of_nat (t_gs up)) - e)%Z by lia.
  rewrite Hk, Ed, !inject_Z_minus, inject_Z_opp, inject_Z_minus. field. apply (qN_neq0 Hup).
Qed.

(* win_refine at an interior unique maximum *)
Lemma win_refine_interior g W loc r c :
  uniq_max W W loc r c -> 1 <= r -> r + 1 < W -> 1 <= c -> c + 1 < W ->
  exists dx dy, win_refine g W loc = Some ((r, c), (dx, dy)) /\
    parab (loc (r - 1) c) (loc r c) (loc (r + 1) c) = Some dx /\
    parab (loc r (c - 1)) (loc r c) (loc r (c + 1)) = Some dy.
Proof.
  intros Hu H1 H2 H3 H4. destruct (win_refine_val g Hu) as (dx & dy & R & _ & Ne).
  exists dx, dy. split; [exact R|]. apply Ne.
  destruct (Nat.eqb_spec r 0); [lia|]. destruct (Nat.leb_spec W (r + 1)); [lia|].
  destruct (Nat.eqb_spec c 0); [lia|]. destruct (Nat.leb_spec W (c + 1)); [lia|]. reflexivity.
Qed.

(* ---------------------------------------------------------------- what holds for every factor > 2 *)
Theorem torch_swap_upsampled M N up cc cc' ups ups' p q :
  2 <= M -> 2 <= N -> 3 <= up -> uniq_max M N cc p q -> reflected_of M N cc cc' ->
  exists xs ys xs' ys' (e1 e2 : Z),
    negc_e M up e1 xs xs' /\ negc_e N up e2 ys ys' /\
    (Z.even (Z.of_nat M * Z.of_nat up) = true -> e1 = 0%Z) /\
    (Z.even (Z.of_nat N * Z.of_nat up) = true -> e2 = 0%Z) /\
    forall r c r' c',
      let W := t_win up in
      let loc := ups (t_center up xs) (t_center up ys) in
      let loc' := ups' (t_center up xs') (t_center up ys') in
      uniq_max W W loc r c -> uniq_max W W loc' r' c' ->
      (Z.of_nat r + Z.of_nat r' = 2 * Z.of_nat (t_gs up) - e1)%Z ->
      (Z.of_nat c + Z.of_nat c' = 2 * Z.of_nat (t_gs up) - e2)%Z ->
      1 <= r -> r + 1 < W -> 1 <= c -> c + 1 < W ->
      1 <= r' -> r' + 1 < W -> 1 <= c' -> c' + 1 < W ->
      loc' (r' - 1) c' ==q loc (r + 1) c -> loc' r' c' ==q loc r c -> loc' (r' + 1) c' ==q loc (r - 1) c ->
      loc' r' (c' - 1) ==q loc r (c + 1) -> loc' r' (c' + 1) ==q loc r (c - 1) ->
      exists a b a' b',
        torch_shift M N up cc ups = Some (a, b) /\ torch_shift M N up cc' ups' = Some (a', b') /\
        neg_mod M a a' /\ neg_mod N b b'.
Proof.
  intros HM HN Hup Hu Hr. assert (M0 : 0 < M) by lia. assert (N0 : 0 < N) by lia.
  assert (U0 : 0 < up) by lia.
  destruct (torch_half_swap HM HN Hu Hr) as (h1 & h2 & h1' & h2' & TH & TH' & N1 & N2).
  destruct (t_round_swap U0 N1) as (e1 & E1 & Ev1). destruct (t_round_swap U0 N2) as (e2 & E2 & Ev2).
  exists (t_round up h1), (t_round up h2), (t_round up h1'), (t_round up h2'), e1, e2.
  split; [exact E1|]. split; [exact E2|]. split; [exact Ev1|]. split; [exact Ev2|].
  intros r c r' c' W loc loc' Hl Hl' Rr Rc I1 I2 I3 I4 I1' I2' I3' I4' X0 Xc X2 Y0 Y2.
  destruct (win_refine_interior false Hl I1 I2 I3 I4) as (dx & dy & R1 & Px & Py).
  destruct (win_refine_interior false Hl' I1' I2' I3' I4') as (dx' & dy' & R1' & Px' & Py').
  destruct (@parab_reverse _ _ _ _ Px) as (rx & Rx & Erx). destruct (@parab_reverse _ _ _ _ Py) as (ry & Ry & Ery).
  destruct (@parab_comp _ _ _ _ _ _ _ X0 Xc X2 Px') as (cx & Cx & Ecx).
  destruct (@parab_comp _ _ _ _ _ _ _ Y0 Xc Y2 Py') as (cy & Cy & Ecy).
  rewrite Rx in Cx. rewrite Ry in Cy. injection Cx as Cx. injection Cy as Cy. subst cx cy.
  unfold torch_shift, torch_align. rewrite TH, TH'.
  destruct (Nat.leb_spec up 2) as [C|_]; [lia|].
  fold W. fold loc loc'. rewrite R1, R1'.
  eexists _, _, _, _. split; [reflexivity|]. split; [reflexivity|].
  split; apply centre_negc; auto.
  - apply (negc_t_offset r r' U0 E1 Rr). rewrite <- Ecx. exact Erx.
  - apply (negc_t_offset c c' U0 E2 Rc). rewrite <- Ecy. exact Ery.
Qed.

(* ---------------------------------------------------------------- symmetric windows *)
Lemma odd_win_centre up : Nat.odd (t_win up) = true -> t_win up = 2 * t_gs up + 1.
Proof.
  intros H. apply Nat.odd_spec in H. destruct H as [m Hm]. unfold t_gs. fold (t_win up). rewrite Hm.
  replace (2 * m + 1) with (1 + m * 2) by lia. rewrite Nat.div_add by lia. cbn. lia.
Qed.

Theorem torch_swap_negates_symmetric M N up cc cc' ups ups' p q :
  2 <= M -> 2 <= N -> 3 <= up -> Nat.odd (t_win up) = true ->
  Z.even (Z.of_nat M * Z.of_nat up) = true -> Z.even (Z.of_nat N * Z.of_nat up) = true ->
  uniq_max M N cc p q -> reflected_of M N cc cc' ->
  (forall xs ys xs' ys', negc M xs xs' -> negc N ys ys' ->
     win_reflected (t_win up) (ups (t_center up xs) (t_center up ys)) (ups' (t_center up xs') (t_center up ys'))) ->
  (forall cx cy, exists lx ly, uniq_max (t_win up) (t_win up) (ups cx cy) lx ly) ->
  exists a b a' b',
    torch_shift M N up cc ups = Some (a, b) /\ torch_shift M N up cc' ups' = Some (a', b') /\
    neg_mod M a a' /\ neg_mod N b b'.
Proof.
  intros HM HN Hup Hodd Ev1 Ev2 Hu Hr Hsw Hum. assert (M0 : 0 < M) by lia. assert (N0 : 0 < N) by lia.
  assert (U0 : 0 < up) by lia.
  destruct (torch_half_swap HM HN Hu Hr) as (h1 & h2 & h1' & h2' & TH & TH' & N1 & N2).
  destruct (t_round_swap U0 N1) as (e1 & E1 & Z1). destruct (t_round_swap U0 N2) as (e2 & E2 & Z2).
  rewrite (Z1 Ev1) in E1. rewrite (Z2 Ev2) in E2.
  pose proof (negc_e0 U0 E1) as Nx. pose proof (negc_e0 U0 E2) as Ny.
  destruct (Hum (t_center up (t_round up h1)) (t_center up (t_round up h2))) as (lx & ly & Hul).
  destruct (win_refine_swap false Hul (Hsw _ _ _ _ Nx Ny)) as (dx & dy & dx' & dy' & R1 & R1' & Ex & Ey).
  unfold torch_shift, torch_align. rewrite TH, TH'.
  destruct (Nat.leb_spec up 2) as [C|_]; [lia|].
  rewrite R1, R1'. destruct Hul as (Hlx & Hly & _).
  pose proof (odd_win_centre up Hodd) as HW.
  eexists _, _, _, _. split; [reflexivity|]. split; [reflexivity|].
  split; apply centre_negc; auto.
  - apply (negc_t_offset lx (t_win up - 1 - lx) U0 E1); [lia | exact Ex].
  - apply (negc_t_offset ly (t_win up - 1 - ly) U0 E2); [lia | exact Ey].
Qed.

(* which factors have a symmetric window: ceil(1.5 up) is odd iff up = 2 or 3 (mod 4) *)
Lemma t_win_odd_iff up : Nat.odd (t_win up) = true <-> (up mod 4 = 2 \/ up mod 4 = 3).
Proof.
  unfold t_win, du.
  pose proof (Nat.div_mod up 4 ltac:(lia)) as D. pose proof (Nat.mod_upper_bound up 4 ltac:(lia)) as B.
  set (m := up / 4) in *. set (r := up mod 4) in *.
  assert (E : (3 * up + 1) / 2 = 6 * m + (3 * r + 1) / 2).
  { rewrite D. replace (3 * (4 * m + r) + 1) with (3 * r + 1 + (6 * m) * 2) by lia.
    rewrite Nat.div_add by lia. lia. }
  rewrite E.
  assert (O6 : Nat.odd (6 * m) = false) by (rewrite Nat.odd_mul; reflexivity).
  assert (C : r = 0 \/ r = 1 \/ r = 2 \/ r = 3) by lia.
  destruct C as [C|[C|[C|C]]]; rewrite C.
  - change ((3 * 0 + 1) / 2) with 0. rewrite Nat.odd_add, O6. cbn. split; intros H; [discriminate H | lia].
  - change ((3 * 1 + 1) / 2) with 2. rewrite Nat.odd_add, O6. cbn. split; intros H; [discriminate H | lia].
  - change ((3 * 2 + 1) / 2) with 3. rewrite Nat.odd_add, O6. cbn. split; intros H; [lia | reflexivity].
  - change ((3 * 3 + 1) / 2) with 5. rewrite Nat.odd_add, O6. cbn. split; intros H; [lia | reflexivity].
Qed.

(* ---------------------------------------------------------------- even windows: the border *)
(* up = 4: W = 6, gs = 3, offsets -3..2.  A correlation with its symmetric unique peak at (0,0)
   (both calls get the half-pixel estimate 0, e = 0), windows that are exact mirror images wherever
   both indices are in range (a + a' = 6), first window maximal at its first row (offset -3/4):
   the swapped call cannot see offset +3/4 and returns +2/4. *)
Definition ex_cc (k l : nat) : Q := if ((k =? 0) && (l =? 0))%bool then 1%Q else 0%Q.
Definition ex_fa (a : nat) : Q := inject_Z (5 - Z.of_nat a).
Definition ex_gb (b : nat) : Q := if b =? 3 then 10%Q else 0%Q.
Definition ex_ups (_ _ : Q) (a b : nat) : Q := (ex_fa a + ex_gb b)%Q.
Definition ex_ups' (_ _ : Q) (a b : nat) : Q := ((if a =? 0 then 0 else ex_fa (6 - a)) + ex_gb (6 - b))%Q.

Lemma torch_swap_even_window_edge :
  reflected_of 4 4 ex_cc ex_cc /\ uniq_max 4 4 ex_cc 0 0 /\
  (forall x y x' y' a b a' b', a < 6 -> b < 6 -> a' < 6 -> b' < 6 -> a + a' = 6 -> b + b' = 6 ->
     ex_ups' x' y' a' b' ==q ex_ups x y a b) /\
  match torch_shift 4 4 4 ex_cc ex_ups with
  | Some (a, b) => Qeq_bool a (-(3 # 4)) && Qeq_bool b 0 | None => false end = true /\
  match torch_shift 4 4 4 ex_cc ex_ups' with
  | Some (a, b) => Qeq_bool a (1 # 2) && Qeq_bool b 0 | None => false end = true /\
  ~ neg_mod 4 (-(3 # 4)) (1 # 2).
Proof.
  split; [|split; [|split; [|split; [|split]]]].
  - intros k l Hk Hl.
    do 4 (destruct k as [|k]; [ do 4 (destruct l as [|l]; [ vm_compute; reflexivity | ]); lia | ]); lia.
  - split; [lia|]. split; [lia|]. intros k l Hk Hl Hne.
    do 4 (destruct k as [|k];
          [ do 4 (destruct l as [|l]; [ first [ exfalso; apply Hne; reflexivity | vm_compute; reflexivity ] | ]); lia | ]);
    lia.
  - intros x y x' y' a b a' b' Ha Hb Ha' Hb' Sa Sb. unfold ex_ups', ex_ups.
    assert (A0 : a' <> 0) by lia. destruct (Nat.eqb_spec a' 0); [lia|].
    replace (6 - a') with a by lia. replace (6 - b') with b by lia. reflexivity.
  - vm_compute. reflexivity.
  - vm_compute. reflexivity.
  - intros [Hn _].
    assert (A : ~ (- (3 # 4) ==q - (qN 4 / 2))%Q) by (intros C; vm_compute in C; discriminate C).
    specialize (Hn A). vm_compute in Hn. discriminate Hn.
Qed.

(* ---------------------------------------------------------------- non-vacuity *)
(* up = 4 (even window), interior maxima at rows 2 and 4 = 6 - 2: torch_swap_upsampled applies *)
Definition ex_fa2 (a : nat) : Q := nth a [0; 1; 5; 2; 0; 0]%Q 0%Q.
Definition ex_ups2 (_ _ : Q) (a b : nat) : Q := (ex_fa2 a + ex_gb b)%Q.
Definition ex_ups2' (_ _ : Q) (a b : nat) : Q := ((if a =? 0 then 0 else ex_fa2 (6 - a)) + ex_gb (6 - b))%Q.

Ltac grid66 k l Hne tac :=
  do 6 (destruct k as [|k];
        [ do 6 (destruct l as [|l]; [ first [ exfalso; apply Hne; reflexivity | tac ] | ]); lia | ]);
  lia.

Lemma ex_cc_reflected : reflected_of 4 4 ex_cc ex_cc.
Proof.
  intros k l Hk Hl.
  do 4 (destruct k as [|k]; [ do 4 (destruct l as [|l]; [ vm_compute; reflexivity | ]); lia | ]); lia.
Qed.

Lemma ex_cc_peak : uniq_max 4 4 ex_cc 0 0.
Proof.
  split; [lia|]. split; [lia|]. intros k l Hk Hl Hne.
  do 4 (destruct k as [|k];
        [ do 4 (destruct l as [|l]; [ first [ exfalso; apply Hne; reflexivity | vm_compute; reflexivity ] | ]); lia | ]);
  lia.
Qed.

Lemma inst_torch_swap_upsampled :
  exists a b a' b',
    torch_shift 4 4 4 ex_cc ex_ups2 = Some (a, b) /\ torch_shift 4 4 4 ex_cc ex_ups2' = Some (a', b') /\
    neg_mod 4 a a' /\ neg_mod 4 b b'.
Proof.
  destruct (@torch_swap_upsampled 4 4 4 ex_cc ex_cc ex_ups2 ex_ups2' 0 0)
    as (xs & ys & xs' & ys' & e1 & e2 & _ & _ & Z1 & Z2 & H); try lia.
  - exact ex_cc_peak.
  - exact ex_cc_reflected.
  - specialize (Z1 eq_refl). specialize (Z2 eq_refl). subst e1 e2.
    apply (H 2 3 4 3); try (vm_compute; lia); try (vm_compute; reflexivity).
    + split; [vm_compute; lia|]. split; [vm_compute; lia|]. intros k l Hk Hl Hne.
      change (t_win 4) with 6 in Hk, Hl. grid66 k l Hne ltac:(vm_compute; reflexivity).
    + split; [vm_compute; lia|]. split; [vm_compute; lia|]. intros k l Hk Hl Hne.
      change (t_win 4) with 6 in Hk, Hl. grid66 k l Hne ltac:(vm_compute; reflexivity).
Qed.

Lemma inst_torch_swap_upsampled_value :
  match torch_shift 4 4 4 ex_cc ex_ups2, torch_shift 4 4 4 ex_cc ex_ups2' with
  | Some (a, b), Some (a', b') => Qeq_bool a (-(13 # 56)) && Qeq_bool a' (13 # 56) && Qeq_bool b 0 && Qeq_bool b' 0
  | _, _ => false
  end = true.
Proof. vm_compute. reflexivity. Qed.

(* up = 3 (W = 5, symmetric), size * factor = 12 even: torch_swap_negates_symmetric applies, also
   to a maximum on the window border *)
Definition ex_edge5 (_ _ : Q) (a b : nat) : Q := if ((a =? 0) && (b =? 2))%bool then 1%Q else 0%Q.
Definition ex_edge5' (_ _ : Q) (a b : nat) : Q := if ((a =? 4) && (b =? 2))%bool then 1%Q else 0%Q.

Lemma inst_torch_swap_symmetric :
  exists a b a' b',
    torch_shift 4 4 3 ex_cc ex_edge5 = Some (a, b) /\ torch_shift 4 4 3 ex_cc ex_edge5' = Some (a', b') /\
    neg_mod 4 a a' /\ neg_mod 4 b b'.
Proof.
  apply (@torch_swap_negates_symmetric 4 4 3 ex_cc ex_cc ex_edge5 ex_edge5' 0 0); try lia; try reflexivity.
  - exact ex_cc_peak.
  - exact ex_cc_reflected.
  - intros xs ys xs' ys' _ _ a b Ha Hb. change (t_win 3) with 5 in *. unfold ex_edge5, ex_edge5'.
    destruct (Nat.eqb_spec a 4), (Nat.eqb_spec (5 - 1 - a) 0), (Nat.eqb_spec b 2), (Nat.eqb_spec (5 - 1 - b) 2);
      cbn [andb]; try reflexivity; lia.
  - intros cx cy. exists 0, 2. change (t_win 3) with 5. split; [lia|]. split; [lia|].
    intros k l Hk Hl Hne. unfold ex_edge5.
    destruct (Nat.eqb_spec k 0), (Nat.eqb_spec l 2); cbn [andb Nat.eqb]; try reflexivity.
    subst. exfalso. apply Hne. reflexivity.
Qed.

Lemma inst_torch_swap_symmetric_value :
  match torch_shift 4 4 3 ex_cc ex_edge5, torch_shift 4 4 3 ex_cc ex_edge5' with
  | Some (a, b), Some (a', b') => Qeq_bool a (-(2 # 3)) && Qeq_bool a' (2 # 3) && Qeq_bool b 0 && Qeq_bool b' 0
  | _, _ => false
  end = true.
Proof. vm_compute. reflexivity. Qed.
