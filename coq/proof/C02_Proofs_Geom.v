(* C02 — round 4: proofs about the model definitions that the source translator ties to the code
   (whole-scan patch indices and their cache, object shape / padding arithmetic, target selection and its
   history).  Z / Q only. *)
From QV.lib Require Import Prelude C02_TieLib.
From QV.model Require Import C02_Model.
From QV.proof Require Import C02_Proofs_Index.
From Coq Require Import QArith Qround Lqa.
Local Close Scope Q_scope.
Local Open Scope Z_scope.
Set Implicit Arguments.

(* ------------------------------------------------------------------ lists as tabulated index functions *)
Lemma list_as_tabZ A (d : A) (l : list A) : l = tabZ (lenZ l) (fun i => nthZ d l i).
Proof. rewrite (tabZ_nth_map d l (fun x => x)). symmetry. apply map_id. Qed.

Lemma map_tabZ A B (f : A -> B) len (g : Z -> A) : map f (tabZ len g) = tabZ len (fun i => f (g i)).
Proof. unfold tabZ. rewrite map_map. reflexivity. Qed.

Lemma fftfreq_list_tab n : 0 <= n -> fftfreq_list n = tabZ n (fun i => fftfreq_index i n).
Proof.
  intros Hn. rewrite (list_as_tabZ 0 (fftfreq_list n)).
  unfold lenZ. rewrite fftfreq_list_length by exact Hn. rewrite Z2Nat.id by exact Hn.
  apply tabZ_ext. intros i Hi. unfold nthZ. apply fftfreq_list_nth. exact Hi.
Qed.

Lemma patch_indices_tab H W n m r0 c0 : 0 <= n -> 0 <= m ->
  patch_indices H W n m r0 c0 = tabZ n (fun a => tabZ m (fun b => patch_index H W n m r0 c0 a b)).
Proof.
  intros Hn Hm. unfold patch_indices, patch_rows, patch_index.
  rewrite (fftfreq_list_tab Hn), (fftfreq_list_tab Hm). rewrite !map_tabZ.
  apply tabZ_ext. intros a Ha. rewrite map_tabZ. reflexivity.
Qed.

(* ------------------------------------------------------------------ the patch-index cache *)
Lemma list_eqb_zz_eq (a b : list (Z * Z)) : list_eqb zz_eqb a b = true -> a = b.
Proof.
  revert b. induction a as [|x a IH]; intros [|y b] E; cbn [list_eqb] in E; try discriminate; [reflexivity|].
  apply andb_prop in E. destruct E as [E1 E2]. unfold zz_eqb in E1. apply andb_prop in E1.
  destruct E1 as [Ea Eb]. apply Z.eqb_eq in Ea, Eb. destruct x, y. cbn [fst snd] in *. subst.
  f_equal. apply IH. exact E2.
Qed.

Lemma patch_indices_all_rounded H W n m pos :
  patch_indices_all H W n m pos = map (fun rp => patch_indices H W n m (fst rp) (snd rp)) (map round_pos pos).
Proof. unfold patch_indices_all. rewrite map_map. reflexivity. Qed.

(* the cache is refreshed whenever it would differ: "no update needed" implies the cached indices are the
   indices of the current positions (every scan, every object / ROI size) *)
Lemma need_update_sound H W n m cached current :
  need_update cached current = false ->
  patch_indices_all H W n m cached = patch_indices_all H W n m current.
Proof.
  unfold need_update. intros E. apply negb_false_iff in E. apply list_eqb_zz_eq in E.
  rewrite !patch_indices_all_rounded, E. reflexivity.
Qed.

Definition forward_indices_statement : Prop :=
  forall H W n m cached_pos cache pos batch,
    cache = patch_indices_all H W n m cached_pos ->
    Forall (fun b => 0 <= b < lenZ pos) batch ->
    fst (fst (forward_indices H W n m cached_pos cache pos batch)) =
    map (fun b => let p := nth (Z.to_nat b) pos (0 # 1, 0 # 1)%Q in
                  patch_indices H W n m (round_half_even (fst p)) (round_half_even (snd p))) batch.

Lemma forward_indices_correct : forward_indices_statement.
Proof.
  intros H W n m cached_pos cache pos batch Hc Hb. unfold forward_indices. cbn [fst snd].
  assert (Hc' : (if need_update cached_pos pos then patch_indices_all H W n m pos else cache)
                = patch_indices_all H W n m pos).
  { destruct (need_update cached_pos pos) eqn:E; [reflexivity|]. rewrite Hc. apply need_update_sound. exact E. }
  rewrite Hc'. apply map_ext_in. intros b Hin. rewrite Forall_forall in Hb. specialize (Hb b Hin).
  unfold patch_indices_all, lenZ in *.
  set (f := fun p : Q * Q => patch_indices H W n m (fst (round_pos p)) (snd (round_pos p))).
  rewrite (nth_indep _ [] (f (0 # 1, 0 # 1)%Q)) by (rewrite map_length; lia).
  rewrite (map_nth f). reflexivity.
Qed.

(* ------------------------------------------------------------------ object shape and padding *)
Lemma obj_shape_crop_spec F :
  (obj_shape_crop F) mod 2 = 0 /\ F + 2 <= obj_shape_crop F <= F + 3.
Proof. unfold obj_shape_crop. lia. Qed.

(* the object holds the raster: a scan coordinate in [0, floor(fov/sampling) + 1] pixels, moved by the padding,
   lies inside [0, shape - 1], so clip_scan_positions leaves every scan position where it is *)
Lemma raster_inside_object F pad (q : Q) :
  0 <= pad -> (0 <= q)%Q -> (q <= inject_Z (F + 1))%Q ->
  (0 <= q + inject_Z pad)%Q /\ (q + inject_Z pad <= inject_Z (obj_shape_full (obj_shape_crop F) pad - 1))%Q.
Proof.
  intros Hp H0 H1.
  assert (Hz : F + 1 + pad <= obj_shape_full (obj_shape_crop F) pad - 1)
    by (unfold obj_shape_full, obj_shape_crop; lia).
  assert (Hq : (inject_Z (F + 1 + pad) <= inject_Z (obj_shape_full (obj_shape_crop F) pad - 1))%Q)
    by (rewrite <- Zle_Qle; exact Hz).
  assert (Hpq : (0 <= inject_Z pad)%Q) by (change 0%Q with (inject_Z 0); rewrite <- Zle_Qle; exact Hp).
  rewrite inject_Z_plus in Hq. split; lra.
Qed.

Lemma adjust_pad_axis_spec d s p :
  0 < d -> s mod 2 = 0 ->
  let q := adjust_pad_axis (2 * d) s p in
  (s + 2 * q) mod (2 * d) = 0 /\ p <= q < p + d.
Proof.
  intros Hd Hs. unfold adjust_pad_axis.
  set (D := 2 * d). set (e := s + 2 * p).
  assert (HD : 0 < D) by (unfold D; lia).
  pose proof (Z.div_mod e D ltac:(lia)) as He.
  pose proof (Z.mod_pos_bound e D HD) as Hr.
  set (k := e / D) in *. set (r := e mod D) in *.
  assert (Hdk : D * k = 2 * (d * k)) by (unfold D; ring).
  set (dk := d * k) in *.
  destruct (Z.eqb_spec r 0) as [E0|En].
  - cbv zeta. split; [|lia]. fold e. fold r. exact E0.
  - cbv zeta. assert (Hev : r = 2 * (s / 2 + p - dk)) by (unfold e in He; lia).
    assert (Hhalf : (D - r) / 2 = d - (s / 2 + p - dk)) by (unfold D; lia).
    rewrite Hhalf. split; [|unfold D in Hr; lia].
    replace (s + 2 * (p + (d - (s / 2 + p - dk)))) with ((k + 1) * D).
    + apply Z_mod_mult.
    + replace ((k + 1) * D) with (D * k + D) by ring. rewrite Hdk. unfold D. unfold e in He. lia.
Qed.

Definition adjust_pad_statement : Prop :=
  forall level s0 s1 p0 p1, 1 <= level -> s0 mod 2 = 0 -> s1 mod 2 = 0 ->
    exists q0 q1, adjust_pad level s0 s1 p0 p1 = Some (q0, q1) /\
                  (s0 + 2 * q0) mod 2 ^ level = 0 /\ (s1 + 2 * q1) mod 2 ^ level = 0 /\
                  p0 <= q0 < p0 + 2 ^ (level - 1) /\ p1 <= q1 < p1 + 2 ^ (level - 1).

Lemma adjust_pad_spec : adjust_pad_statement.
Proof.
  intros level s0 s1 p0 p1 Hl H0 H1.
  assert (Hpow : 2 ^ level = 2 * 2 ^ (level - 1)).
  { replace level with (1 + (level - 1)) at 1 by lia. rewrite Z.pow_add_r by lia. reflexivity. }
  assert (Hd : 0 < 2 ^ (level - 1)) by (apply Z.pow_pos_nonneg; lia).
  pose proof (@adjust_pad_axis_spec (2 ^ (level - 1)) s0 p0 Hd H0) as [A0 B0].
  pose proof (@adjust_pad_axis_spec (2 ^ (level - 1)) s1 p1 Hd H1) as [A1 B1].
  unfold adjust_pad. rewrite Hpow.
  exists (adjust_pad_axis (2 * 2 ^ (level - 1)) s0 p0), (adjust_pad_axis (2 * 2 ^ (level - 1)) s1 p1).
  cbv zeta. rewrite A0, A1. cbn [Z.eqb andb]. repeat split; try assumption; lia.
Qed.

(* an odd full shape cannot be made divisible: the library raises *)
Lemma adjust_pad_odd_raises level s0 s1 p0 p1 :
  1 <= level -> s0 mod 2 = 1 -> adjust_pad level s0 s1 p0 p1 = None.
Proof.
  intros Hl H0.
  assert (Hpow : 2 ^ level = 2 * 2 ^ (level - 1)).
  { replace level with (1 + (level - 1)) at 1 by lia. rewrite Z.pow_add_r by lia. reflexivity. }
  assert (Hd : 0 < 2 ^ (level - 1)) by (apply Z.pow_pos_nonneg; lia).
  unfold adjust_pad. cbv zeta. rewrite Hpow.
  set (d := 2 ^ (level - 1)) in *. set (q0 := adjust_pad_axis (2 * d) s0 p0).
  destruct (Z.eqb_spec ((s0 + 2 * q0) mod (2 * d)) 0) as [E|E]; [|reflexivity].
  exfalso. pose proof (Z.div_mod (s0 + 2 * q0) (2 * d) ltac:(lia)) as He. rewrite E in He.
  set (k := (s0 + 2 * q0) / (2 * d)) in *. assert (2 * d * k = 2 * (d * k)) by ring. lia.
Qed.

(* ------------------------------------------------------------------ targets and the history of a dataset *)
Lemma preprocess_refreshes_targets st learned :
  d_targets (dstep st (Preprocess learned)) = Some (target_source L2_amplitude learned, S (d_version st)) /\
  d_version (dstep st (Preprocess learned)) = S (d_version st).
Proof. split; reflexivity. Qed.

Lemma set_targets_current st lt learned :
  d_targets (dstep st (SetTargets lt learned)) = Some (target_source lt learned, d_version st) /\
  d_version (dstep st (SetTargets lt learned)) = d_version st.
Proof. split; reflexivity. Qed.

(* whatever was done to the dataset object before — any number of preprocessings and target selections in any
   order — the targets the loss is compared against are never those of an EARLIER preprocessing *)
Definition targets_never_stale_statement : Prop :=
  forall ops st,
    (forall s v, d_targets st = Some (s, v) -> v = d_version st) ->
    forall s v, d_targets (drun ops st) = Some (s, v) -> v = d_version (drun ops st).

Lemma targets_never_stale : targets_never_stale_statement.
Proof.
  intros ops. unfold drun. induction ops as [|op ops IH]; intros st Hinv s v E; cbn [fold_left] in *.
  - apply (Hinv s v E).
  - eapply (IH (dstep st op)); [|exact E].
    intros s' v' E'. destruct op as [l|lt l]; cbn in E'; inversion E'; reflexivity.
Qed.

(* ... and after a final target selection they are the selected array as the LAST preprocessing wrote it *)
Lemma targets_after_history ops st lt learned :
  d_targets (drun (ops ++ [SetTargets lt learned]) st) = Some (target_source lt learned, d_version (drun ops st)).
Proof. unfold drun. rewrite fold_left_app. reflexivity. Qed.

Lemma version_counts_preprocess ops st :
  d_version (drun ops st) =
  (d_version st + length (filter (fun op => match op with Preprocess _ => true | _ => false end) ops))%nat.
Proof.
  unfold drun. revert st. induction ops as [|op ops IH]; intros st; cbn [fold_left filter length]; [lia|].
  rewrite IH. destruct op; cbn [dstep set_targets d_version length]; lia.
Qed.
