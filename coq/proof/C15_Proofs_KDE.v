(* C15 — the Gaussian KDE after the splat preserves the total weight.
   Any symmetric kernel, any radius (also larger than the array), reflect boundary: the filtered
   signal sums to kernel_mass * (sum of the signal).  Additive to C15_Proofs / C15_Proofs_Ext. *)
From QV.lib Require Import Prelude.
From QV.model Require Import C15_Model.
From QV.proof Require Import C15_Proofs.
From Coq Require Import QArith Qround Qfield Lqa.
Local Open Scope Q_scope.

(* ------------------------------------------------------------------ finite sums of functions *)
Lemma fsum_S n f : fsum (S n) f == fsum n f + f n.
Proof.
  unfold fsum. rewrite seq_S, map_app, qsum_app. cbn [plus map]. rewrite qsum_cons.
  cbn [qsum fold_right]. ring.
Qed.

Lemma fsum_0 f : fsum 0 f == 0.
Proof. reflexivity. Qed.

Lemma fsum_ext n f g : (forall i, (i < n)%nat -> f i == g i) -> fsum n f == fsum n g.
Proof.
  intros E. unfold fsum. apply qsum_map_ext. intros i Hi. apply in_seq in Hi. apply E. lia.
Qed.

Lemma fsum_plus n f g : fsum n (fun i => f i + g i) == fsum n f + fsum n g.
Proof. unfold fsum. apply qsum_map_plus. Qed.

Lemma fsum_scale n k f : fsum n (fun i => k * f i) == k * fsum n f.
Proof.
  induction n as [|n IH].
  - rewrite !fsum_0. ring.
  - rewrite !fsum_S, IH. ring.
Qed.

Lemma fsum_zero n : fsum n (fun _ => 0) == 0.
Proof.
  induction n as [|n IH]; [reflexivity|]. rewrite fsum_S, IH. ring.
Qed.

(* reversal: sum_{i<n} f (n-1-i) = sum_{i<n} f i *)
Lemma fsum_shift n f : fsum (S n) f == f 0%nat + fsum n (fun i => f (S i)).
Proof.
  induction n as [|n IH].
  - rewrite fsum_S, !fsum_0. ring.
  - rewrite fsum_S, IH, (fsum_S n (fun i => f (S i))). ring.
Qed.

Lemma fsum_rev n f : fsum n (fun i => f (n - 1 - i)%nat) == fsum n f.
Proof.
  revert f. induction n as [|n IH]; intros f; [reflexivity|].
  rewrite fsum_S. replace (S n - 1 - n)%nat with 0%nat by lia.
  rewrite (fsum_shift n f).
  rewrite <- (IH (fun i => f (S i))).
  rewrite (fsum_ext n (fun i => f (S n - 1 - i)%nat) (fun i => f (S (n - 1 - i)))).
  - ring.
  - intros i Hi. replace (S n - 1 - i)%nat with (S (n - 1 - i)) by lia. reflexivity.
Qed.

Lemma fsum_split n m f : fsum (n + m) f == fsum n f + fsum m (fun i => f (n + i)%nat).
Proof.
  induction m as [|m IH].
  - rewrite Nat.add_0_r, fsum_0. ring.
  - replace (n + S m)%nat with (S (n + m)) by lia. rewrite !fsum_S, IH. ring.
Qed.

Lemma fsum_swap n m (a : nat -> nat -> Q) :
  fsum n (fun i => fsum m (a i)) == fsum m (fun j => fsum n (fun i => a i j)).
Proof.
  induction n as [|n IH].
  - rewrite fsum_0. symmetry. rewrite (fsum_ext m _ (fun _ => 0)) by (intros; apply fsum_0).
    apply fsum_zero.
  - rewrite fsum_S, IH. rewrite <- fsum_plus. apply fsum_ext. intros j _. rewrite fsum_S. reflexivity.
Qed.

(* ------------------------------------------------------------------ the reflect extension *)
Section Reflect.
  Variable n : nat.
  Variable x : nat -> Q.
  Hypothesis Hn : (1 <= n)%nat.

  Let e := reflect_ext n x.

  Lemma ext_periodic j : e (j + 2 * Z.of_nat n)%Z = e j.
  Proof.
    unfold e, reflect_ext. cbv zeta.
    replace ((j + 2 * Z.of_nat n) mod (2 * Z.of_nat n))%Z with (j mod (2 * Z.of_nat n))%Z; [reflexivity|].
    rewrite <- (Z.mul_1_l (2 * Z.of_nat n)) at 2. rewrite Z.mod_add by lia. reflexivity.
  Qed.

  Lemma ext_mirror j : e (- 1 - j)%Z = e j.
  Proof.
    unfold e, reflect_ext. cbv zeta.
    set (p := (2 * Z.of_nat n)%Z).
    assert (Hp : (0 < p)%Z) by (unfold p; lia).
    assert (M : ((- 1 - j) mod p = p - 1 - j mod p)%Z).
    { pose proof (Z.mod_pos_bound j p Hp) as B.
      pose proof (Z.div_mod j p ltac:(lia)) as D.
      symmetry. apply (Z.mod_unique (- 1 - j) p (- (j / p) - 1) (p - 1 - j mod p)); [lia|].
      nia. }
    rewrite M.
    pose proof (Z.mod_pos_bound j p Hp) as B.
    destruct (Z.ltb_spec (j mod p) (Z.of_nat n)) as [L|G];
      destruct (Z.ltb_spec (p - 1 - j mod p) (Z.of_nat n)) as [L'|G']; unfold p in *; try lia.
    - f_equal. lia.
    - reflexivity.
  Qed.

  Lemma ext_inside i : (i < n)%nat -> e (Z.of_nat i) = x i.
  Proof.
    intros Hi. unfold e, reflect_ext. cbv zeta.
    rewrite Z.mod_small by lia.
    destruct (Z.ltb_spec (Z.of_nat i) (Z.of_nat n)); [|lia]. rewrite Nat2Z.id. reflexivity.
  Qed.

  Lemma ext_second_half i : (i < n)%nat -> e (Z.of_nat (n + i)) = x (n - 1 - i)%nat.
  Proof.
    intros Hi. unfold e, reflect_ext. cbv zeta.
    rewrite Z.mod_small by lia.
    destruct (Z.ltb_spec (Z.of_nat (n + i)) (Z.of_nat n)); [lia|]. f_equal. lia.
  Qed.

  (* sum over a window of `len` consecutive samples starting at a *)
  Definition wsum (len : nat) (a : Z) : Q := fsum len (fun i => e (a + Z.of_nat i)%Z).

  Lemma wsum_shift1 len a : wsum (S len) a == e a + wsum len (a + 1).
  Proof.
    unfold wsum. rewrite fsum_shift. rewrite Z.add_0_r.
    rewrite (fsum_ext len (fun i => e (a + Z.of_nat (S i))%Z) (fun i => e (a + 1 + Z.of_nat i)%Z)).
    - reflexivity.
    - intros i _. replace (a + Z.of_nat (S i))%Z with (a + 1 + Z.of_nat i)%Z by lia. reflexivity.
  Qed.

  (* a full period does not depend on where it starts *)
  Lemma period_step a : wsum (n + n) (a + 1) == wsum (n + n) a.
  Proof.
    destruct (n + n)%nat as [|L] eqn:EL; [lia|].
    rewrite (wsum_shift1 L a).
    unfold wsum at 1. rewrite fsum_S. fold (wsum L (a + 1)).
    replace (a + 1 + Z.of_nat L)%Z with (a + 2 * Z.of_nat n)%Z by lia.
    rewrite ext_periodic. ring.
  Qed.

  Lemma period_nat a k : wsum (n + n) (a + Z.of_nat k) == wsum (n + n) a.
  Proof.
    induction k as [|k IH].
    - rewrite Z.add_0_r. reflexivity.
    - replace (a + Z.of_nat (S k))%Z with (a + Z.of_nat k + 1)%Z by lia. rewrite period_step. exact IH.
  Qed.

  Lemma period_any a : wsum (n + n) a == wsum (n + n) 0.
  Proof.
    destruct (Z_le_gt_dec 0 a) as [P|N].
    - rewrite <- (Z2Nat.id a P). rewrite <- (period_nat 0 (Z.to_nat a)). rewrite Z.add_0_l. reflexivity.
    - rewrite <- (period_nat a (Z.to_nat (- a))). rewrite Z2Nat.id by lia.
      replace (a + - a)%Z with 0%Z by lia. reflexivity.
  Qed.

  Lemma period_total : wsum (n + n) 0 == 2 * fsum n x.
  Proof.
    unfold wsum. rewrite fsum_split.
    rewrite (fsum_ext n (fun i => e (0 + Z.of_nat i)%Z) x)
      by (intros i Hi; rewrite Z.add_0_l, ext_inside by exact Hi; reflexivity).
    rewrite (fsum_ext n (fun i => e (0 + Z.of_nat (n + i))%Z) (fun i => x (n - 1 - i)%nat))
      by (intros i Hi; rewrite Z.add_0_l, ext_second_half by exact Hi; reflexivity).
    rewrite fsum_rev. ring.
  Qed.

  (* the two windows hit by the taps at distance t on either side cover one full period *)
  Lemma window_pair t : wsum n t + wsum n (- t) == 2 * fsum n x.
  Proof.
    assert (R : wsum n (- t) == wsum n (t - Z.of_nat n)).
    { unfold wsum.
      rewrite (fsum_ext n (fun i => e (- t + Z.of_nat i)%Z) (fun i => e (t - 1 - Z.of_nat i)%Z)).
      - rewrite <- (fsum_rev n (fun i => e (t - 1 - Z.of_nat i)%Z)).
        apply fsum_ext. intros i Hi. replace (t - 1 - Z.of_nat (n - 1 - i))%Z with (t - Z.of_nat n + Z.of_nat i)%Z by lia.
        reflexivity.
      - intros i _. rewrite <- (ext_mirror (- t + Z.of_nat i)).
        replace (- 1 - (- t + Z.of_nat i))%Z with (t - 1 - Z.of_nat i)%Z by lia. reflexivity. }
    rewrite R.
    assert (J : wsum n (t - Z.of_nat n) + wsum n t == wsum (n + n) (t - Z.of_nat n)).
    { unfold wsum. rewrite fsum_split.
      rewrite (fsum_ext n (fun i => e (t - Z.of_nat n + Z.of_nat (n + i))%Z) (fun i => e (t + Z.of_nat i)%Z)).
      - reflexivity.
      - intros i _. replace (t - Z.of_nat n + Z.of_nat (n + i))%Z with (t + Z.of_nat i)%Z by lia. reflexivity. }
    rewrite Qplus_comm, J, period_any, period_total. reflexivity.
  Qed.

  Lemma taps_total ks t :
    fsum n (fun i => taps t ks e (Z.of_nat i)) == 2 * qsum ks * fsum n x.
  Proof.
    revert t. induction ks as [|k ks IH]; intros t.
    - cbn [taps]. rewrite fsum_zero. cbn [qsum fold_right]. ring.
    - cbn [taps]. rewrite fsum_plus, IH, fsum_scale, fsum_plus.
      assert (A : fsum n (fun i => e (Z.of_nat i + t)%Z) == wsum n t).
      { unfold wsum. apply fsum_ext. intros i _. rewrite Z.add_comm. reflexivity. }
      assert (B : fsum n (fun i => e (Z.of_nat i - t)%Z) == wsum n (- t)).
      { unfold wsum. apply fsum_ext. intros i _. replace (Z.of_nat i - t)%Z with (- t + Z.of_nat i)%Z by lia.
        reflexivity. }
      rewrite A, B, window_pair, qsum_cons. ring.
  Qed.

  (* the filtered signal sums to kernel_mass * (sum of the signal): every radius, every weights *)
  Theorem sym_filter_total k0 ks :
    fsum n (sym_filter k0 ks n x) == kernel_mass k0 ks * fsum n x.
  Proof.
    unfold sym_filter, kernel_mass. fold e.
    rewrite fsum_plus, fsum_scale, taps_total.
    rewrite (fsum_ext n (fun i => e (Z.of_nat i)) x) by (intros i Hi; rewrite ext_inside by exact Hi; reflexivity).
    ring.
  Qed.
End Reflect.

(* ------------------------------------------------------------------ two dimensions *)
Theorem filter_axis1_total k0 ks R C a :
  (1 <= C)%nat ->
  total2 R C (filter_axis1 k0 ks C a) == kernel_mass k0 ks * total2 R C a.
Proof.
  intros HC. unfold total2, filter_axis1.
  rewrite (fsum_ext R _ (fun r => kernel_mass k0 ks * fsum C (a r)))
    by (intros r _; apply sym_filter_total; exact HC).
  apply fsum_scale.
Qed.

Theorem filter_axis0_total k0 ks R C a :
  (1 <= R)%nat ->
  total2 R C (filter_axis0 k0 ks R a) == kernel_mass k0 ks * total2 R C a.
Proof.
  intros HR. unfold total2, filter_axis0.
  rewrite fsum_swap.
  rewrite (fsum_ext C _ (fun c => kernel_mass k0 ks * fsum R (fun r => a r c)))
    by (intros c _; apply (sym_filter_total R (fun r' => a r' c) HR)).
  rewrite fsum_scale. rewrite (fsum_swap R C a). reflexivity.
Qed.

Theorem kde2_total k0 ks k0' ks' R C a :
  (1 <= R)%nat -> (1 <= C)%nat ->
  total2 R C (kde2 k0 ks k0' ks' R C a) == kernel_mass k0' ks' * (kernel_mass k0 ks * total2 R C a).
Proof.
  intros HR HC. unfold kde2. rewrite filter_axis1_total by exact HC.
  rewrite filter_axis0_total by exact HR. reflexivity.
Qed.

(* ------------------------------------------------------------------ the weight map as a 2-D array *)
Lemma fsum_mul R C (f : nat -> Q) :
  fsum (R * C) f == fsum R (fun r => fsum C (fun c => f (r * C + c)%nat)).
Proof.
  induction R as [|R IH].
  - reflexivity.
  - replace (S R * C)%nat with (R * C + C)%nat by lia. rewrite fsum_split, IH, fsum_S. reflexivity.
Qed.

Lemma weight_map2_total rows cols pts :
  (0 < rows)%Z -> (0 < cols)%Z ->
  total2 (Z.to_nat rows) (Z.to_nat cols) (weight_map2 rows cols pts) == qsum (weight_map rows cols pts).
Proof.
  intros Hr Hc. unfold total2, weight_map2, weight_map. cbv zeta.
  replace (Z.to_nat (rows * cols)) with (Z.to_nat rows * Z.to_nat cols)%nat by (rewrite Z2Nat.inj_mul; lia).
  change (qsum (map (fun t => cell_weight (contributions rows cols pts) (Z.of_nat t))
                    (seq 0 (Z.to_nat rows * Z.to_nat cols))))
    with (fsum (Z.to_nat rows * Z.to_nat cols) (fun t => cell_weight (contributions rows cols pts) (Z.of_nat t))).
  rewrite fsum_mul. apply fsum_ext. intros r _. apply fsum_ext. intros c _.
  replace (Z.of_nat (r * Z.to_nat cols + c)) with (Z.of_nat r * cols + Z.of_nat c)%Z; [reflexivity|].
  rewrite Nat2Z.inj_add, Nat2Z.inj_mul, Z2Nat.id by lia. reflexivity.
Qed.

(* the weight map warp_image RETURNS (after the KDE) sums to the number of points, for every
   normalised symmetric kernel of every radius *)
Theorem kde_weights_total k0 ks rows cols pts :
  (0 < rows)%Z -> (0 < cols)%Z -> kernel_mass k0 ks == 1 ->
  total2 (Z.to_nat rows) (Z.to_nat cols) (kde_weights k0 ks rows cols pts) == qn (length pts).
Proof.
  intros Hr Hc M. unfold kde_weights.
  rewrite kde2_total by lia. rewrite M, weight_map2_total by assumption.
  rewrite weight_map_total by assumption. ring.
Qed.
