(* C02 — the order of the incoherent probe modes is not observable: the forward model is a SUM over
   the modes, so any permutation of the mode list (what the probe orthogonalisation constraint does
   when it ranks the modes by intensity, or what a caller does who hands the modes over weakest
   first) leaves every predicted pattern unchanged.  Abstract commutative ring, any ROI size, any
   number of slices and modes. *)
From Coq Require Import ZArith List Lia Ring Arith Permutation.
From QV.lib Require Import FinSum DFT DFT2.
From QV.model Require Import C02_Model.
Import ListNotations.

Section ModeOrder.
  Variable R : Type.
  Variables (rO rI : R) (radd rmul rsub : R -> R -> R) (ropp : R -> R).
  Variable Rth : ring_theory rO rI radd rmul rsub ropp (@eq R).
  Add Ring RringC02mo : Rth.

  Lemma suml_permutation (l l' : list R) :
    Permutation l l' -> suml rO radd l = suml rO radd l'.
  Proof.
    intros HP. induction HP as [| x l l' HP IH | x y l | l l' l'' HP1 IH1 HP2 IH2]; cbn [suml].
    - reflexivity.
    - rewrite IH. reflexivity.
    - ring.
    - rewrite IH1. exact IH2.
  Qed.

  Lemma mode_sum_permutation (f : img R -> img R) (modes modes' : list (img R)) (k1 k2 : nat) :
    Permutation modes modes' ->
    mode_sum rO radd f modes k1 k2 = mode_sum rO radd f modes' k1 k2.
  Proof.
    intros HP. unfold mode_sum. apply suml_permutation. apply Permutation_map. exact HP.
  Qed.

  Variable conj : R -> R.
  Variables (N1 : nat) (w1 : Z -> R) (Ninv1 : R) (N2 : nat) (w2 : Z -> R) (Ninv2 : R).

  Lemma forward_code_mode_order (sN : R) (objf : list (Z -> R)) (H W r0 c0 : Z) (rr rc : nat -> R)
        (props probes probes' : list (img R)) (k1 k2 : nat) :
    Permutation probes probes' ->
    forward_code rO radd rmul conj N1 w1 Ninv1 N2 w2 Ninv2 sN objf H W r0 c0 rr rc props probes k1 k2
    = forward_code rO radd rmul conj N1 w1 Ninv1 N2 w2 Ninv2 sN objf H W r0 c0 rr rc props probes' k1 k2.
  Proof.
    intros HP. unfold forward_code, DFT2.fftshift2, DFT2.roll2.
    apply mode_sum_permutation. apply Permutation_map. exact HP.
  Qed.

  Lemma forward_ref_mode_order (sN : R) (obj2 : list (Z -> Z -> R)) (H W r0 c0 : Z) (rr rc : nat -> R)
        (props probes probes' : list (img R)) (k1 k2 : nat) :
    Permutation probes probes' ->
    forward_ref rO radd rmul conj N1 w1 Ninv1 N2 w2 Ninv2 sN obj2 H W r0 c0 rr rc props probes k1 k2
    = forward_ref rO radd rmul conj N1 w1 Ninv1 N2 w2 Ninv2 sN obj2 H W r0 c0 rr rc props probes' k1 k2.
  Proof.
    intros HP. unfold forward_ref, DFT2.fftshift2, DFT2.roll2.
    apply mode_sum_permutation. apply Permutation_map. exact HP.
  Qed.
End ModeOrder.
