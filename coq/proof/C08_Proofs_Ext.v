(* C08 — proofs about model/C08_Model_Ext.v: path resolution, call-level protocol, faults inside
   clean-up handlers and inside non-atomic primitives, exception classes. *)
From Coq Require Import String Ascii.
From QV.lib Require Import Prelude.
From QV.model Require Import C08_Model C08_Model_Ext.
From QV.proof Require Import C08_Proofs.

(* ================================================================ (A) resolve *)
Lemma ends_with_refl suf : ends_with suf suf = true.
Proof. destruct suf; cbn [ends_with]; rewrite String.eqb_refl; reflexivity. Qed.

Lemma ends_with_app suf a : ends_with suf (a ++ suf) = true.
Proof.
  induction a as [|c a IH]; cbn [append].
  - apply ends_with_refl.
  - cbn [ends_with]. destruct (String.eqb (String c (a ++ suf)) suf); [reflexivity | exact IH].
Qed.

Lemma infer_not_auto a s : infer a s <> AAuto.
Proof. destruct a; cbn [infer]; try discriminate. destruct (ends_with zipsuf s); discriminate. Qed.

(* a zip store is always written to a name that ends in ".zip" *)
Theorem resolve_zip_suffix a s :
  fst (resolve a s) = AZip -> ends_with zipsuf (snd (resolve a s)) = true.
Proof.
  unfold resolve. cbn [fst snd]. intros H. rewrite H.
  destruct (ends_with zipsuf s) eqn:E; [exact E | apply ends_with_app].
Qed.

(* every other store is written to the name as given *)
Theorem resolve_other_name a s : fst (resolve a s) <> AZip -> snd (resolve a s) = s.
Proof. unfold resolve. cbn [fst snd]. destruct (infer a s); try reflexivity. intros H; contradiction H; reflexivity. Qed.

(* the name is only ever extended by the suffix *)
Theorem resolve_name_cases a s : snd (resolve a s) = s \/ snd (resolve a s) = (s ++ zipsuf)%string.
Proof.
  unfold resolve. cbn [fst snd]. destruct (infer a s); try (left; reflexivity).
  destruct (ends_with zipsuf s); [left | right]; reflexivity.
Qed.

(* resolving is idempotent: the resolved (store, name) resolves to itself — saving under the
   resolved name with the resolved store is the same call *)
Theorem resolve_idem a s : resolve (fst (resolve a s)) (snd (resolve a s)) = resolve a s.
Proof.
  unfold resolve at 2 3 4. cbn [fst snd].
  destruct (infer a s) eqn:Ei.
  - exfalso. exact (infer_not_auto a s Ei).
  - destruct (ends_with zipsuf s) eqn:E; unfold resolve; cbn [infer].
    + rewrite E. reflexivity.
    + rewrite ends_with_app. reflexivity.
  - reflexivity.
  - reflexivity.
Qed.

(* store="auto" is the explicit store it infers *)
Theorem resolve_auto s : resolve AAuto s = resolve (infer AAuto s) s.
Proof.
  unfold resolve, infer. destruct (ends_with zipsuf s) eqn:E; rewrite ?E; reflexivity.
Qed.

Theorem resolve_auto_zip s : ends_with zipsuf s = true -> resolve AAuto s = (AZip, s).
Proof. intros E. unfold resolve, infer. rewrite E. reflexivity. Qed.

Theorem resolve_auto_dir s : ends_with zipsuf s = false -> resolve AAuto s = (ADir, s).
Proof. intros E. unfold resolve, infer. rewrite E. reflexivity. Qed.

(* ================================================================ sites of save_prog *)
Lemma save_prog_sites_same st m p ts tz ws zs :
  save_prog_sites st m p p p ts tz ws zs = save_prog st m p ts tz ws zs.
Proof. reflexivity. Qed.

Lemma In_save_prog_sites e st m pc pr pn ts tz ws zs :
  In e (save_prog_sites st m pc pr pn ts tz ws zs) ->
  e = CheckTarget m pc \/ e = MkTemp ts tz \/ (exists i, e = WriteItem ts i) \/
  (st = SZip /\ In e (zip_phase tz zs)) \/ e = RemoveTarget pr \/ e = Rename (staged st ts tz) pn.
Proof.
  unfold save_prog_sites. intros [<-|[<-|H]]; [left; reflexivity | right; left; reflexivity|].
  apply in_app_or in H. destruct H as [H|H].
  - apply in_map_iff in H. destruct H as (i & <- & _). right; right; left. exists i. reflexivity.
  - apply in_app_or in H. destruct H as [H|H].
    + destruct st; [|destruct H]. right; right; right; left. split; [reflexivity | exact H].
    + destruct H as [<-|[<-|[]]]; [right; right; right; right; left | right; right; right; right; right]; reflexivity.
Qed.

(* every site of the protocol that names the target names pc / pr / pn, every staging site names
   ts / tz: nothing else is ever touched *)
Theorem save_prog_sites_named e st m pc pr pn ts tz ws zs :
  In e (save_prog_sites st m pc pr pn ts tz ws zs) ->
  (forall q, In q (target_sites e) -> q = pc \/ q = pr \/ q = pn) /\
  (forall q, In q (staging_sites e) -> q = ts \/ q = tz).
Proof.
  intros H. apply In_save_prog_sites in H.
  destruct H as [->|[->|[(i & ->)|[(-> & H)|[->| ->]]]]]; cbn [target_sites staging_sites]; split; intros q Hq.
  - destruct Hq as [<-|[]]. left; reflexivity.
  - destruct Hq.
  - destruct Hq.
  - destruct Hq as [<-|[<-|[]]]; [left | right]; reflexivity.
  - destruct Hq.
  - destruct Hq as [<-|[]]. left; reflexivity.
  - assert (T : target_sites e = []).
    { unfold zip_phase in H. destruct H as [<-|H]; [reflexivity|].
      apply in_app_or in H. destruct H as [H|[<-|[]]]; [|reflexivity].
      apply in_map_iff in H. destruct H as (i & <- & _). reflexivity. }
    rewrite T in Hq. destruct Hq.
  - assert (T : staging_sites e = [tz]).
    { unfold zip_phase in H. destruct H as [<-|H]; [reflexivity|].
      apply in_app_or in H. destruct H as [H|[<-|[]]]; [|reflexivity].
      apply in_map_iff in H. destruct H as (i & <- & _). reflexivity. }
    rewrite T in Hq. destruct Hq as [<-|[]]. right; reflexivity.
  - destruct Hq as [<-|[]]. right; left; reflexivity.
  - destruct Hq.
  - destruct Hq as [<-|[]]. right; right; reflexivity.
  - destruct Hq as [<-|[]]. destruct st; [right | left]; reflexivity.
Qed.

(* the existence check must look at the location the rename goes to: a protocol that checks any
   OTHER location pc overwrites an existing target in write-once mode (this is the seeded change
   "existence check on the un-normalised name") *)
Theorem check_site_matters st pc p ts tz ws zs :
  pc <> p -> pc <> ts -> pc <> tz -> p <> ts -> p <> tz -> ts <> tz ->
  exists fs,
    temps_ok p ts tz fs /\ fs p <> Absent /\
    let prog := save_prog_sites st MW pc p p ts tz ws zs in
    fst (run (length prog) prog fs) p <> fs p /\ snd (run (length prog) prog fs) = Done /\
    fst (run (length prog) prog fs) p = final_entry st ws zs.
Proof.
  intros Hpc Hpcts Hpctz Hpts Hptz Htstz.
  set (fs := fun q => if Nat.eqb q p then Other 0 else Absent).
  assert (Fp : fs p = Other 0) by (unfold fs; rewrite Nat.eqb_refl; reflexivity).
  assert (Fo : forall q, q <> p -> fs q = Absent).
  { intros q Hq. unfold fs. destruct (Nat.eqb_spec q p); [contradiction | reflexivity]. }
  assert (Hok : temps_ok p ts tz fs).
  { repeat split; try assumption; apply Fo; intros E; [apply Hpts | apply Hptz]; symmetry; exact E. }
  exists fs. split; [exact Hok|]. split; [rewrite Fp; discriminate|].
  intros prog.
  assert (Hrun : forall k, run k prog fs = run k (save_prog st MO p ts tz ws zs) fs).
  { intros k. unfold prog, save_prog_sites, save_prog, run. destruct k as [|k]; cbn [run_prefix]; [reflexivity|].
    cbn [step]. rewrite (Fo pc Hpc). cbn [present]. reflexivity. }
  assert (Hlen : length prog = length (save_prog st MO p ts tz ws zs)).
  { unfold prog, save_prog_sites, save_prog. cbn [length]. rewrite !app_length. reflexivity. }
  rewrite Hrun, Hlen.
  destruct (success_complete st MO p ts tz ws zs fs (length (save_prog st MO p ts tz ws zs)) Hok
              (or_introl eq_refl) (le_n _)) as [Hf Hd].
  repeat split; [|exact Hd | exact Hf].
  rewrite Hf, Fp. destruct st; discriminate.
Qed.

(* ================================================================ the call *)
Section CallProofs.
  Variable loc : string -> path.
  Variable tmp : path -> path * path.

  Definition tmp_ok (p : path) (fs : fsys) : Prop := temps_ok p (fst (tmp p)) (snd (tmp p)) fs.

  Notation target := (call_target loc).
  Notation prog := (call_prog loc tmp).
  Notation runc := (run_call loc tmp).

  (* every site of a call that names the target is fed with the location of the RESOLVED name
     (existence check, removal, rename), and the staging area is the one derived from it *)
  Theorem call_sites_resolved a s m ws zs e :
    In e (prog a s m ws zs) ->
    (forall q, In q (target_sites e) -> q = target a s) /\
    (forall q, In q (staging_sites e) -> q = fst (tmp (target a s)) \/ q = snd (tmp (target a s))).
  Proof.
    unfold call_prog. fold (target a s).
    destruct (validate (fst (resolve a s)) (snd (resolve a s))) as [st| |].
    - intros H. rewrite <- save_prog_sites_same in H.
      destruct (save_prog_sites_named _ _ _ _ _ _ _ _ _ _ H) as [Ht Hs]. split; [|exact Hs].
      intros q Hq. destruct (Ht q Hq) as [E|[E|E]]; exact E.
    - intros [<-|[]]. cbn [target_sites staging_sites]. split; [intros q [<-|[]]; reflexivity | intros q []].
    - intros [<-|[]]. cbn [target_sites staging_sites]. split; [intros q [<-|[]]; reflexivity | intros q []].
  Qed.

  (* the first effect of every call is the existence check of the resolved location *)
  Theorem call_check_first a s m ws zs :
    exists rest, prog a s m ws zs = CheckTarget m (target a s) :: rest.
  Proof.
    unfold call_prog. fold (target a s).
    destruct (validate (fst (resolve a s)) (snd (resolve a s))); eexists; reflexivity.
  Qed.

  Lemma run_check_only k m p fs :
    (forall q, fst (run k [CheckTarget m p] fs) q = fs q) /\
    (snd (run k [CheckTarget m p] fs) = Faulted \/ snd (run k [CheckTarget m p] fs) = ErrExists \/
     snd (run k [CheckTarget m p] fs) = Done) /\
    (1 <= k -> m = MW -> fs p <> Absent -> snd (run k [CheckTarget m p] fs) = ErrExists).
  Proof.
    unfold run. destruct k as [|k]; cbn [run_prefix fault_handlers unwind fst snd].
    - split; [reflexivity|]. split; [left; reflexivity | lia].
    - cbn [step]. destruct m.
      + destruct (present (fs p)) eqn:E; cbn [unwind run_prefix fst snd handlers_after].
        * split; [reflexivity|]. split; [right; left; reflexivity | reflexivity].
        * split; [reflexivity|]. split; [right; right; reflexivity|]. intros _ _ H.
          destruct (fs p); [contradiction H; reflexivity | discriminate E | discriminate E | discriminate E].
      + cbn [unwind run_prefix fst snd handlers_after].
        split; [reflexivity|]. split; [right; right; reflexivity | intros _ H; discriminate H].
  Qed.

  (* write-once, for the call: an existing RESOLVED target is never modified, whatever name and
     store argument the caller used, valid or not (FileExistsError comes before ValueError) *)
  Theorem call_write_once a s ws zs fs k :
    tmp_ok (target a s) fs -> fs (target a s) <> Absent ->
    (forall q, fst (runc k a s MW ws zs fs) q = fs q) /\
    (1 <= k -> snd (runc k a s MW ws zs fs) = CExists).
  Proof.
    intros Hok Hp. unfold run_call, call_prog. fold (target a s).
    destruct (validate (fst (resolve a s)) (snd (resolve a s))) as [st| |]; cbn [fst snd].
    - destruct (write_once st MW (target a s) _ _ ws zs fs k Hok eq_refl Hp) as [Hf Ho].
      split; [exact Hf|]. intros Hk. rewrite (Ho Hk). reflexivity.
    - destruct (run_check_only k MW (target a s) fs) as (Hf & _ & Ho).
      split; [exact Hf|]. intros Hk. rewrite (Ho Hk eq_refl Hp). reflexivity.
    - destruct (run_check_only k MW (target a s) fs) as (Hf & _ & Ho).
      split; [exact Hf|]. intros Hk. rewrite (Ho Hk eq_refl Hp). reflexivity.
  Qed.

  (* a call that is refused (unknown store, directory store with a file-like name) changes nothing *)
  Theorem call_refused_untouched a s m ws zs fs k :
    (forall st, validate (fst (resolve a s)) (snd (resolve a s)) <> VStore st) ->
    (forall q, fst (runc k a s m ws zs fs) q = fs q) /\ snd (runc k a s m ws zs fs) <> CDone.
  Proof.
    intros Hv. unfold run_call, call_prog. fold (target a s).
    destruct (validate (fst (resolve a s)) (snd (resolve a s))) as [st| |]; cbn [fst snd].
    - contradiction (Hv st). reflexivity.
    - destruct (run_check_only k m (target a s) fs) as (Hf & [Ho|[Ho|Ho]] & _); (split; [exact Hf|]); rewrite Ho; discriminate.
    - destruct (run_check_only k m (target a s) fs) as (Hf & [Ho|[Ho|Ho]] & _); (split; [exact Hf|]); rewrite Ho; discriminate.
  Qed.

  (* no path other than the resolved target is altered: in particular not the location of the
     name as given when the suffix was appended *)
  Theorem call_frame a s m ws zs fs k q :
    tmp_ok (target a s) fs -> q <> target a s ->
    fst (runc k a s m ws zs fs) q = fs q.
  Proof.
    intros Hok Hq. unfold run_call, call_prog. fold (target a s).
    destruct (validate (fst (resolve a s)) (snd (resolve a s))) as [st| |]; cbn [fst snd].
    - apply frame_all; assumption.
    - apply (run_check_only k m (target a s) fs).
    - apply (run_check_only k m (target a s) fs).
  Qed.

  (* no partial object becomes loadable at the resolved target *)
  Theorem call_no_partial markers a s m ws zs fs k :
    tmp_ok (target a s) fs ->
    match load_model markers (fst (runc k a s m ws zs fs)) (target a s) with
    | LErr => True
    | LObj c => load_model markers fs (target a s) = LObj c \/
                exists st, validate (fst (resolve a s)) (snd (resolve a s)) = VStore st /\
                           c = final_content st ws zs
    end.
  Proof.
    intros Hok. unfold run_call, call_prog. fold (target a s).
    destruct (validate (fst (resolve a s)) (snd (resolve a s))) as [st| |] eqn:Ev; cbn [fst snd].
    - pose proof (no_partial_loadable markers st m (target a s) _ _ ws zs fs k Hok) as H.
      destruct (load_model markers _ (target a s)) as [|c]; [exact I|].
      destruct H as [H|H]; [left; exact H | right; exists st; split; [reflexivity | exact H]].
    - assert (E : load_model markers (fst (run k [CheckTarget m (target a s)] fs)) (target a s)
                  = load_model markers fs (target a s)).
      { unfold load_model. rewrite (proj1 (run_check_only k m (target a s) fs)). reflexivity. }
      rewrite E. destruct (load_model markers fs (target a s)); [exact I | left; reflexivity].
    - assert (E : load_model markers (fst (run k [CheckTarget m (target a s)] fs)) (target a s)
                  = load_model markers fs (target a s)).
      { unfold load_model. rewrite (proj1 (run_check_only k m (target a s) fs)). reflexivity. }
      rewrite E. destruct (load_model markers fs (target a s)); [exact I | left; reflexivity].
  Qed.

  (* a valid, uninterrupted call installs the complete store at the resolved location *)
  Theorem call_success a s m ws zs fs k st :
    tmp_ok (target a s) fs -> (m = MO \/ fs (target a s) = Absent) ->
    validate (fst (resolve a s)) (snd (resolve a s)) = VStore st ->
    length (prog a s m ws zs) <= k ->
    fst (runc k a s m ws zs fs) (target a s) = final_entry st ws zs /\
    snd (runc k a s m ws zs fs) = CDone.
  Proof.
    intros Hok Hm Hv. unfold run_call, call_prog. fold (target a s). rewrite Hv. cbn [fst snd]. intros Hk.
    destruct (success_complete st m (target a s) _ _ ws zs fs k Hok Hm Hk) as [Hf Hd].
    split; [exact Hf | rewrite Hd; reflexivity].
  Qed.

  (* the refactoring that checks the name AS GIVEN while writing to the resolved one breaks
     write-once as soon as the two differ *)
  Theorem raw_name_check_refuted s st ws zs :
    ends_with zipsuf s = false ->
    let p := target AZip s in
    let ts := fst (tmp p) in let tz := snd (tmp p) in
    loc s <> p -> loc s <> ts -> loc s <> tz -> p <> ts -> p <> tz -> ts <> tz ->
    p = loc (s ++ zipsuf)%string /\
    exists fs,
      temps_ok p ts tz fs /\ fs p <> Absent /\
      let pr := save_prog_sites st MW (loc s) p p ts tz ws zs in
      fst (run (length pr) pr fs) p <> fs p /\ snd (run (length pr) pr fs) = Done.
  Proof.
    intros E p ts tz H1 H2 H3 H4 H5 H6. split.
    - unfold p, call_target, resolve. cbn [infer snd]. rewrite E. reflexivity.
    - destruct (check_site_matters st (loc s) p ts tz ws zs H1 H2 H3 H4 H5 H6) as (fs & A & B & C & D & _).
      exists fs. split; [exact A|]. split; [exact B|]. intros pr. split; [exact C | exact D].
  Qed.
End CallProofs.

(* ================================================================ (B) faults inside handlers / effects *)
Definition outcome_of_x (E : env) (r : res) : fsys * outcome :=
  match r with
  | Stopped f o => (f, o)
  | Continue _ hs f => (unwind_x E hs f, Done)
  end.

Lemma run_prefix_x_mid E prog : forall k hs fs,
  outcome_of_x E (run_prefix_x E k prog hs fs) = finish_x E (mid k prog hs fs).
Proof.
  induction prog as [|e prog IH]; intros k hs fs; cbn [run_prefix_x mid].
  - reflexivity.
  - destruct k as [|k]; [reflexivity|].
    destruct (step e fs) as [err|fs1]; [reflexivity | apply IH].
Qed.

Lemma run_x_mid E k prog fs : run_x E k prog fs = finish_x E (mid k prog [] fs).
Proof.
  rewrite <- run_prefix_x_mid. unfold run_x, outcome_of_x.
  destruct (run_prefix_x E k prog [] fs); reflexivity.
Qed.

Lemma unwind_x_std hs : forall fs, unwind_x std_env hs fs = unwind hs fs.
Proof. induction hs as [|h hs IH]; intros fs; cbn [unwind_x unwind]; [reflexivity | apply IH]. Qed.

Lemma run_prefix_mid prog : forall k hs fs,
  outcome_of (run_prefix k prog hs fs) = finish_x std_env (mid k prog hs fs).
Proof.
  induction prog as [|e prog IH]; intros k hs fs; cbn [run_prefix mid].
  - cbn [outcome_of finish_x]. rewrite unwind_x_std. reflexivity.
  - destruct k as [|k].
    + cbn [outcome_of finish_x std_env inside]. rewrite unwind_x_std. reflexivity.
    + destruct (step e fs) as [err|fs1]; [|apply IH].
      cbn [outcome_of finish_x]. rewrite unwind_x_std. reflexivity.
Qed.

Lemma run_mid k prog fs : run k prog fs = finish_x std_env (mid k prog [] fs).
Proof. rewrite run_outcome_of. apply run_prefix_mid. Qed.

(* the standard environment is the behaviour of C08_Model.run *)
Theorem run_x_std k prog fs : run_x std_env k prog fs = run k prog fs.
Proof. rewrite run_x_mid, run_mid. reflexivity. Qed.

(* a handler, however it fails, only acts on the paths it was registered for *)
Definition hconfined (E : env) : Prop :=
  forall h fs q, ~ In q (htouches h) -> hrun E h fs q = fs q.

Lemma unwind_x_frame E hs : forall fs q,
  hconfined E -> (forall h, In h hs -> ~ In q (htouches h)) -> unwind_x E hs fs q = fs q.
Proof.
  induction hs as [|h hs IH]; intros fs q HE H; cbn [unwind_x]; [reflexivity|].
  rewrite IH; [|exact HE | intros h' Hh'; apply H; right; exact Hh'].
  apply HE. apply H. left; reflexivity.
Qed.

Definition mid_hs (r : midres) : list handler :=
  match r with MFault _ hs _ => hs | MErr _ hs _ => hs | MEnd _ hs _ => hs end.
Definition mid_fs (r : midres) : fsys :=
  match r with MFault _ _ f => f | MErr _ _ f => f | MEnd _ _ f => f end.

Lemma handlers_after_split e hs h :
  In h (handlers_after e hs) -> In h hs \/ In h (handlers_after e []).
Proof.
  intros Hi. destruct e; cbn [handlers_after] in Hi |- *; try (left; exact Hi).
  - destruct Hi as [<-|Hi]; [right; left; reflexivity | left; exact Hi].
  - destruct Hi as [<-|Hi]; [right; left; reflexivity | left; exact Hi].
  - left. apply In_tl. exact Hi.
Qed.

(* the handlers in force when the run stops were registered by effects of the program *)
Lemma mid_handlers_reg q prog : forall k hs fs,
  (forall e, In e prog -> forall h, In h (handlers_after e []) -> ~ In q (htouches h)) ->
  (forall h, In h hs -> ~ In q (htouches h)) ->
  forall h, In h (mid_hs (mid k prog hs fs)) -> ~ In q (htouches h).
Proof.
  induction prog as [|e prog IH]; intros k hs fs Hreg Hh; cbn [mid]; [exact Hh|].
  destruct k as [|k].
  - cbn [mid_hs]. apply fault_handlers_touch. exact Hh.
  - destruct (step e fs) as [err|fs1]; [exact Hh|].
    apply IH; [intros e' He'; apply Hreg; right; exact He'|].
    intros h Hi. destruct (handlers_after_split e hs h Hi) as [Hc|Hc];
      [apply Hh; exact Hc | apply (Hreg e (or_introl eq_refl)); exact Hc].
Qed.

Lemma mid_frame q prog : forall k hs fs,
  (forall e, In e prog -> ~ In q (touches e)) -> mid_fs (mid k prog hs fs) q = fs q.
Proof.
  induction prog as [|e prog IH]; intros k hs fs He; cbn [mid]; [reflexivity|].
  destruct k as [|k]; [reflexivity|].
  destruct (step e fs) as [err|fs1] eqn:Es; [reflexivity|].
  rewrite IH by (intros e' He'; apply He; right; exact He').
  apply (step_frame e fs fs1 q Es). apply He. left; reflexivity.
Qed.

Lemma mid_fault_in prog : forall k hs fs e hs' f,
  mid k prog hs fs = MFault e hs' f -> In e prog.
Proof.
  induction prog as [|e0 prog IH]; intros k hs fs e hs' f H; cbn [mid] in H; [discriminate|].
  destruct k as [|k]; [inversion H; left; reflexivity|].
  destruct (step e0 fs) as [err|fs1]; [discriminate|]. right. eapply IH. exact H.
Qed.

Lemma mid_app a : forall b k hs fs,
  mid k (a ++ b) hs fs =
  match mid k a hs fs with
  | MEnd k' hs' f' => mid k' b hs' f'
  | r => r
  end.
Proof.
  induction a as [|e a IH]; intros b k hs fs; cbn [app mid]; [reflexivity|].
  destruct k as [|k]; [reflexivity|].
  destruct (step e fs) as [err|fs1]; [reflexivity | apply IH].
Qed.

(* generic agreement: on a path that no registered handler names and that no interrupted effect
   damages, a run with failing clean-up / interruptible effects ends exactly as the standard one *)
Theorem run_x_agrees E k prog fs q :
  hconfined E ->
  (forall e, In e prog -> forall h, In h (handlers_after e []) -> ~ In q (htouches h)) ->
  (forall e f, In e prog -> inside E e f q = f q) ->
  fst (run_x E k prog fs) q = fst (run k prog fs) q.
Proof.
  intros HE Hreg Hin. rewrite run_x_mid, run_mid.
  pose proof (mid_handlers_reg q prog k [] fs Hreg (fun h (F : In h []) => match F with end)) as Hhs.
  assert (HS : hconfined std_env) by (intros h f r Hr; apply run_handler_frame; exact Hr).
  destruct (mid k prog [] fs) as [e hs f|o hs f|k' hs f] eqn:Em; cbn [finish_x fst mid_hs] in *.
  - rewrite !unwind_x_frame by assumption. cbn [std_env inside].
    apply Hin. eapply mid_fault_in. exact Em.
  - rewrite !unwind_x_frame by assumption. reflexivity.
  - rewrite !unwind_x_frame by assumption. reflexivity.
Qed.

Theorem run_x_outcome E k prog fs : snd (run_x E k prog fs) = snd (run k prog fs).
Proof. rewrite run_x_mid, run_mid. destruct (mid k prog [] fs); reflexivity. Qed.

(* ---------------------------------------------------------------- save_prog under an environment *)
Definition save_head (st : store) (m : mode) (p ts tz : path) (ws zs : list item) : list effect :=
  CheckTarget m p :: MkTemp ts tz ::
  map (WriteItem ts) ws ++ match st with SZip => zip_phase tz zs | SDir => [] end.

Lemma save_prog_split st m p ts tz ws zs :
  save_prog st m p ts tz ws zs =
  save_head st m p ts tz ws zs ++ [RemoveTarget p; Rename (staged st ts tz) p].
Proof. unfold save_prog, save_head. cbn [app]. rewrite <- app_assoc. reflexivity. Qed.

Lemma save_head_touch st m p ts tz ws zs e q :
  q <> ts -> q <> tz -> In e (save_head st m p ts tz ws zs) -> ~ In q (touches e).
Proof.
  intros H1 H2 H. unfold save_head in H. destruct H as [<-|[<-|H]].
  - intros [].
  - cbn [touches In]. intros [E|[E|[]]]; [apply H1 | apply H2]; symmetry; exact E.
  - apply in_app_or in H. destruct H as [H|H].
    + apply in_map_iff in H. destruct H as (i & <- & _). cbn [touches In]. intros [E|[]]. apply H1. symmetry; exact E.
    + destruct st; [|destruct H]. rewrite (In_zip_phase e tz zs H). intros [E|[]]. apply H2. symmetry; exact E.
Qed.

Lemma save_prog_registered st m p ts tz ws zs e h q :
  q <> ts -> q <> tz -> In e (save_prog st m p ts tz ws zs) -> In h (handlers_after e []) -> ~ In q (htouches h).
Proof.
  intros H1 H2 He Hh. rewrite <- save_prog_sites_same in He. apply In_save_prog_sites in He.
  destruct He as [->|[->|[(i & ->)|[(_ & He)|[->| ->]]]]]; cbn [handlers_after tl] in Hh; try (destruct Hh; fail).
  - destruct Hh as [<-|[]]. cbn [htouches In]. intros [E|[E|[]]]; [apply H1 | apply H2]; symmetry; exact E.
  - unfold zip_phase in He. destruct He as [<-|He].
    + destruct Hh as [<-|[]]. cbn [htouches In]. intros [E|[]]. apply H2. symmetry; exact E.
    + apply in_app_or in He. destruct He as [He|[<-|[]]].
      * apply in_map_iff in He. destruct He as (i & <- & _). destruct Hh.
      * destruct Hh.
Qed.

Definition effect_is_remove (e : effect) (p : path) : bool :=
  match e with RemoveTarget q => Nat.eqb q p | _ => false end.

(* an environment that is confined: handlers to what they were registered for, interrupted effects
   to the staging area — except the removal of the old target, which may be interrupted part-way *)
Definition env_ok (E : env) (p ts tz : path) : Prop :=
  hconfined E /\
  (forall e f q, q <> ts -> q <> tz -> q <> p -> inside E e f q = f q) /\
  (forall e f, effect_is_remove e p = false -> inside E e f p = f p).

Theorem run_x_save_prog E st m p ts tz ws zs fs k :
  temps_ok p ts tz fs -> env_ok E p ts tz ->
  let r := run_x E k (save_prog st m p ts tz ws zs) fs in
  let r0 := run k (save_prog st m p ts tz ws zs) fs in
  (forall q, q <> p -> q <> ts -> q <> tz -> fst r q = fs q) /\
  snd r = snd r0 /\
  (fst r p = fst r0 p \/
   (exists f, f p = fs p /\ fst r p = inside E (RemoveTarget p) f p /\ snd r = Faulted /\ fst r0 p = fs p)).
Proof.
  intros Hok (HE & Hside & Htgt) r r0.
  assert (Hok' := Hok). destruct Hok' as (Hpts & Hptz & Htstz & Hts0 & Htz0).
  split; [|split].
  - intros q Hq Hq1 Hq2. unfold r.
    rewrite (run_x_agrees E k (save_prog st m p ts tz ws zs) fs q HE).
    + apply frame_all; assumption.
    + intros e He h Hh. exact (save_prog_registered st m p ts tz ws zs e h q Hq1 Hq2 He Hh).
    + intros e f _. apply Hside; assumption.
  - apply run_x_outcome.
  - unfold r, r0. rewrite run_x_mid, run_mid.
    assert (Hhs : forall h, In h (mid_hs (mid k (save_prog st m p ts tz ws zs) [] fs)) -> ~ In p (htouches h)).
    { apply mid_handlers_reg; [|intros h []].
      intros e He h Hh. exact (save_prog_registered st m p ts tz ws zs e h p Hpts Hptz He Hh). }
    assert (HS : hconfined std_env) by (intros h f q Hq; apply run_handler_frame; exact Hq).
    destruct (mid k (save_prog st m p ts tz ws zs) [] fs) as [e hs f|o hs f|k' hs f] eqn:Em;
      cbn [finish_x fst snd mid_hs] in *.
    + rewrite !unwind_x_frame by assumption. cbn [std_env inside].
      destruct (effect_is_remove e p) eqn:Er.
      * right. destruct e; try discriminate Er. cbn [effect_is_remove] in Er. apply Nat.eqb_eq in Er. subst p0.
        assert (Hf : f p = fs p).
        { rewrite save_prog_split, mid_app in Em.
          pose proof (mid_frame p (save_head st m p ts tz ws zs) k [] fs
                        (fun e He => save_head_touch st m p ts tz ws zs e p Hpts Hptz He)) as Hfr.
          destruct (mid k (save_head st m p ts tz ws zs) [] fs) as [e1 hs1 f1|o1 hs1 f1|k1 hs1 f1] eqn:Eh.
          - (* fault inside the head: that effect is not the removal *)
            inversion Em; subst e1 hs1 f1. exfalso.
            apply (save_head_touch st m p ts tz ws zs (RemoveTarget p) p Hpts Hptz).
            + eapply mid_fault_in. exact Eh.
            + left; reflexivity.
          - discriminate Em.
          - cbn [mid_fs] in Hfr. destruct k1 as [|k1]; cbn [mid] in Em.
            + inversion Em; subst f. exact Hfr.
            + change (step (RemoveTarget p) f1) with (@inr outcome fsys (upd f1 p Absent)) in Em.
              cbv iota in Em. destruct k1 as [|k1]; cbn [mid] in Em.
              * inversion Em.
              * destruct (step (Rename (staged st ts tz) p) (upd f1 p Absent)); cbn [mid] in Em; discriminate Em. }
        exists f. repeat split; [exact Hf | exact Hf].
      * left. apply Htgt. exact Er.
    + left. rewrite !unwind_x_frame by assumption. reflexivity.
    + left. rewrite !unwind_x_frame by assumption. reflexivity.
Qed.

(* environments in which the target itself is never damaged by an interrupted effect: failing
   clean-up handlers of any kind, interrupted writes / zip assembly / staging operations *)
Definition env_target_safe (E : env) (p ts tz : path) : Prop :=
  hconfined E /\ (forall e f q, q <> ts -> q <> tz -> inside E e f q = f q).

Theorem run_x_target_safe E st m p ts tz ws zs fs k q :
  temps_ok p ts tz fs -> env_target_safe E p ts tz -> q <> ts -> q <> tz ->
  fst (run_x E k (save_prog st m p ts tz ws zs) fs) q = fst (run k (save_prog st m p ts tz ws zs) fs) q /\
  snd (run_x E k (save_prog st m p ts tz ws zs) fs) = snd (run k (save_prog st m p ts tz ws zs) fs).
Proof.
  intros Hok (HE & Hside) H1 H2. split; [|apply run_x_outcome].
  apply run_x_agrees; [exact HE | |].
  - intros e He h Hh. exact (save_prog_registered st m p ts tz ws zs e h q H1 H2 He Hh).
  - intros e f _. apply Hside; assumption.
Qed.

(* the property for a protocol run under an environment *)
Definition no_partial_under (E : env) : Prop :=
  forall (markers : list item) (st : store) (m : mode) (p ts tz : path) (ws zs : list item)
         (fs : fsys) (k : nat),
    temps_ok p ts tz fs ->
    match load_model markers (fst (run_x E k (save_prog st m p ts tz ws zs) fs)) p with
    | LErr => True
    | LObj c => load_model markers fs p = LObj c \/ c = final_content st ws zs
    end.

Theorem no_partial_any_cleanup E :
  (forall p ts tz, env_target_safe E p ts tz) -> no_partial_under E.
Proof.
  intros HE markers st m p ts tz ws zs fs k Hok.
  assert (Hok' := Hok). destruct Hok' as (Hpts & Hptz & _).
  destruct (run_x_target_safe E st m p ts tz ws zs fs k p Hok (HE p ts tz) Hpts Hptz) as [Hf _].
  pose proof (no_partial_loadable markers st m p ts tz ws zs fs k Hok) as H.
  unfold load_model in *. rewrite Hf. exact H.
Qed.

Theorem write_once_any_cleanup E st p ts tz ws zs fs k q :
  env_target_safe E p ts tz -> temps_ok p ts tz fs -> fs p <> Absent -> q <> ts -> q <> tz ->
  fst (run_x E k (save_prog st MW p ts tz ws zs) fs) q = fs q /\
  (1 <= k -> snd (run_x E k (save_prog st MW p ts tz ws zs) fs) = ErrExists).
Proof.
  intros HE Hok Hp H1 H2.
  destruct (run_x_target_safe E st MW p ts tz ws zs fs k q Hok HE H1 H2) as [Hf Ho].
  destruct (write_once st MW p ts tz ws zs fs k Hok eq_refl Hp) as [Wf Wo].
  split; [rewrite Hf; apply Wf | intros Hk; rewrite Ho; apply Wo; exact Hk].
Qed.

(* --- instances *)
Lemma stuck_env_safe p ts tz : env_target_safe stuck_env p ts tz.
Proof.
  split.
  - intros h fs q Hq. destruct h; cbn [stuck_env hrun]; [reflexivity | apply run_handler_frame; exact Hq].
  - intros e f q _ _. reflexivity.
Qed.

(* ... but a failing TemporaryDirectory clean-up does leave the staging area behind: the frame
   clause cannot hold for the temporary path itself *)
Theorem stuck_leaves_staging :
  exists st m p ts tz ws zs fs k,
    temps_ok p ts tz fs /\ fst (run_x stuck_env k (save_prog st m p ts tz ws zs) fs) ts <> fs ts.
Proof.
  exists SDir, MW, 0, 1, 2, [0; 1]%Z, [], (fun _ => Absent), 3.
  split; [repeat split; discriminate|]. vm_compute. discriminate.
Qed.

Lemma rm_env_ok keep p ts tz : p <> ts -> p <> tz -> env_ok (rm_env keep p) p ts tz.
Proof.
  intros Hpts Hptz. split; [|split].
  - intros h fs q Hq. cbn [rm_env hrun]. apply run_handler_frame. exact Hq.
  - intros e f q _ _ Hq. cbn [rm_env inside]. destruct e; try reflexivity.
    destruct (Nat.eqb p0 p); [|reflexivity]. destruct (f p); try reflexivity. apply upd_other. exact Hq.
  - intros e f Er. cbn [rm_env inside]. destruct e; try reflexivity.
    cbn [effect_is_remove] in Er. rewrite Er. reflexivity.
Qed.

(* ---------------------------------------------------------------- interrupted removal of the old target *)
Lemma unwind_x_rm keep p hs : forall fs, unwind_x (rm_env keep p) hs fs = unwind hs fs.
Proof. induction hs as [|h hs IH]; intros fs; cbn [unwind_x unwind]; [reflexivity | apply IH]. Qed.

Lemma run_handler_agree p h f1 f2 :
  ~ In p (htouches h) -> (forall q, q <> p -> f1 q = f2 q) ->
  forall q, q <> p -> run_handler h f1 q = run_handler h f2 q.
Proof.
  intros Hp H q Hq. destruct h; cbn [run_handler htouches] in *.
  - unfold upd. destruct (Nat.eqb q tz); [reflexivity|]. destruct (Nat.eqb q ts); [reflexivity | apply H; exact Hq].
  - assert (Hz : z <> p) by (intros E; apply Hp; left; exact E).
    rewrite (H z Hz). destruct (f2 z) as [| |[|] c|]; try (apply H; exact Hq).
    unfold upd. destruct (Nat.eqb q z); [reflexivity | apply H; exact Hq].
Qed.

Lemma unwind_agree p hs : forall f1 f2,
  (forall h, In h hs -> ~ In p (htouches h)) -> (forall q, q <> p -> f1 q = f2 q) ->
  forall q, q <> p -> unwind hs f1 q = unwind hs f2 q.
Proof.
  induction hs as [|h hs IH]; intros f1 f2 Hh H q Hq; cbn [unwind]; [apply H; exact Hq|].
  apply IH; [intros h' Hh'; apply Hh; right; exact Hh' | | exact Hq].
  apply run_handler_agree; [apply Hh; left; reflexivity | exact H].
Qed.

Lemma rm_inside_off keep p e f q : q <> p -> inside (rm_env keep p) e f q = f q.
Proof.
  intros Hq. cbn [rm_env inside]. destruct e; try reflexivity.
  destruct (Nat.eqb p0 p); [|reflexivity]. destruct (f p); try reflexivity. apply upd_other. exact Hq.
Qed.

(* shutil.rmtree of the old directory target interrupted part-way: the target is as in the atomic
   model, or it is the OLD directory store with only the items `keep` left; nothing else
   changes (the staging area is cleaned up as usual) and save() ends as in the atomic model *)
Theorem interrupted_removal keep st m p ts tz ws zs fs k :
  temps_ok p ts tz fs ->
  let r := run_x (rm_env keep p) k (save_prog st m p ts tz ws zs) fs in
  (forall q, q <> p -> fst r q = fs q) /\
  snd r = snd (run k (save_prog st m p ts tz ws zs) fs) /\
  (fst r p = fst (run k (save_prog st m p ts tz ws zs) fs) p \/
   exists c, fs p = Dir c /\ fst r p = Dir (keep c) /\ snd r = Faulted).
Proof.
  intros Hok r. assert (Hok' := Hok). destruct Hok' as (Hpts & Hptz & Htstz & Hts0 & Htz0).
  destruct (run_x_save_prog (rm_env keep p) st m p ts tz ws zs fs k Hok (rm_env_ok keep p ts tz Hpts Hptz))
    as (_ & Ho & Hc).
  fold r in Ho, Hc. split; [|split; [exact Ho|]].
  - intros q Hq. rewrite <- (frame_all st m p ts tz ws zs fs k q Hok Hq).
    unfold r. rewrite run_x_mid, run_mid.
    assert (Hhs : forall h, In h (mid_hs (mid k (save_prog st m p ts tz ws zs) [] fs)) -> ~ In p (htouches h)).
    { apply mid_handlers_reg; [|intros h []].
      intros e He h Hh. exact (save_prog_registered st m p ts tz ws zs e h p Hpts Hptz He Hh). }
    destruct (mid k (save_prog st m p ts tz ws zs) [] fs) as [e hs f|o hs f|k' hs f];
      cbn [finish_x fst mid_hs] in *; rewrite unwind_x_rm, unwind_x_std; [|reflexivity|reflexivity].
    apply (unwind_agree p hs); [exact Hhs | | exact Hq].
    intros q' Hq'. cbn [std_env inside]. apply rm_inside_off. exact Hq'.
  - destruct Hc as [Hc|(f & Hf & Hr & Hs & H0)]; [left; exact Hc|].
    cbn [rm_env inside] in Hr. rewrite Nat.eqb_refl, Hf in Hr.
    destruct (fs p) as [|c|cl c|t] eqn:Ep.
    + left. rewrite Hr, H0. exact Hf.
    + right. exists c. split; [reflexivity|]. split; [rewrite Hr; apply upd_same | exact Hs].
    + left. rewrite Hr, H0. exact Hf.
    + left. rewrite Hr, H0. exact Hf.
Qed.

(* what load() can return after an interrupted removal: nothing, what it returned before, the
   complete new object — or a SUB-OBJECT OF THE OLD directory store *)
Theorem interrupted_removal_load markers keep st m p ts tz ws zs fs k :
  temps_ok p ts tz fs ->
  match load_model markers (fst (run_x (rm_env keep p) k (save_prog st m p ts tz ws zs) fs)) p with
  | LErr => True
  | LObj c' => load_model markers fs p = LObj c' \/ c' = final_content st ws zs \/
               exists c, fs p = Dir c /\ c' = keep c
  end.
Proof.
  intros Hok. destruct (interrupted_removal keep st m p ts tz ws zs fs k Hok) as (_ & _ & [Hc|(c & Hc & Hr & _)]).
  - pose proof (no_partial_loadable markers st m p ts tz ws zs fs k Hok) as H.
    unfold load_model in *. rewrite Hc.
    destruct (fst (run k (save_prog st m p ts tz ws zs) fs) p) as [|c|[|] c|t]; try exact I.
    + destruct (has_marker markers c); [|exact I]. destruct H as [H|H]; [left; exact H | right; left; exact H].
    + destruct (has_marker markers c); [|exact I]. destruct H as [H|H]; [left; exact H | right; left; exact H].
  - unfold load_model. rewrite Hr. destruct (has_marker markers (keep c)); [|exact I].
    right; right. exists c. split; [exact Hc | reflexivity].
Qed.

(* when the old target is a file (an archive, any other file: os.remove is atomic) or absent, an
   interrupted removal cannot leave a partial object *)
Theorem interrupted_removal_file_safe markers keep st m p ts tz ws zs fs k :
  temps_ok p ts tz fs -> (forall c, fs p <> Dir c) ->
  match load_model markers (fst (run_x (rm_env keep p) k (save_prog st m p ts tz ws zs) fs)) p with
  | LErr => True
  | LObj c' => load_model markers fs p = LObj c' \/ c' = final_content st ws zs
  end.
Proof.
  intros Hok Hnd. pose proof (interrupted_removal_load markers keep st m p ts tz ws zs fs k Hok) as H.
  destruct (load_model markers _ p) as [|c']; [exact I|].
  destruct H as [H|[H|(c & Hc & _)]]; [left; exact H | right; exact H | contradiction (Hnd c Hc)].
Qed.

(* ... but with an old DIRECTORY store it can: the full statement is refuted for the current
   protocol (remove in place, then rename) as soon as the removal is interruptible *)
Definition ex_fs3 : fsys := fun q => match q with 0 => Dir [1000; 1001; 1002]%Z | _ => Absent end.

Theorem interrupted_removal_refuted : ~ no_partial_under (rm_env (firstn 2) 0).
Proof.
  intros H.
  specialize (H [1000%Z] SDir MO 0 1 2 [0; 1]%Z [] ex_fs3 4).
  assert (Hok : temps_ok 0 1 2 ex_fs3) by (repeat split; discriminate).
  specialize (H Hok). vm_compute in H. destruct H as [H|H]; discriminate H.
Qed.

Theorem interrupted_removal_witness :
  load_model [1000%Z] (fst (run_x (rm_env (firstn 2) 0) 4 (save_prog SDir MO 0 1 2 [0; 1]%Z []) ex_fs3)) 0
  = LObj [1000; 1001]%Z.
Proof. vm_compute. reflexivity. Qed.

(* ================================================================ (C) exception classes *)
Lemma unwind_exc_with x hs : forall fs, unwind_exc with_guards x hs fs = unwind hs fs.
Proof. induction hs as [|h hs IH]; intros fs; cbn [unwind_exc unwind with_guards catches]; [reflexivity | apply IH]. Qed.

Lemma unwind_exc_exception g hs : forall fs, unwind_exc g XException hs fs = unwind hs fs.
Proof.
  induction hs as [|h hs IH]; intros fs; cbn [unwind_exc unwind]; [reflexivity|].
  replace (catches (g h) XException) with true by (destruct (g h); reflexivity). apply IH.
Qed.

(* the clean-up of save() is written with `with` statements: it runs for EVERY class of
   exception (KeyboardInterrupt, SystemExit, GeneratorExit, any BaseException), so the class
   never matters: a fault of any class at k leaves what `run k` says *)
Theorem run_exc_with x k prog fs : run_exc with_guards x k prog fs = run k prog fs.
Proof.
  rewrite run_mid. unfold run_exc. destruct (mid k prog [] fs); cbn [finish_x std_env inside];
    rewrite ?unwind_exc_with, ?unwind_x_std; reflexivity.
Qed.

(* for subclasses of Exception the way the clean-up is guarded does not matter either *)
Theorem run_exc_exception g k prog fs : run_exc g XException k prog fs = run k prog fs.
Proof.
  rewrite run_mid. unfold run_exc. destruct (mid k prog [] fs); cbn [finish_x std_env inside];
    rewrite ?unwind_exc_exception, ?unwind_x_std; reflexivity.
Qed.

(* contrast: clean-up guarded by `except Exception:` would leave the staging area behind on Ctrl-C *)
Theorem except_exception_refuted :
  exists st m p ts tz ws zs fs k,
    temps_ok p ts tz fs /\
    fst (run_exc (fun _ => GExceptException) XKeyboardInterrupt k (save_prog st m p ts tz ws zs) fs) ts <> fs ts /\
    fst (run_exc (fun _ => GExceptException) XException k (save_prog st m p ts tz ws zs) fs) ts = fs ts.
Proof.
  exists SDir, MW, 0, 1, 2, [0; 1]%Z, [], (fun _ => Absent), 3.
  split; [repeat split; discriminate|]. split; vm_compute; [discriminate | reflexivity].
Qed.
