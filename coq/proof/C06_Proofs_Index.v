(* C06 — multi-index addressing of the flat tensors: ravel / unravel / in_bounds, the
   (outer, n, inner) view expressed with multi-indices, tensor extensionality, and the
   multi-index reading of the one-axis steps take_at / reduce_at / lineop_at. *)
From QV.lib Require Import Prelude FinSum.
From QV.model Require Import C06_Model C06_ModelND.
From QV.proof Require Import C06_Proofs C06_Proofs_ND.
From Coq Require Import QArith Qcanon ArithRing Ring.
Local Close Scope Q_scope.
Local Close Scope Qc_scope.
Unset Implicit Arguments.

(* ------------------------------------------------------------------------------------ *)
(* set_nth on index lists *)
Lemma set_nth_comm {A} a b (u v : A) l : a <> b -> a < length l -> b < length l ->
  set_nth a u (set_nth b v l) = set_nth b v (set_nth a u l).
Proof.
  intros Hne Ha Hb. apply (nth_ext _ _ u u).
  - rewrite !set_nth_length; try rewrite set_nth_length; auto.
  - intros i Hi.
    destruct (Nat.eq_dec i a) as [->|Hia]; [|destruct (Nat.eq_dec i b) as [->|Hib]].
    + rewrite nth_set_nth_eq by (rewrite set_nth_length; lia).
      rewrite nth_set_nth_neq by (try rewrite set_nth_length; auto).
      rewrite nth_set_nth_eq by lia. reflexivity.
    + rewrite nth_set_nth_neq by (try rewrite set_nth_length; auto).
      rewrite !nth_set_nth_eq by (try rewrite set_nth_length; lia). reflexivity.
    + rewrite !nth_set_nth_neq by (try rewrite set_nth_length; auto). reflexivity.
Qed.

Lemma firstn_length_eq {A B} a (l : list A) (l' : list B) :
  length l = length l' -> length (firstn a l) = length (firstn a l').
Proof. intros H. rewrite !firstn_length, H. reflexivity. Qed.

Lemma skipn_length_eq {A B} a (l : list A) (l' : list B) :
  length l = length l' -> length (skipn a l) = length (skipn a l').
Proof. intros H. rewrite !skipn_length, H. reflexivity. Qed.

(* ------------------------------------------------------------------------------------ *)
(* ravel through the (outer, n, inner) view of axis a *)
Lemma ravel_nil_r sh : ravel sh [] = 0.
Proof. destruct sh; reflexivity. Qed.

Lemma ravel_view a : forall sh J, a < length sh -> length J = length sh ->
  ravel sh J = (ravel (firstn a sh) (firstn a J) * len_of a sh + nth a J 0) * inner_of a sh
               + ravel (skipn (S a) sh) (skipn (S a) J).
Proof.
  induction a as [|a IH]; intros sh J Ha HJ; destruct sh as [|n sh]; destruct J as [|i J];
    cbn [length] in *; try lia.
  - unfold len_of, inner_of. cbn [firstn skipn nth ravel]. lia.
  - unfold len_of, inner_of in *. cbn [firstn nth ravel]. rewrite !skipn_cons.
    rewrite (IH sh J) by lia.
    assert (Hp : prod sh = prod (firstn a sh) * nth a sh 0 * prod (skipn (S a) sh)).
    { apply (prod_view a sh). lia. }
    rewrite Hp. ring.
Qed.

Lemma in_bounds_cons n sh i J : in_bounds (n :: sh) (i :: J) <-> i < n /\ in_bounds sh J.
Proof.
  unfold in_bounds. cbn [length]. split.
  - intros [Hl H]. split; [apply (H 0); lia|]. split; [lia|]. intros b Hb. apply (H (S b)). lia.
  - intros [Hi [Hl H]]. split; [lia|]. intros [|b] Hb; [exact Hi|]. apply H. lia.
Qed.

Lemma ravel_lt : forall sh J, in_bounds sh J -> ravel sh J < prod sh.
Proof.
  induction sh as [|n sh IH]; intros J HJ.
  - cbn. lia.
  - destruct J as [|i J]; [destruct HJ as [Hl _]; discriminate|].
    apply in_bounds_cons in HJ. destruct HJ as [Hi HJ].
    cbn [ravel]. rewrite prod_cons. specialize (IH J HJ). apply idx_lt; assumption.
Qed.

Lemma in_bounds_firstn a sh J : in_bounds sh J -> in_bounds (firstn a sh) (firstn a J).
Proof.
  intros [Hl H]. split; [apply firstn_length_eq; exact Hl|].
  intros b Hb. rewrite firstn_length in Hb.
  rewrite !nth_firstn' by lia. apply H. lia.
Qed.

Lemma in_bounds_skipn a sh J : in_bounds sh J -> in_bounds (skipn a sh) (skipn a J).
Proof.
  intros [Hl H]. split; [apply skipn_length_eq; exact Hl|].
  intros b Hb. rewrite skipn_length in Hb.
  rewrite !nth_skipn'. apply H. lia.
Qed.

(* the three coordinates of the view are in range *)
Lemma view_bounds a sh J : a < length sh -> in_bounds sh J ->
  ravel (firstn a sh) (firstn a J) < outer_of a sh /\ nth a J 0 < len_of a sh /\
  ravel (skipn (S a) sh) (skipn (S a) J) < inner_of a sh.
Proof.
  intros Ha HJ. unfold outer_of, len_of, inner_of. repeat split.
  - apply ravel_lt. apply in_bounds_firstn. exact HJ.
  - destruct HJ as [_ H]. apply H. exact Ha.
  - apply ravel_lt. apply in_bounds_skipn. exact HJ.
Qed.

(* changing the length of axis a in the shape / the coordinate a in the index *)
Lemma ravel_set_shape a v sh J : a < length sh -> length J = length sh ->
  ravel (set_nth a v sh) J
  = (ravel (firstn a sh) (firstn a J) * v + nth a J 0) * inner_of a sh + ravel (skipn (S a) sh) (skipn (S a) J).
Proof.
  intros Ha HJ. rewrite (ravel_view a) by (rewrite set_nth_length; assumption).
  rewrite firstn_set_nth, skipn_set_nth, len_set_nth, inner_set_nth by lia. reflexivity.
Qed.

Lemma ravel_set_index a v sh J : a < length sh -> length J = length sh ->
  ravel sh (set_nth a v J)
  = (ravel (firstn a sh) (firstn a J) * len_of a sh + v) * inner_of a sh + ravel (skipn (S a) sh) (skipn (S a) J).
Proof.
  intros Ha HJ. rewrite (ravel_view a) by (try rewrite set_nth_length; lia).
  rewrite firstn_set_nth, skipn_set_nth, nth_set_nth_eq by lia. reflexivity.
Qed.

Lemma in_bounds_set a v w sh J : a < length sh -> in_bounds (set_nth a w sh) J ->
  v < w -> in_bounds (set_nth a w sh) (set_nth a v J).
Proof.
  intros Ha [Hl H] Hv. rewrite set_nth_length in Hl by exact Ha.
  split; [rewrite !set_nth_length by lia; exact Hl|].
  intros b Hb. rewrite set_nth_length in Hb by exact Ha.
  destruct (Nat.eq_dec a b) as [<-|Hne].
  - rewrite !nth_set_nth_eq by lia. exact Hv.
  - rewrite (nth_set_nth_neq a b v J) by lia. apply H. rewrite set_nth_length by exact Ha. exact Hb.
Qed.

(* in_bounds after changing one length: pointwise description *)
Lemma in_bounds_set_shape a w sh J : a < length sh ->
  (in_bounds (set_nth a w sh) J <->
   length J = length sh /\ nth a J 0 < w /\ forall b, b < length sh -> b <> a -> nth b J 0 < nth b sh 0).
Proof.
  intros Ha. unfold in_bounds. rewrite set_nth_length by exact Ha. split.
  - intros [Hl H]. split; [exact Hl|]. split.
    + specialize (H a Ha). rewrite nth_set_nth_eq in H by lia. exact H.
    + intros b Hb Hne. specialize (H b Hb). rewrite nth_set_nth_neq in H by lia. exact H.
  - intros (Hl & Hw & H). split; [exact Hl|]. intros b Hb.
    destruct (Nat.eq_dec a b) as [<-|Hne].
    + rewrite nth_set_nth_eq by lia. exact Hw.
    + rewrite nth_set_nth_neq by lia. apply H; lia.
Qed.

(* ------------------------------------------------------------------------------------ *)
(* unravel inverts ravel: every flat position is a multi-index *)
Lemma unravel_ok : forall sh p, p < prod sh -> in_bounds sh (unravel sh p) /\ ravel sh (unravel sh p) = p.
Proof.
  induction sh as [|n sh IH]; intros p Hp.
  - cbn in Hp. split; [split; [reflexivity | cbn; intros; lia]|]. cbn. lia.
  - rewrite prod_cons in Hp. cbn [unravel].
    assert (HP : prod sh <> 0) by (intros E; rewrite E in Hp; lia).
    pose proof (Nat.mod_upper_bound p (prod sh) HP) as Hm.
    destruct (IH (p mod prod sh) Hm) as [Hb Hr].
    split.
    + apply in_bounds_cons. split; [|exact Hb].
      apply Nat.div_lt_upper_bound; [exact HP | lia].
    + cbn [ravel]. rewrite Hr. pose proof (Nat.div_mod p (prod sh) HP). lia.
Qed.

(* two well-formed tensors of the same shape with the same entries are equal *)
Theorem tensor_ext {A} (d : A) (t1 t2 : tensor A) :
  wf t1 -> wf t2 -> shape t1 = shape t2 ->
  (forall J, in_bounds (shape t1) J -> get d t1 J = get d t2 J) -> t1 = t2.
Proof.
  destruct t1 as [sh x1], t2 as [sh2 x2]. unfold wf, get. cbn [shape data].
  intros H1 H2 <- H. f_equal. apply (nth_ext _ _ d d); [lia|].
  intros p Hp. rewrite H1 in Hp. destruct (unravel_ok sh p Hp) as [Hb Hr].
  specialize (H _ Hb). rewrite Hr in H. exact H.
Qed.

(* ------------------------------------------------------------------------------------ *)
(* multi-index reading of the cut step and of the block-reduction step of Dataset.bin *)
Theorem get_take_at {A} (d : A) a L (t : tensor A) J :
  wf t -> a < length (shape t) -> L <= len_of a (shape t) ->
  in_bounds (set_nth a L (shape t)) J ->
  get d (take_at a L t) J = get d t J.
Proof.
  intros Hw Ha HL HJ. unfold get. cbn [take_at shape].
  pose proof (proj1 (in_bounds_set_shape a _ _ J Ha) HJ) as (Hl & _ & _).
  assert (Ha' : forall v, a < length (set_nth a v (shape t))) by (intros v; rewrite set_nth_length; assumption).
  pose proof (view_bounds a _ J (Ha' _) HJ) as (Ho & Hi & Hk).
  rewrite firstn_set_nth, outer_set_nth in Ho by lia.
  rewrite len_set_nth in Hi by lia.
  rewrite skipn_set_nth, inner_set_nth in Hk by lia.
  rewrite ravel_set_shape by assumption.
  rewrite (ravel_view a (shape t) J) by assumption.
  apply (take_at_nth a L t _ _ _ d); assumption.
Qed.

Theorem get_reduce_at a f (t : tensor Qc) J :
  a < length (shape t) -> len_of a (shape t) = (len_of a (shape t) / f) * f ->
  in_bounds (set_nth a (len_of a (shape t) / f) (shape t)) J ->
  get 0%Qc (reduce_at a f t) J
  = FinSum.sumn 0%Qc Qcplus f (fun u => get 0%Qc t (set_nth a (nth a J 0 * f + u) J)).
Proof.
  intros Ha Hcut HJ. unfold get. cbn [reduce_at shape data].
  pose proof (proj1 (in_bounds_set_shape a _ _ J Ha) HJ) as (Hl & _ & _).
  assert (Ha' : forall v, a < length (set_nth a v (shape t))) by (intros v; rewrite set_nth_length; assumption).
  pose proof (view_bounds a _ J (Ha' _) HJ) as (Ho & Hi & Hk).
  rewrite firstn_set_nth, outer_set_nth in Ho by lia.
  rewrite len_set_nth in Hi by lia.
  rewrite skipn_set_nth, inner_set_nth in Hk by lia.
  rewrite ravel_set_shape by assumption.
  pose proof (reduce_at_block_sum a f t _ _ _ Ha Ho Hi Hk) as E. cbn [reduce_at data] in E. rewrite E.
  apply (sumn_ext Qcrt). intros u Hu.
  rewrite ravel_set_index by assumption. rewrite <- Hcut. reflexivity.
Qed.

(* ------------------------------------------------------------------------------------ *)
(* multi-index reading of a line operator along one axis *)
Section LineOpIndex.
  Variable R : Type.
  Variable rO : R.

  (* K reads only the first n samples of its argument when producing the first m outputs *)
  Definition ext_on (n m : nat) (K : (nat -> R) -> nat -> R) : Prop :=
    forall x y j, j < m -> (forall i, i < n -> x i = y i) -> K x j = K y j.

  Lemma lineop_axis_length K outer n inner m x :
    length (lineop_axis rO K outer n inner m x) = outer * (m * inner).
  Proof.
    unfold lineop_axis. apply flat_map_length_const. intros o _.
    rewrite (flat_map_length_const _ inner); [reflexivity|]. intros j _.
    rewrite !map_length, seq_length. reflexivity.
  Qed.

  Lemma lineop_axis_nth K outer n inner m x o j k :
    o < outer -> j < m -> k < inner ->
    nth ((o * m + j) * inner + k) (lineop_axis rO K outer n inner m x) rO = K (line rO n inner o k x) j.
  Proof.
    intros Ho Hj Hk. unfold lineop_axis.
    replace ((o * m + j) * inner + k) with (o * (m * inner) + (j * inner + k)) by ring.
    rewrite (nth_flat_map_const _ (m * inner) outer); try assumption.
    - rewrite (nth_flat_map_const _ inner m); try assumption.
      + cbv zeta. rewrite map_map.
        rewrite (nth_map_seq' R (fun k0 => nth j (map (K (line rO n inner o k0 x)) (seq 0 m)) rO)) by exact Hk.
        apply nth_map_seq'. exact Hj.
      + intros i _. rewrite !map_length, seq_length. reflexivity.
    - intros i _. rewrite (flat_map_length_const _ inner); [reflexivity|]. intros j' _.
      rewrite !map_length, seq_length. reflexivity.
    - pose proof (idx_lt m inner j k Hj Hk). lia.
  Qed.

  Lemma lineop_at_wf a m K (t : tensor R) : a < length (shape t) -> wf (lineop_at rO a m K t).
  Proof.
    intros Ha. unfold wf. cbn [lineop_at data shape].
    rewrite lineop_axis_length, prod_set_nth by exact Ha. lia.
  Qed.

  Theorem get_lineop_at a m K (t : tensor R) J :
    a < length (shape t) -> ext_on (len_of a (shape t)) m K ->
    in_bounds (set_nth a m (shape t)) J ->
    get rO (lineop_at rO a m K t) J = K (fun i => get rO t (set_nth a i J)) (nth a J 0).
  Proof.
    intros Ha HK HJ. unfold get at 1. cbn [lineop_at shape data].
    pose proof (proj1 (in_bounds_set_shape a _ _ J Ha) HJ) as (Hl & _ & _).
    assert (Ha' : forall v, a < length (set_nth a v (shape t))) by (intros v; rewrite set_nth_length; assumption).
  pose proof (view_bounds a _ J (Ha' _) HJ) as (Ho & Hi & Hk).
    rewrite firstn_set_nth, outer_set_nth in Ho by lia.
    rewrite len_set_nth in Hi by lia.
    rewrite skipn_set_nth, inner_set_nth in Hk by lia.
    rewrite ravel_set_shape by assumption.
    rewrite lineop_axis_nth by assumption.
    apply HK; [exact Hi|]. intros i _. unfold line, get.
    rewrite ravel_set_index by assumption. reflexivity.
  Qed.
End LineOpIndex.
Arguments ext_on {R} n m K.
