(* C19 — set as a context manager: __exit__ undoes __init__ exactly (any number of items,
   the same key several times, nested inserts), and undoing keeps the one-spelling invariant
   whatever the body of the with-block did to the store *)
From QV.lib Require Import Prelude.
From QV.model Require Import C19_Model.
From QV.proof Require Import C19_Proofs_Keys C19_Proofs_Set.
From Coq Require Import String Ascii.

Lemma canon_mem k d : mem k d = true -> canon k d = k.
Proof. unfold canon. intros ->. reflexivity. Qed.

Lemma mem_assign_same k v d : mem k (assign k v d) = true.
Proof. rewrite mem_assign, String.eqb_refl, orb_true_r. reflexivity. Qed.

Lemma canon_assign_same k v d : canon k (assign k v d) = k.
Proof. apply canon_mem. apply mem_assign_same. Qed.

Section Ctx.
  Variable validate : cfg -> err + string.

  Lemma assign_path_nonempty rest k v d d' p o :
    assign_path k rest v d = inr (d', (p, o)) -> p <> [].
  Proof.
    destruct rest as [|k2 rest]; cbn [assign_path]; intros H.
    - inversion H; discriminate.
    - destruct (lookup (canon k d) d) as [[x|sub]|]; [discriminate| |].
      + destruct (assign_path k2 rest v sub) as [e|[sub' [p0 o0]]]; [discriminate|]. inversion H; discriminate.
      + destruct (assign_path k2 rest v []) as [e|[sub' rc]]; [discriminate|]. inversion H; discriminate.
  Qed.

  Lemma restore_leaf_insert k' v d :
    lookup k' d = None -> restore1 ([k'], None) (assign k' v d) = inr d.
  Proof.
    intros L. cbn [restore1 restore_insert]. rewrite canon_assign_same, (remove_assign_fresh _ _ _ L). reflexivity.
  Qed.

  (* one assignment of __init__ is undone by its record *)
  Lemma restore_after_assign : forall rest k v d d' p o,
    assign_path k rest v d = inr (d', (p, o)) -> restore1 (p, o) d' = inr d.
  Proof.
    induction rest as [|k2 rest IH]; intros k v d d' p o H; cbn [assign_path] in H.
    - inversion H; subst. destruct (lookup (canon k d) d) as [old|] eqn:L.
      + cbn [restore1 restore_replace]. rewrite canon_assign_same, assign_assign, (assign_same _ _ _ L). reflexivity.
      + apply restore_leaf_insert. exact L.
    - destruct (lookup (canon k d) d) as [[x|sub]|] eqn:L; [discriminate| |].
      + destruct (assign_path k2 rest v sub) as [e|[sub' [p0 o0]]] eqn:A; [discriminate|].
        inversion H; subst. pose proof (assign_path_nonempty _ _ _ _ _ _ _ A) as Hne.
        specialize (IH _ _ _ _ _ _ A). destruct p0 as [|a p0]; [congruence|]. clear Hne.
        set (k' := canon k d) in *.
        destruct o as [old|]; cbn [restore1] in *.
        * cbn [restore_replace]. rewrite canon_assign_same, lookup_assign_same.
          cbn [restore_replace] in IH. rewrite IH.
          rewrite assign_assign, (assign_same _ _ _ L). reflexivity.
        * cbn [restore_insert]. rewrite canon_assign_same, lookup_assign_same.
          cbn [restore_insert] in IH. rewrite IH.
          rewrite assign_assign, (assign_same _ _ _ L). reflexivity.
      + destruct (assign_path k2 rest v []) as [e|[sub' rc]] eqn:A; [discriminate|].
        inversion H; subst. apply restore_leaf_insert. exact L.
  Qed.

  Lemma restore_after_set_item key v d d' rc :
    set_item validate key v d = inr (d', rc) -> restore1 rc d' = inr d.
  Proof.
    unfold set_item. destruct (check_key_val validate key v) as [e|v']; [discriminate|].
    destruct (split_dot key) as [k rest]. destruct rc as [p o]. apply restore_after_assign.
  Qed.

  Lemma restore_all_app a : forall b d,
    restore_all (a ++ b) d =
    match restore_all a d with (d1, None) => restore_all b d1 | x => x end.
  Proof.
    induction a as [|r a IH]; intros b d; cbn [app restore_all]; [reflexivity|].
    destruct (restore1 r d) as [e|d1]; [reflexivity | apply IH].
  Qed.

  Lemma set_items_restore l : forall d recs d' recs',
    set_items validate l d recs = (d', recs', None) ->
    exists new, recs' = recs ++ new /\ restore_all (rev new) d' = (d, None).
  Proof.
    induction l as [|[key v] l IH]; intros d recs d' recs' H; cbn [set_items] in H.
    - inversion H; subst. exists []. rewrite app_nil_r. split; reflexivity.
    - destruct (set_item validate key v d) as [e|[d1 rc]] eqn:S; [discriminate|].
      destruct (IH _ _ _ _ H) as [new [E R]]. exists (rc :: new). split.
      + rewrite E, <- app_assoc. reflexivity.
      + cbn [rev]. rewrite restore_all_app, R. cbn [restore_all].
        rewrite (restore_after_set_item _ _ _ _ _ S). reflexivity.
  Qed.

  (* exit (enter s kvs) = s *)
  Theorem ctx_restores arg kw d d1 recs :
    set_call validate arg kw d = (d1, recs, None) -> exit_call recs d1 = (d, None).
  Proof.
    unfold set_call, exit_call. destruct arg as [[x|l]|].
    - discriminate.
    - destruct (set_items validate l d []) as [[d0 r0] [e|]] eqn:S1; [discriminate|]. intros S2.
      destruct (set_items_restore _ _ _ _ _ S1) as [n1 [E1 R1]]. cbn [app] in E1. subst r0.
      destruct (set_items_restore _ _ _ _ _ S2) as [n2 [E2 R2]]. subst recs.
      rewrite rev_app_distr, restore_all_app, R2. exact R1.
    - intros S. destruct (set_items_restore _ _ _ _ _ S) as [n [E R]]. cbn [app] in E. subst recs. exact R.
  Qed.

  Lemma store_eta s : {| conf := conf s; dflts := dflts s |} = s.
  Proof. destruct s; reflexivity. Qed.

  (* `with set(...): pass` and `with set(...): raise` leave the store as it was *)
  Theorem with_pass_restores arg kw s d1 recs :
    set_call validate arg kw (conf s) = (d1, recs, None) ->
    step validate (With arg kw []) s = (s, None) /\
    step validate (WithX arg kw []) s = (s, None) /\
    step validate (WithX arg kw [SSet (Some (Leaf JNone)) []]) s = (s, Some TypeErr).
  Proof.
    intros S. pose proof (ctx_restores _ _ _ _ _ S) as R.
    cbn [step run_s run_s_stop step_s set_call]. rewrite S. cbn [conf dflts]. rewrite R, store_eta.
    repeat split; reflexivity.
  Qed.

  (* ------------------------------------------------------------ undoing keeps the invariant *)
  Lemma remove_In kv k d : In kv (remove k d) -> In kv d.
  Proof.
    induction d as [|[k2 v2] d IH]; cbn [remove]; [intros []|].
    destruct (String.eqb k k2); [intros I; right; exact I|].
    intros [E|I]; [left; exact E | right; exact (IH I)].
  Qed.

  Lemma good_remove k d : good (Node d) -> good (Node (remove k d)).
  Proof.
    intros G. inversion G as [|? HP ND HF]; subst. constructor.
    - rewrite Forall_forall in *. intros kv I. apply HP. exact (remove_In _ _ _ I).
    - clear HP HF G. induction d as [|[k2 v2] d IH]; cbn [remove]; [constructor|].
      cbn [map fst] in ND. inversion ND as [|? ? Hn ND']; subst.
      destruct (String.eqb k k2); [exact ND'|]. cbn [map fst]. constructor; [|exact (IH ND')].
      intros I. apply Hn. apply in_map_iff in I. destruct I as [kv [E I]]. rewrite <- E.
      apply (in_map (fun kv => norm (fst kv))). exact (remove_In _ _ _ I).
    - rewrite Forall_forall in *. intros kv I. apply HF. exact (remove_In _ _ _ I).
  Qed.

  Lemma restore_replace_cons k a p old d :
    restore_replace (k :: a :: p) old d =
    match lookup (canon k d) d with
    | None => match restore_replace (a :: p) old [] with
              | inl e => inl e | inr s => inr (assign (canon k d) (Node s) d) end
    | Some (Node sub) => match restore_replace (a :: p) old sub with
                         | inl e => inl e | inr s => inr (assign (canon k d) (Node s) d) end
    | Some (Leaf _) => match p with [] => inl TypeErr | _ => inl AttrErr end
    end.
  Proof. reflexivity. Qed.

  Lemma restore_insert_cons k a p d :
    restore_insert (k :: a :: p) d =
    match lookup (canon k d) d with
    | None => inr d
    | Some (Node sub) => match restore_insert (a :: p) sub with
                         | inl e => inl e | inr s => inr (assign (canon k d) (Node s) d) end
    | Some (Leaf _) => match p with [] => inl AttrErr | _ => inl TypeErr end
    end.
  Proof. reflexivity. Qed.

  Lemma restore_replace_good : forall p old d d',
    pure_path p -> good old -> good (Node d) -> restore_replace p old d = inr d' -> good (Node d').
  Proof.
    induction p as [|k p IH]; intros old d d' Pp Go G H.
    - inversion H; subst. exact G.
    - apply pure_path_cons in Pp. destruct Pp as [Pk Pp]. destruct p as [|a p].
      + cbn [restore_replace] in H. inversion H; subst. apply good_assign; assumption.
      + rewrite restore_replace_cons in H.
        destruct (lookup (canon k d) d) as [[x|sub]|] eqn:L.
        * destruct p; discriminate.
        * destruct (restore_replace (a :: p) old sub) as [e|s] eqn:R; [discriminate|]. inversion H; subst.
          apply good_assign; [exact G | exact Pk|]. exact (IH old sub s Pp Go (good_lookup _ _ _ G L) R).
        * destruct (restore_replace (a :: p) old []) as [e|s] eqn:R; [discriminate|]. inversion H; subst.
          apply good_assign; [exact G | exact Pk|]. exact (IH old [] s Pp Go good_nil R).
  Qed.

  Lemma restore_insert_good : forall p d d',
    pure_path p -> good (Node d) -> restore_insert p d = inr d' -> good (Node d').
  Proof.
    induction p as [|k p IH]; intros d d' Pp G H.
    - inversion H; subst. exact G.
    - apply pure_path_cons in Pp. destruct Pp as [Pk Pp]. destruct p as [|a p].
      + cbn [restore_insert] in H. inversion H; subst. apply good_remove. exact G.
      + rewrite restore_insert_cons in H.
        destruct (lookup (canon k d) d) as [[x|sub]|] eqn:L.
        * destruct p; discriminate.
        * destruct (restore_insert (a :: p) sub) as [e|s] eqn:R; [discriminate|]. inversion H; subst.
          apply good_assign; [exact G | exact Pk|]. exact (IH sub s Pp (good_lookup _ _ _ G L) R).
        * inversion H; subst. exact G.
  Qed.

  Definition rec_ok (r : crec) : Prop :=
    pure_path (fst r) /\ forall old, snd r = Some old -> good old.

  Lemma restore_all_good rrecs : forall d d' e,
    Forall rec_ok rrecs -> good (Node d) -> restore_all rrecs d = (d', e) -> good (Node d').
  Proof.
    induction rrecs as [|[p o] rs IH]; intros d d' e Ok G H; cbn [restore_all] in H.
    - inversion H; subst. exact G.
    - inversion Ok as [|? ? [Pp Ho] Ok']; subst. cbn [fst snd] in *.
      destruct (restore1 (p, o) d) as [e1|d1] eqn:R.
      + inversion H; subst. exact G.
      + apply (IH d1 d' e Ok'); [|exact H]. destruct o as [old|]; cbn [restore1] in R.
        * exact (restore_replace_good _ _ _ _ Pp (Ho old eq_refl) G R).
        * exact (restore_insert_good _ _ _ Pp G R).
  Qed.

  Lemma pure_canon k d : good_keys d -> pure k = true -> pure (canon k d) = true.
  Proof.
    intros G P. destruct (canon_spec k d G P) as [Hin|[E _]]; [exact (good_pure _ _ G Hin) | rewrite E; exact P].
  Qed.

  Lemma assign_path_rec_ok : forall rest k v d d' p o,
    good (Node d) -> pure k = true -> pure_path rest ->
    assign_path k rest v d = inr (d', (p, o)) -> rec_ok (p, o).
  Proof.
    induction rest as [|k2 rest IH]; intros k v d d' p o G Pk Pr H; cbn [assign_path] in H.
    - inversion H; subst. split; cbn [fst snd].
      + constructor; [apply pure_canon; [apply good_keys_of; exact G | exact Pk] | constructor].
      + intros old L. exact (good_lookup _ _ _ G L).
    - apply pure_path_cons in Pr. destruct Pr as [Pk2 Pr].
      assert (Pc : pure (canon k d) = true) by (apply pure_canon; [apply good_keys_of; exact G | exact Pk]).
      destruct (lookup (canon k d) d) as [[x|sub]|] eqn:L; [discriminate| |].
      + destruct (assign_path k2 rest v sub) as [e|[sub' [p0 o0]]] eqn:A; [discriminate|].
        inversion H; subst. destruct (IH _ _ _ _ _ _ (good_lookup _ _ _ G L) Pk2 Pr A) as [Pp Ho].
        split; cbn [fst snd] in *; [constructor; assumption | exact Ho].
      + destruct (assign_path k2 rest v []) as [e|[sub' rc]] eqn:A; [discriminate|].
        inversion H; subst. split; cbn [fst snd]; [constructor; [exact Pc | constructor] | discriminate].
  Qed.

  Lemma set_item_rec_ok key v d d' rc :
    good (Node d) -> key_ok key -> set_item validate key v d = inr (d', rc) -> rec_ok rc.
  Proof.
    unfold key_ok, set_item. rewrite path_of_split. intros G P H.
    destruct (check_key_val validate key v) as [e|v']; [discriminate|].
    destruct (split_dot key) as [k rest]. cbn [fst snd] in *.
    apply pure_path_cons in P. destruct P as [Pk Pr]. destruct rc as [p o].
    exact (assign_path_rec_ok _ _ _ _ _ _ _ G Pk Pr H).
  Qed.

  Lemma set_items_recs_ok l : forall d recs d' recs' e,
    good (Node d) -> items_ok l -> Forall rec_ok recs ->
    set_items validate l d recs = (d', recs', e) -> Forall rec_ok recs'.
  Proof.
    induction l as [|[key v] l IH]; intros d recs d' recs' e G Ok R H; cbn [set_items] in H.
    - inversion H; subst. exact R.
    - inversion Ok as [|? ? [Hk Hv] Ok']; subst. cbn [fst snd] in *.
      destruct (set_item validate key v d) as [e1|[d1 rc]] eqn:S.
      + inversion H; subst. exact R.
      + apply (IH d1 (recs ++ [rc]) d' recs' e); [|exact Ok'| |exact H].
        * exact (set_item_good validate _ _ _ _ _ G Hk Hv S).
        * apply Forall_app. split; [exact R|]. constructor; [|constructor].
          exact (set_item_rec_ok _ _ _ _ _ G Hk S).
  Qed.
End Ctx.
