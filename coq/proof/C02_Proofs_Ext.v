(* C02 — round-3 extensions of the forward-pipeline proofs:
   * the repaired `no_shift` centring (origin floor(N/2)) is the identity for EVERY detector size;
   * exact half-integer positions: anchor and sub-pixel part under round-half-to-even;
   * the potential object exp(iV), sub-pixel ramps and Fresnel kernels as values of a character e
     (e (a + b) = e a * e b, e 0 = 1, conj (e a) = e (- a)): unit modulus is PROVED, not assumed;
   * probe normalisation with per-mode weights (_apply_weights: common factor, then one factor per mode). *)
From Coq Require Import ZArith List Lia Ring Arith.
From QV.lib Require Import FinSum DFT DFT2.
From QV.model Require Import C02_Model.
From QV.proof Require Import C02_Proofs_Index C02_Proofs_Forward.
Import ListNotations.

Section ForwardExtProofs.
  Variable R : Type.
  Variables (rO rI : R) (radd rmul rsub : R -> R -> R) (ropp : R -> R).
  Variable Rth : ring_theory rO rI radd rmul rsub ropp (@eq R).
  Add Ring RringC02x : Rth.
  Variable conj : R -> R.
  Hypothesis Cok : conj_ok radd rmul conj.
  Variables (N1 : nat) (w1 : Z -> R) (Ninv1 : R) (N2 : nat) (w2 : Z -> R) (Ninv2 : R).
  Hypothesis Rok1 : root_ok rO rI radd rmul conj N1 w1 Ninv1.
  Hypothesis Rok2 : root_ok rO rI radd rmul conj N2 w2 Ninv2.
  Set Default Proof Using "All".

  Notation "0" := rO.  Notation "1" := rI.
  Infix "+" := radd.   Infix "*" := rmul.
  Notation sum2 := (sum2 rO radd N1 N2).
  Notation fmul2 := (fmul2 rO radd rmul N1 w1 Ninv1 N2 w2 Ninv2).
  Notation fftshift2 := (fftshift2 N1 N2).
  Notation energy2 := (energy2 rO radd rmul conj N1 N2).
  Notation suml := (suml rO radd).
  Notation img := (img R).
  Notation unit2 := (unit2 R rI rmul conj N1 N2).
  Notation total := (total_probe_intensity rO radd rmul conj N1 N2).

  (* ---------------------------------------------------------------- repaired no_shift, all sizes *)
  Lemma no_shift_identity (x : img) n1 n2 :
    (n1 < N1)%nat -> (n2 < N2)%nat ->
    fftshift2 (fmul2 (fun k1 k2 => w1 (Z.of_nat k1 * - Z.of_nat (N1 / 2))%Z
                                    * w2 (Z.of_nat k2 * - Z.of_nat (N2 / 2))%Z) x) n1 n2
    = x n1 n2.
  Proof.
    intros Hn1 Hn2.
    replace (- Z.of_nat (N1 / 2))%Z with (- Z.of_nat (N1 / 2) - 0)%Z by lia.
    replace (- Z.of_nat (N2 / 2))%Z with (- Z.of_nat (N2 / 2) - 0)%Z by lia.
    rewrite (centre_floor_origin R rO rI radd rmul rsub ropp Rth conj Cok N1 w1 Ninv1 N2 w2 Ninv2 Rok1 Rok2
               0%Z 0%Z x n1 n2).
    change (- 0)%Z with 0%Z.
    apply (roll2_0 Rth Cok Rok1 Rok2); assumption.
  Qed.

  (* ---------------------------------------------------------------- characters have unit modulus *)
  Section Character.
    Variable P : Type.
    Variables (padd : P -> P -> P) (popp : P -> P) (pzero : P).
    Variable e : P -> R.
    Hypothesis e_add : forall a b, e (padd a b) = e a * e b.
    Hypothesis e_zero : e pzero = 1.
    Hypothesis e_conj : forall a, conj (e a) = e (popp a).
    Hypothesis p_inv : forall a, padd a (popp a) = pzero.

    Lemma char_unit a : e a * conj (e a) = 1.
    Proof. rewrite e_conj, <- e_add, p_inv. exact e_zero. Qed.

    Lemma potential_patch_unit (V : Z -> Z -> P) H W r0 c0 :
      unit2 (gather_window N1 N2 (pot_obj e V) H W r0 c0).
    Proof. intros i j _ _. unfold gather_window, pot_obj. apply char_unit. Qed.

    Lemma potential_patches_unit (Vs : list (Z -> Z -> P)) H W r0 c0 :
      Forall unit2 (map (fun o => gather_window N1 N2 o H W r0 c0) (map (pot_obj e) Vs)).
    Proof.
      induction Vs as [|V Vs IH]; cbn [map]; constructor; [apply potential_patch_unit | exact IH].
    Qed.

    Lemma phase_imgs_unit (ks : list (nat -> nat -> P)) : Forall unit2 (map (phase_img e) ks).
    Proof.
      induction ks as [|k ks IH]; cbn [map]; constructor; [|exact IH].
      intros i j _ _. unfold phase_img. apply char_unit.
    Qed.

    Lemma phase_ramp_unit (phr phc : nat -> P) :
      unit2 (fun k1 k2 => phase_ramp e phr k1 * phase_ramp e phc k2).
    Proof.
      intros i j _ _. unfold phase_ramp. rewrite (conj_mul _ _ _ _ Cok).
      transitivity ((e (phr i) * conj (e (phr i))) * (e (phc j) * conj (e (phc j)))); [ring|].
      rewrite !char_unit. ring.
    Qed.

    (* gather and exp commute: the code exponentiates the whole array and gathers, the physics
       gathers the potential window and exponentiates *)
    Lemma potential_gather_commutes (V : Z -> Z -> P) H W r0 c0 i j :
      (0 < H)%Z -> (0 < W)%Z ->
      gather_flat N1 N2 (flatten (pot_obj e V) W) H W r0 c0 i j
      = e (gather_window N1 N2 V H W r0 c0 i j).
    Proof.
      intros HH HW.
      rewrite (gather_flat_is_window R rO rI radd rmul rsub ropp Rth conj Cok N1 w1 Ninv1 N2 w2 Ninv2 Rok1 Rok2
                 rO (pot_obj e V) H W r0 c0 i j HH HW).
      reflexivity.
    Qed.

    Variable sN : R.
    Hypothesis HsN : sN * sN = Ninv1 * Ninv2.
    Hypothesis HsNc : conj sN = sN.

    (* the pipeline AS THE CODE RUNS IT on a potential object: every predicted pattern sums to the mean
       measured pattern sum — any potentials V_s, any sub-pixel phases, any kernel phases, any number of
       slices and modes; no unit-modulus hypothesis is left *)
    Lemma potential_forward_total (Vs : list (Z -> Z -> P)) H W r0 c0 (phr phc : nat -> P)
          (ks : list (nat -> nat -> P)) (probes : list img) (c mean_i : R) :
      (0 < H)%Z -> (0 < W)%Z -> length ks = pred (length Vs) ->
      (c * conj c) * total probes = mean_i ->
      sum2 (forward_code rO radd rmul conj N1 w1 Ninv1 N2 w2 Ninv2 sN
              (map (fun o => flatten o W) (map (pot_obj e) Vs)) H W r0 c0
              (phase_ramp e phr) (phase_ramp e phc) (map (phase_img e) ks) (scale_modes rmul c probes))
      = mean_i.
    Proof.
      intros HH HW Hlen Hc.
      transitivity (sum2 (forward_ref rO radd rmul conj N1 w1 Ninv1 N2 w2 Ninv2 sN
                            (map (pot_obj e) Vs) H W r0 c0 (phase_ramp e phr) (phase_ramp e phc)
                            (map (phase_img e) ks) (scale_modes rmul c probes))).
      - apply (sum2_ext Rth Cok Rok1 Rok2). intros k1 k2 _ _.
        apply (forward_is_composition R rO rI radd rmul rsub ropp Rth conj Cok N1 w1 Ninv1 N2 w2 Ninv2 Rok1 Rok2 sN);
          [exact HH | exact HW | rewrite !map_length; exact Hlen].
      - apply (probe_normalisation R rO rI radd rmul rsub ropp Rth conj Cok N1 w1 Ninv1 N2 w2 Ninv2 Rok1 Rok2 sN HsN HsNc).
        + apply potential_patches_unit.
        + apply phase_imgs_unit.
        + apply phase_ramp_unit.
        + exact Hc.
    Qed.
  End Character.

  (* ---------------------------------------------------------------- per-mode weights *)
  (* (d_m conj d_m) * energy(p_m) = wt_m * M for every mode m *)
  Inductive weights_ok (M : R) : list R -> list img -> list R -> Prop :=
  | wok_nil : weights_ok M [] [] []
  | wok_cons d p wt ds ps wts :
      (d * conj d) * energy2 p = wt * M -> weights_ok M ds ps wts ->
      weights_ok M (d :: ds) (p :: ps) (wt :: wts).

  Lemma energy2_scale d (p : img) : energy2 (fun i j => d * p i j) = (d * conj d) * energy2 p.
  Proof.
    unfold DFT2.energy2. rewrite <- (sum2_scale_l Rth Cok Rok1 Rok2).
    apply (sum2_ext Rth Cok Rok1 Rok2). intros i j _ _. rewrite (conj_mul _ _ _ _ Cok). ring.
  Qed.

  Lemma total_intensity_weights M ds ps wts :
    weights_ok M ds ps wts -> total (scale_modes_w rmul ds ps) = suml wts * M.
  Proof.
    intros Hw. induction Hw as [|d p wt ds ps wts Hd Hw IH].
    - cbn. ring.
    - unfold total_probe_intensity in *. cbn [scale_modes_w map FinSum.suml].
      rewrite IH, energy2_scale, Hd. ring.
  Qed.

  (* mode by mode: the m-th scaled mode carries wt_m * M *)
  Lemma mode_energy_weights M ds ps wts :
    weights_ok M ds ps wts ->
    map (fun pr => energy2 pr) (scale_modes_w rmul ds ps) = map (fun wt => wt * M) wts.
  Proof.
    intros Hw. induction Hw as [|d p wt ds ps wts Hd Hw IH]; [reflexivity|].
    cbn [scale_modes_w map]. rewrite IH, energy2_scale, Hd. reflexivity.
  Qed.

  Variable sN : R.
  Hypothesis HsN : sN * sN = Ninv1 * Ninv2.
  Hypothesis HsNc : conj sN = sN.

  Lemma probe_normalisation_weights (obj2 : list (Z -> Z -> R)) H W r0 c0 rr rc props M ds ps wts :
    Forall unit2 (map (fun o => gather_window N1 N2 o H W r0 c0) obj2) ->
    Forall unit2 props ->
    unit2 (fun k1 k2 => rr k1 * rc k2) ->
    weights_ok M ds ps wts ->
    sum2 (forward_ref rO radd rmul conj N1 w1 Ninv1 N2 w2 Ninv2 sN obj2 H W r0 c0 rr rc props
                      (scale_modes_w rmul ds ps)) = suml wts * M.
  Proof.
    intros Hobj Hprops Hramp Hw.
    rewrite (forward_total_intensity R rO rI radd rmul rsub ropp Rth conj Cok N1 w1 Ninv1 N2 w2 Ninv2 Rok1 Rok2
               sN HsN HsNc obj2 H W r0 c0 rr rc props (scale_modes_w rmul ds ps) Hobj Hprops Hramp).
    apply total_intensity_weights. exact Hw.
  Qed.

  (* _apply_weights as the code runs it: common factor c with (c conj c) * total = M, then factors d_m
     with (d_m conj d_m) * energy(c p_m) = w_m * (total after the first step); weights summing to one:
     every predicted pattern sums to M *)
  Lemma apply_weights_code_normalises (obj2 : list (Z -> Z -> R)) H W r0 c0 rr rc props M c ds ps wts :
    Forall unit2 (map (fun o => gather_window N1 N2 o H W r0 c0) obj2) ->
    Forall unit2 props ->
    unit2 (fun k1 k2 => rr k1 * rc k2) ->
    (c * conj c) * total ps = M ->
    weights_ok (total (scale_modes rmul c ps)) ds (scale_modes rmul c ps) wts ->
    suml wts = 1 ->
    sum2 (forward_ref rO radd rmul conj N1 w1 Ninv1 N2 w2 Ninv2 sN obj2 H W r0 c0 rr rc props
                      (apply_weights_code rmul c ds ps)) = M
    /\ map (fun pr => energy2 pr) (apply_weights_code rmul c ds ps) = map (fun wt => wt * M) wts.
  Proof.
    intros Hobj Hprops Hramp Hc Hw Hs.
    assert (Ht : total (scale_modes rmul c ps) = M).
    { rewrite (total_intensity_scale R rO rI radd rmul rsub ropp Rth conj Cok N1 w1 Ninv1 N2 w2 Ninv2 Rok1 Rok2 sN HsN HsNc c ps).
      exact Hc. }
    rewrite Ht in Hw. unfold apply_weights_code. split.
    - rewrite (probe_normalisation_weights obj2 H W r0 c0 rr rc props M ds (scale_modes rmul c ps) wts
                 Hobj Hprops Hramp Hw).
      rewrite Hs. ring.
    - apply mode_energy_weights. exact Hw.
  Qed.
End ForwardExtProofs.

(* ------------------------------------------------------------------ Z / Q level *)
From QV.lib Require Import Prelude.
From Coq Require Import QArith Qround Qabs Lqa.
Local Close Scope Q_scope.
Local Open Scope Z_scope.

(* repaired no_shift at index level: the origin floor(n/2) is centred by the identity permutation,
   every n *)
Lemma no_shift_index n i : 0 < n -> 0 <= i < n -> centre_index n (no_shift_origin n) i = i.
Proof.
  intros Hn Hi. unfold no_shift_origin.
  replace (n / 2) with (n / 2 + 0) by lia.
  rewrite centre_index_floor_origin by assumption.
  rewrite Z.add_0_r. apply Z.mod_small. exact Hi.
Qed.

(* the repaired origin is the detector model's zero-frequency pixel, and for even n it is the old origin *)
Lemma no_shift_origin_spec n :
  0 < n -> no_shift_origin n = dc_position n /\ (Z.even n = true -> 2 * no_shift_origin n = no_shift_origin_twice n).
Proof.
  intros Hn. unfold no_shift_origin, dc_position, no_shift_origin_twice. split; [reflexivity|].
  intros He. apply Z.even_spec in He. destruct He as [k Hk]. subst n.
  lia.
Qed.

Lemma no_shift_index_all n :
  0 < n ->
  (forall i, 0 <= i < n -> centre_index n (no_shift_origin n) i = i) /\
  no_shift_origin n = dc_position n /\
  (Z.even n = true -> 2 * no_shift_origin n = no_shift_origin_twice n).
Proof. intros Hn. split; [intros i Hi; exact (no_shift_index n i Hn Hi) | exact (no_shift_origin_spec n Hn)]. Qed.

Local Open Scope Q_scope.

Lemma Qfloor_half z : Qfloor (inject_Z z + (1 # 2)) = z.
Proof.
  set (q := inject_Z z + (1 # 2)).
  pose proof (Qfloor_le q) as Hlo. pose proof (Qlt_floor q) as Hhi.
  rewrite inject_Z_plus in Hhi. change (inject_Z 1) with 1 in Hhi.
  apply Z.le_antisymm.
  - apply Z.lt_succ_r. rewrite Zlt_Qlt. unfold Z.succ. rewrite inject_Z_plus. change (inject_Z 1) with 1.
    unfold q in *. lra.
  - apply Z.lt_succ_r. rewrite Zlt_Qlt. unfold Z.succ. rewrite inject_Z_plus. change (inject_Z 1) with 1.
    unfold q in *. lra.
Qed.

(* exact half-integer positions: anchor = the even neighbour, sub-pixel part = +1/2 or -1/2 accordingly,
   and anchor + sub-pixel part is the position (the two sides use the SAME rounding) *)
Lemma round_tie z :
  round_half_even (inject_Z z + (1 # 2)) = (if Z.even z then z else z + 1)%Z /\
  Z.even (round_half_even (inject_Z z + (1 # 2))) = true /\
  frac_part (inject_Z z + (1 # 2)) == (if Z.even z then 1 # 2 else - (1 # 2)).
Proof.
  assert (Hr : round_half_even (inject_Z z + (1 # 2)) = (if Z.even z then z else z + 1)%Z).
  { unfold round_half_even. rewrite Qfloor_half.
    destruct (Qcompare (inject_Z z + (1 # 2) - inject_Z z) (1 # 2)) eqn:E.
    - reflexivity.
    - apply Qlt_alt in E. lra.
    - apply Qgt_alt in E. lra. }
  split; [exact Hr|]. split.
  - rewrite Hr. destruct (Z.even z) eqn:Ez; [exact Ez|].
    rewrite Z.even_add, Ez. reflexivity.
  - unfold frac_part. rewrite Hr. destruct (Z.even z).
    + ring.
    + rewrite inject_Z_plus. change (inject_Z 1) with 1. ring.
Qed.
Local Close Scope Q_scope.
