(* C17 — proofs about model/C17_Model.v : Itoh condition, unwrap correctness on any graph *)
From QV.lib Require Import Prelude.
From QV.model Require Import C17_Model.
From QV.proof Require Import C17_Proofs.
From Coq Require Import QArith Qround Qabs Lqa.
Local Close Scope Q_scope.
Set Implicit Arguments.

(* ---------------------------------------------------------------- wrapping on Q *)
Lemma Qltb_true a b : Qltb a b = true <-> (a < b)%Q.
Proof.
  unfold Qltb. rewrite negb_true_iff. split.
  - intros H. apply Qnot_le_lt. intros Hle. apply Qle_bool_iff in Hle. congruence.
  - intros H. destruct (Qle_bool b a) eqn:E; [|reflexivity].
    apply Qle_bool_iff in E. exfalso. exact (Qlt_not_le _ _ H E).
Qed.

Lemma Qltb_false a b : Qltb a b = false <-> (b <= a)%Q.
Proof.
  split.
  - intros H. apply Qnot_lt_le. intros Hlt. apply Qltb_true in Hlt. congruence.
  - intros H. destruct (Qltb a b) eqn:E; [|reflexivity].
    apply Qltb_true in E. exfalso. exact (Qlt_not_le _ _ E H).
Qed.

Lemma find_wrap_cases P a b :
  ((P < a - b)%Q /\ find_wrap P a b = (-1)%Z) \/
  ((a - b < - P)%Q /\ (a - b <= P)%Q /\ find_wrap P a b = 1%Z) \/
  ((a - b <= P)%Q /\ (- P <= a - b)%Q /\ find_wrap P a b = 0%Z).
Proof.
  unfold find_wrap.
  destruct (Qltb P (a - b)) eqn:E1.
  - left. split; [apply Qltb_true; exact E1 | reflexivity].
  - right. apply Qltb_false in E1. destruct (Qltb (a - b) (- P)) eqn:E2.
    + left. split; [apply Qltb_true; exact E2 | split; [exact E1 | reflexivity]].
    + right. apply Qltb_false in E2. auto.
Qed.

Lemma wrapP_range P x : (0 < P)%Q -> (- P <= wrapP P x < P)%Q.
Proof.
  intros HP. unfold wrapP, wrapK.
  set (t := ((x + P) / (2 * P))%Q).
  assert (H2P : (0 < 2 * P)%Q) by lra.
  assert (Et : (x + P == t * (2 * P))%Q).
  { unfold t. field. intros E. rewrite E in H2P. apply (Qlt_irrefl 0). lra. }
  pose proof (Qfloor_le t) as Hlo. pose proof (Qlt_floor t) as Hhi.
  rewrite inject_Z_plus in Hhi. change (inject_Z 1) with 1%Q in Hhi.
  set (f := inject_Z (Qfloor t)) in *.
  assert (A : (f * (2 * P) <= t * (2 * P))%Q) by (apply Qmult_le_compat_r; lra).
  assert (B : (t * (2 * P) < (f + 1) * (2 * P))%Q) by (apply Qmult_lt_compat_r; lra).
  split; lra.
Qed.

(* C17_itoh_edge *)
Lemma itoh_edge P fa fb wa wb (ka kb : Z) :
  (0 < P)%Q ->
  (Qabs (fa - fb) < P)%Q ->
  (wa == fa - 2 * P * inject_Z ka)%Q ->
  (wb == fb - 2 * P * inject_Z kb)%Q ->
  (Qabs (wa - wb) < 2 * P)%Q ->
  find_wrap P wa wb = (ka - kb)%Z.
Proof.
  intros HP Hs Ea Eb Hw.
  apply Qabs_Qlt_condition in Hs. apply Qabs_Qlt_condition in Hw.
  destruct Hs as [Hs1 Hs2]. destruct Hw as [Hw1 Hw2].
  set (D := (ka - kb)%Z).
  assert (ED : (inject_Z ka - inject_Z kb == inject_Z D)%Q).
  { unfold D, Z.sub. rewrite inject_Z_plus, inject_Z_opp. ring. }
  assert (Ew : (wa - wb == (fa - fb) - 2 * P * inject_Z D)%Q).
  { rewrite Ea, Eb, <- ED. ring. }
  set (t := inject_Z D) in *.
  assert (Hc : (D <= -2 \/ D = -1 \/ D = 0 \/ D = 1 \/ 2 <= D)%Z) by lia.
  destruct Hc as [Hc|[Hc|[Hc|[Hc|Hc]]]].
  - exfalso. assert (Ht : (t <= -2)%Q).
    { unfold t. change (-2)%Q with (inject_Z (-2)). rewrite <- Zle_Qle. exact Hc. }
    assert (Hm : (P * t <= P * -2)%Q).
    { rewrite (Qmult_comm P t), (Qmult_comm P (-2)). apply Qmult_le_compat_r; lra. }
    lra.
  - assert (Ht : (t == -1)%Q) by (unfold t; rewrite Hc; reflexivity).
    rewrite Ht in Ew. rewrite Hc.
    destruct (find_wrap_cases P wa wb) as [[H1 R]|[[H1 [H2 R]]|[H1 [H2 R]]]]; try exact R; exfalso; lra.
  - assert (Ht : (t == 0)%Q) by (unfold t; rewrite Hc; reflexivity).
    rewrite Ht in Ew. rewrite Hc.
    destruct (find_wrap_cases P wa wb) as [[H1 R]|[[H1 [H2 R]]|[H1 [H2 R]]]]; try exact R; exfalso; lra.
  - assert (Ht : (t == 1)%Q) by (unfold t; rewrite Hc; reflexivity).
    rewrite Ht in Ew. rewrite Hc.
    destruct (find_wrap_cases P wa wb) as [[H1 R]|[[H1 [H2 R]]|[H1 [H2 R]]]]; try exact R; exfalso; lra.
  - exfalso. assert (Ht : (2 <= t)%Q).
    { unfold t. change 2%Q with (inject_Z 2). rewrite <- Zle_Qle. exact Hc. }
    assert (Hm : (P * 2 <= P * t)%Q).
    { rewrite (Qmult_comm P t), (Qmult_comm P 2). apply Qmult_le_compat_r; lra. }
    lra.
Qed.

Lemma find_wrap_zero P a b : (Qabs (a - b) <= P)%Q -> find_wrap P a b = 0%Z.
Proof.
  intros H. apply Qabs_Qle_condition in H. destruct H as [H1 H2].
  destruct (find_wrap_cases P a b) as [[G R]|[[G [G2 R]]|[G [G2 R]]]]; try exact R; exfalso; lra.
Qed.

(* ---------------------------------------------------------------- edges with increments *)
Definition prange (n : nat) (ps : list (nat * nat)) : Prop :=
  forall x y, In (x, y) ps -> x < n /\ y < n.

Lemma incs_in P phiw ps x y i :
  In (x, y, i) (incs_of P phiw ps) -> In (x, y) ps /\ i = find_wrap P (phiw x) (phiw y).
Proof.
  unfold incs_of. intros H. apply in_map_iff in H. destruct H as ([p q] & E & Hin).
  cbn [fst snd] in E. inversion E; subst. auto.
Qed.

Lemma incs_in_rev P phiw ps x y :
  In (x, y) ps -> In (x, y, find_wrap P (phiw x) (phiw y)) (incs_of P phiw ps).
Proof.
  intros H. unfold incs_of. apply in_map_iff. exists (x, y). cbn [fst snd]. auto.
Qed.

Lemma incs_inrange P phiw n ps : prange n ps -> inrange n (incs_of P phiw ps).
Proof. intros H x y i Hi. apply incs_in in Hi. apply H. tauto. Qed.

Lemma conn_incs P phiw ps x y : conn (erel (incs_of P phiw ps)) x y <-> conn (prel ps) x y.
Proof.
  split; apply conn_mono.
  - intros p q [i Hi]. apply incs_in in Hi. unfold prel. tauto.
  - intros p q Hpq. eexists. apply incs_in_rev. exact Hpq.
Qed.

(* ---------------------------------------------------------------- offsets follow K *)
Lemma pot_tracks_K n es (K : nat -> Z) :
  inrange n es ->
  (forall x y i, In (x, y, i) es -> i = (K x - K y)%Z) ->
  exists pot,
    uf_offsets n es = Some (map pot (seq 0 n)) /\
    (forall x y, conn (erel es) x y -> (pot x - pot y)%Z = (K x - K y)%Z) /\
    (forall x, exists r, conn (erel es) x r /\ pot r = 0%Z).
Proof.
  intros Hr HK.
  destruct (uf_offsets_spec Hr) as (st & rt & pot & R & O & _ & HI & C1 & C2 & P2).
  exists pot. split; [exact O|]. split.
  - intros x y Hc. apply (proj1 (C2 x y)) in Hc.
    induction Hc as [p | p q [j Hj] | p q _ IH | p q r _ IH1 _ IH2]; try lia.
    rewrite (P2 _ _ _ Hj). apply HK. eapply merged_incl. exact Hj.
  - intros x. exists (rt x). destruct (root_fixed x HI) as [E1 E2]. split; [|exact E2].
    apply (proj1 (C1 x (rt x))). congruence.
Qed.

Lemma nth_map_default (A B : Type) (f : A -> B) (l : list A) (x : nat) (d : A) (e : B) :
  x < length l -> nth x (map f l) e = f (nth x l d).
Proof.
  intros Hx. rewrite (nth_indep _ e (f d)) by (rewrite map_length; exact Hx). apply map_nth.
Qed.

Lemma unwrap_raw_eq P n phiw ps pot :
  uf_offsets n (incs_of P phiw ps) = Some (map pot (seq 0 n)) ->
  exists out, unwrap_raw P n phiw ps = Some out /\ length out = n /\
    forall x, x < n -> nth x out 0%Q = (phiw x + 2 * P * inject_Z (pot x))%Q.
Proof.
  intros O. unfold unwrap_raw. rewrite O. eexists. split; [reflexivity|]. split.
  - rewrite map_length, seq_length. reflexivity.
  - intros x Hx. rewrite nth_map_seq by exact Hx. rewrite nth_map_seq by exact Hx. reflexivity.
Qed.

Lemma unwrap_of_raw P n phiw ps out :
  unwrap_raw P n phiw ps = Some out -> length out = n ->
  exists out', unwrap P n phiw ps = Some out' /\ length out' = n /\
    forall x, x < n -> nth x out' 0%Q = (nth x out 0%Q - meanQ out)%Q.
Proof.
  intros R L. unfold unwrap. rewrite R. eexists. split; [reflexivity|]. split.
  - rewrite map_length. exact L.
  - intros x Hx. rewrite (@nth_map_default _ _ (fun v => (v - meanQ out)%Q) out x 0%Q 0%Q) by lia.
    reflexivity.
Qed.

(* ---------------------------------------------------------------- main theorems, any graph *)
Section Unwrap.
  Variables (P : Q) (n : nat) (ps : list (nat * nat)).
  Hypothesis HP : (0 < P)%Q.
  Hypothesis Hrange : prange n ps.

  Section Smooth.
    Variables (phi phiw : nat -> Q) (K : nat -> Z).
    Hypothesis Hsmooth : forall x y, In (x, y) ps -> (Qabs (phi x - phi y) < P)%Q.
    Hypothesis Hwrapped : forall x, (phiw x == phi x - 2 * P * inject_Z (K x))%Q.
    Hypothesis Hwrange : forall x y, In (x, y) ps -> (Qabs (phiw x - phiw y) < 2 * P)%Q.

    Lemma incs_are_K x y i : In (x, y, i) (incs_of P phiw ps) -> i = (K x - K y)%Z.
    Proof.
      intros Hi. apply incs_in in Hi. destruct Hi as [Hin ->].
      eapply itoh_edge; eauto.
    Qed.

    Lemma unwrap_raw_correct :
      exists out c,
        unwrap_raw P n phiw ps = Some out /\ length out = n /\
        (forall x y, conn (prel ps) x y -> (c x == c y)%Q) /\
        (forall x, x < n -> (nth x out 0 == phi x + c x)%Q).
    Proof.
      destruct (@pot_tracks_K n (incs_of P phiw ps) K (@incs_inrange P phiw n ps Hrange) incs_are_K) as (pot & O & HK & _).
      destruct (@unwrap_raw_eq P n phiw ps pot O) as (out & R & L & Hout).
      exists out, (fun x => 2 * P * inject_Z (pot x - K x))%Q.
      split; [exact R|]. split; [exact L|]. split.
      - intros x y Hc. apply (proj2 (conn_incs P phiw ps x y)) in Hc. apply HK in Hc.
        replace (pot x - K x)%Z with (pot y - K y)%Z by lia. reflexivity.
      - intros x Hx. rewrite (Hout x Hx), (Hwrapped x).
        unfold Z.sub. rewrite inject_Z_plus, inject_Z_opp. ring.
    Qed.

    Lemma unwrap_correct :
      exists out c,
        unwrap P n phiw ps = Some out /\ length out = n /\
        (forall x y, conn (prel ps) x y -> (c x == c y)%Q) /\
        (forall x, x < n -> (nth x out 0 == phi x + c x)%Q).
    Proof.
      destruct unwrap_raw_correct as (out & c & R & L & Hc & Hout).
      destruct (@unwrap_of_raw P n phiw ps out R L) as (out' & R' & L' & Hout').
      exists out', (fun x => c x - meanQ out)%Q.
      split; [exact R'|]. split; [exact L'|]. split.
      - intros x y Hxy. rewrite (Hc x y Hxy). reflexivity.
      - intros x Hx. rewrite (Hout' x Hx), (Hout x Hx). ring.
    Qed.
  End Smooth.

  (* the output differs from the (arbitrary) wrapped input by multiples of 2P plus one constant *)
  Lemma unwrap_congruent (phiw : nat -> Q) :
    exists out c0,
      unwrap P n phiw ps = Some out /\ length out = n /\
      forall x, x < n -> exists k : Z, (nth x out 0 - phiw x == 2 * P * inject_Z k + c0)%Q.
  Proof.
    destruct (@uf_offsets_spec n _ (@incs_inrange P phiw n ps Hrange)) as (st & rt & pot & _ & O & _).
    destruct (@unwrap_raw_eq P n phiw ps pot O) as (out & R & L & Hout).
    destruct (@unwrap_of_raw P n phiw ps out R L) as (out' & R' & L' & Hout').
    exists out', (- meanQ out)%Q. split; [exact R'|]. split; [exact L'|].
    intros x Hx. exists (pot x). rewrite (Hout' x Hx), (Hout x Hx). ring.
  Qed.

  (* already-unwrapped smooth input: every increment is 0, every offset is 0 *)
  Lemma smooth_unchanged (phi : nat -> Q) :
    (forall x y, In (x, y) ps -> (Qabs (phi x - phi y) <= P)%Q) ->
    (exists out, unwrap_raw P n phi ps = Some out /\ length out = n /\
                 forall x, x < n -> (nth x out 0 == phi x)%Q) /\
    (exists out c0, unwrap P n phi ps = Some out /\ length out = n /\
                    forall x, x < n -> (nth x out 0 == phi x + c0)%Q).
  Proof.
    intros Hs.
    assert (HK : forall x y i, In (x, y, i) (incs_of P phi ps) -> i = ((fun _ => 0) x - (fun _ : nat => 0) y)%Z).
    { intros x y i Hi. apply incs_in in Hi. destruct Hi as [Hin ->].
      rewrite find_wrap_zero by (apply Hs; exact Hin). reflexivity. }
    destruct (@pot_tracks_K n (incs_of P phi ps) (fun _ => 0%Z) (@incs_inrange P phi n ps Hrange) HK) as (pot & O & Hpot & Hroot).
    assert (Hz : forall x, pot x = 0%Z).
    { intros x. destruct (Hroot x) as (r & Hc & Hr). pose proof (Hpot x r Hc). lia. }
    destruct (@unwrap_raw_eq P n phi ps pot O) as (out & R & L & Hout).
    destruct (@unwrap_of_raw P n phi ps out R L) as (out' & R' & L' & Hout').
    assert (Hraw : forall x, x < n -> (nth x out 0 == phi x)%Q).
    { intros x Hx. rewrite (Hout x Hx), (Hz x). change (inject_Z 0) with 0%Q. ring. }
    split.
    - exists out. auto.
    - exists out', (- meanQ out)%Q. split; [exact R'|]. split; [exact L'|].
      intros x Hx. rewrite (Hout' x Hx), (Hraw x Hx). ring.
  Qed.
End Unwrap.

(* the wrapped version produced by _wrap_to_pi satisfies the hypotheses of unwrap_correct *)
Lemma wrapP_hyps P (phi : nat -> Q) :
  (0 < P)%Q ->
  (forall x, (wrapP P (phi x) == phi x - 2 * P * inject_Z (wrapK P (phi x)))%Q) /\
  (forall x y, (Qabs (wrapP P (phi x) - wrapP P (phi y)) < 2 * P)%Q).
Proof.
  intros HP. split.
  - intros x. unfold wrapP. reflexivity.
  - intros x y. pose proof (wrapP_range (phi x) HP). pose proof (wrapP_range (phi y) HP).
    apply Qabs_Qlt_condition. split; lra.
Qed.

(* ---------------------------------------------------------------- grids *)
Lemma grid_pairs_range H W wrap mask : prange (H * W) (grid_pairs H W wrap mask).
Proof.
  intros x y Hin. unfold grid_pairs in Hin. apply filter_In in Hin. destruct Hin as [Hin _].
  apply in_app_or in Hin.
  assert (Aux : forall i, i < H * W -> W <> 0 /\ i / W < H /\ i mod W < W /\ i = W * (i / W) + i mod W).
  { intros i Hi. assert (HW : W <> 0) by (intros ->; lia). split; [exact HW|].
    split; [apply Nat.div_lt_upper_bound; [exact HW | lia]|].
    split; [apply Nat.mod_upper_bound; exact HW | apply Nat.div_mod; exact HW]. }
  destruct wrap; destruct Hin as [Hin|Hin]; apply in_map_iff in Hin; destruct Hin as (i & E & Hi);
    injection E as Ex Ey; subst x y.
  - apply in_seq in Hi. destruct (Aux i ltac:(lia)) as (HW & Hq & Hr & _).
    pose proof (Nat.mod_upper_bound (i mod W + 1) W HW). split; [lia | nia].
  - apply in_seq in Hi. destruct (Aux i ltac:(lia)) as (HW & Hq & Hr & _).
    assert (HH : H <> 0) by (intros ->; lia).
    pose proof (Nat.mod_upper_bound (i / W + 1) H HH). split; [lia | nia].
  - apply filter_In in Hi. destruct Hi as [Hi Hc]. apply in_seq in Hi. apply Nat.ltb_lt in Hc.
    destruct (Aux i ltac:(lia)) as (HW & Hq & Hr & Ei). split; [lia | nia].
  - apply filter_In in Hi. destruct Hi as [Hi Hc]. apply in_seq in Hi. apply Nat.ltb_lt in Hc.
    destruct (Aux i ltac:(lia)) as (HW & Hq & Hr & Ei). split; [lia | nia].
Qed.

Lemma conn_perm (ps qs : list (nat * nat)) x y :
  Permutation ps qs -> (conn (prel ps) x y <-> conn (prel qs) x y).
Proof.
  intros Hp. split; apply conn_mono; intros p q Hpq; unfold prel in *.
  - eapply Permutation_in; eauto.
  - eapply Permutation_in; [apply Permutation_sym|]; eauto.
Qed.

Theorem unwrap_correct_grid P H W wrap mask order (phi phiw : nat -> Q) (K : nat -> Z) :
  (0 < P)%Q ->
  Permutation order (grid_pairs H W wrap mask) ->
  (forall x y, In (x, y) (grid_pairs H W wrap mask) -> (Qabs (phi x - phi y) < P)%Q) ->
  (forall x, (phiw x == phi x - 2 * P * inject_Z (K x))%Q) ->
  (forall x y, In (x, y) (grid_pairs H W wrap mask) -> (Qabs (phiw x - phiw y) < 2 * P)%Q) ->
  exists out c,
    unwrap P (H * W) phiw order = Some out /\ length out = H * W /\
    (forall x y, conn (prel (grid_pairs H W wrap mask)) x y -> (c x == c y)%Q) /\
    (forall x, x < H * W -> (nth x out 0 == phi x + c x)%Q).
Proof.
  intros HP Hperm Hs Hw Hr.
  assert (Hin : forall x y, In (x, y) order -> In (x, y) (grid_pairs H W wrap mask))
    by (intros x y Hxy; eapply Permutation_in; eauto).
  assert (Hrange : prange (H * W) order)
    by (intros x y Hxy; apply (@grid_pairs_range H W wrap mask); auto).
  destruct (@unwrap_correct P (H * W) order HP Hrange phi phiw K
              (fun x y Hxy => Hs x y (Hin x y Hxy)) Hw (fun x y Hxy => Hr x y (Hin x y Hxy)))
    as (out & c & R & L & Hc & Hout).
  exists out, c. split; [exact R|]. split; [exact L|]. split; [|exact Hout].
  intros x y Hxy. apply Hc. apply (proj2 (conn_perm x y Hperm)). exact Hxy.
Qed.

(* the wrapped version is the one _wrap_to_pi produces *)
Theorem unwrap_correct_wrapped P n ps (phi : nat -> Q) :
  (0 < P)%Q -> prange n ps ->
  (forall x y, In (x, y) ps -> (Qabs (phi x - phi y) < P)%Q) ->
  exists out c,
    unwrap P n (fun x => wrapP P (phi x)) ps = Some out /\ length out = n /\
    (forall x y, conn (prel ps) x y -> (c x == c y)%Q) /\
    (forall x, x < n -> (nth x out 0 == phi x + c x)%Q).
Proof.
  intros HP Hr Hs. destruct (wrapP_hyps phi HP) as [Hw Hd].
  apply (@unwrap_correct P n ps HP Hr phi (fun x => wrapP P (phi x)) (fun x => wrapK P (phi x)) Hs Hw).
  intros x y _. apply Hd.
Qed.
