(* C06 — N-D lifting lemmas (metadata of several binned axes, shapes, the one-axis Fourier
   resampling applied along an axis of an N-D tensor) and the Q(i) instances of the
   root-of-unity hypotheses for sizes 1, 2 (size 4 is lib/DFT_Inst.v) used by the
   non-vacuity examples. *)
From QV.lib Require Import Prelude FinSum DFT DFT_Inst.
From QV.model Require Import C06_Model.
From QV.proof Require Import C06_Proofs C06_Proofs_Resample.
From Coq Require Import QArith Qcanon Ring Field.
Local Close Scope Q_scope.
Local Close Scope Qc_scope.
Unset Implicit Arguments.

(* ------------------------------------------------------------------------------------ *)
(* metadata of an N-D bin: every listed axis gets (origin + (f-1)/2 * s, f * s), every other
   axis keeps its origin and sampling *)
Definition meta_ok (m : meta) (nd : nat) : Prop := length (origin m) = nd /\ length (sampling m) = nd.

Lemma bin_meta_at_ok a f m nd : meta_ok m nd -> a < nd -> meta_ok (bin_meta_at a f m) nd.
Proof.
  intros [Ho Hs] Ha. unfold meta_ok, bin_meta_at. cbn [origin sampling].
  rewrite !set_nth_length by lia. split; assumption.
Qed.

Lemma bin_meta_at_other a f m nd b : meta_ok m nd -> a < nd -> a <> b ->
  nth b (origin (bin_meta_at a f m)) 0%Qc = nth b (origin m) 0%Qc /\
  nth b (sampling (bin_meta_at a f m)) 0%Qc = nth b (sampling m) 0%Qc.
Proof.
  intros [Ho Hs] Ha Hne. unfold bin_meta_at. cbn [origin sampling].
  rewrite !nth_set_nth_neq by lia. split; reflexivity.
Qed.

Lemma bin_meta_at_same a f m nd : meta_ok m nd -> a < nd ->
  nth a (origin (bin_meta_at a f m)) 0%Qc = bin_origin f (nth a (origin m) 0%Qc) (nth a (sampling m) 0%Qc) /\
  nth a (sampling (bin_meta_at a f m)) 0%Qc = bin_sampling f (nth a (sampling m) 0%Qc).
Proof.
  intros [Ho Hs] Ha. unfold bin_meta_at. cbn [origin sampling].
  rewrite !nth_set_nth_eq by lia. split; reflexivity.
Qed.

Lemma bin_meta_other afs : forall m nd b, meta_ok m nd -> axes_ok afs nd -> ~ In b (map fst afs) ->
  nth b (origin (bin_meta afs m)) 0%Qc = nth b (origin m) 0%Qc /\
  nth b (sampling (bin_meta afs m)) 0%Qc = nth b (sampling m) 0%Qc.
Proof.
  induction afs as [|[a f] r IH]; intros m nd b Hm Hok Hb; [split; reflexivity|].
  destruct (axes_ok_tail _ _ _ Hok) as (Hok' & Ha & Hnin). cbn [fst] in *.
  cbn [map fst] in Hb.
  unfold bin_meta. cbn [fold_left fst snd].
  change (fold_left (fun acc af => bin_meta_at (fst af) (snd af) acc) r (bin_meta_at a f m))
    with (bin_meta r (bin_meta_at a f m)).
  destruct (IH (bin_meta_at a f m) nd b (bin_meta_at_ok a f m nd Hm Ha) Hok'
               ltac:(intros C; apply Hb; right; exact C)) as [E1 E2].
  rewrite E1, E2.
  apply (bin_meta_at_other a f m nd b Hm Ha). intros ->. apply Hb. left. reflexivity.
Qed.

Theorem bin_meta_nd afs : forall m nd a f, meta_ok m nd -> axes_ok afs nd -> In (a, f) afs ->
  nth a (origin (bin_meta afs m)) 0%Qc = bin_origin f (nth a (origin m) 0%Qc) (nth a (sampling m) 0%Qc) /\
  nth a (sampling (bin_meta afs m)) 0%Qc = bin_sampling f (nth a (sampling m) 0%Qc).
Proof.
  induction afs as [|[a0 f0] r IH]; intros m nd a f Hm Hok Hin; [destruct Hin|].
  destruct (axes_ok_tail _ _ _ Hok) as (Hok' & Ha & Hnin). cbn [fst] in *.
  unfold bin_meta. cbn [fold_left fst snd].
  change (fold_left (fun acc af => bin_meta_at (fst af) (snd af) acc) r (bin_meta_at a0 f0 m))
    with (bin_meta r (bin_meta_at a0 f0 m)).
  pose proof (bin_meta_at_ok a0 f0 m nd Hm Ha) as Hm'.
  destruct Hin as [Heq|Hin].
  - inversion Heq; subst a0 f0.
    destruct (bin_meta_other r (bin_meta_at a f m) nd a Hm' Hok' Hnin) as [E1 E2].
    rewrite E1, E2. apply (bin_meta_at_same a f m nd Hm Ha).
  - assert (Hne : a0 <> a).
    { intros ->. apply Hnin. apply (in_map fst) in Hin. exact Hin. }
    destruct (IH (bin_meta_at a0 f0 m) nd a f Hm' Hok' Hin) as [E1 E2].
    destruct (bin_meta_at_other a0 f0 m nd a Hm Ha Hne) as [E3 E4].
    rewrite E1, E2, E3, E4. split; reflexivity.
Qed.

(* ------------------------------------------------------------------------------------ *)
(* shape of an N-D bin: n / f on every listed axis, unchanged elsewhere *)
Lemma reduce_at_shape a f (t : tensor Qc) : shape (reduce_at a f t) = set_nth a (len_of a (shape t) / f) (shape t).
Proof. reflexivity. Qed.

Lemma reduce_nd_shape afs : forall (t : tensor Qc),
  axes_ok afs (length (shape t)) ->
  length (shape (reduce_nd afs t)) = length (shape t) /\
  (forall b, ~ In b (map fst afs) -> len_of b (shape (reduce_nd afs t)) = len_of b (shape t)) /\
  (forall af, In af afs -> len_of (fst af) (shape (reduce_nd afs t)) = len_of (fst af) (shape t) / snd af).
Proof.
  induction afs as [|[a f] r IH]; intros t Hok.
  - repeat split; try reflexivity. intros af [].
  - destruct (axes_ok_tail _ _ _ Hok) as (Hok' & Ha & Hnin). cbn [fst] in *.
    unfold reduce_nd. cbn [fold_left fst snd].
    change (fold_left (fun acc af => reduce_at (fst af) (snd af) acc) r (reduce_at a f t))
      with (reduce_nd r (reduce_at a f t)).
    set (t1 := reduce_at a f t).
    assert (Hnd1 : length (shape t1) = length (shape t)) by (cbn [t1 reduce_at shape]; apply set_nth_length; exact Ha).
    destruct (IH t1 ltac:(rewrite Hnd1; exact Hok')) as (Hnd2 & Hoth & Hin2).
    repeat split.
    + rewrite Hnd2. exact Hnd1.
    + intros b Hb. cbn [map fst] in Hb. rewrite Hoth by (intros C; apply Hb; right; exact C).
      cbn [t1 reduce_at shape]. apply len_set_nth_neq; [exact Ha|]. intros ->. apply Hb. left. reflexivity.
    + intros [a' f'] [Heq|Hin]; cbn [fst snd].
      * inversion Heq; subst a' f'. rewrite Hoth by exact Hnin.
        cbn [t1 reduce_at shape]. apply len_set_nth. lia.
      * pose proof (Hin2 (a', f') Hin) as E. cbn [fst snd] in E. rewrite E. f_equal.
        cbn [t1 reduce_at shape]. apply len_set_nth_neq; [exact Ha|].
        intros ->. apply Hnin. apply (in_map fst) in Hin. exact Hin.
Qed.

Theorem bin_sum_shape afs (t : tensor Qc) :
  wf t -> axes_ok afs (length (shape t)) ->
  wf (bin_sum afs t) /\
  length (shape (bin_sum afs t)) = length (shape t) /\
  (forall b, ~ In b (map fst afs) -> len_of b (shape (bin_sum afs t)) = len_of b (shape t)) /\
  (forall af, In af afs -> len_of (fst af) (shape (bin_sum afs t)) = len_of (fst af) (shape t) / snd af).
Proof.
  intros Hw Hok. destruct (take_nd_props afs t Hw Hok) as (Hw2 & Hnd2 & Hoth2 & Hin2).
  destruct (reduce_nd_shape afs (take_nd afs t) ltac:(rewrite Hnd2; exact Hok)) as (Hnd3 & Hoth3 & Hin3).
  unfold bin_sum. repeat split.
  - clear Hoth2 Hin2 Hnd3 Hoth3 Hin3. revert Hw2. rewrite <- Hnd2 in Hok. revert Hok.
    generalize (take_nd afs t). clear. induction afs as [|[a f] r IH]; intros t Hok Hw; [exact Hw|].
    destruct (axes_ok_tail _ _ _ Hok) as (Hok' & Ha & Hnin). cbn [fst] in *.
    unfold reduce_nd. cbn [fold_left fst snd].
    apply IH.
    + cbn [reduce_at shape]. rewrite set_nth_length by exact Ha. exact Hok'.
    + apply reduce_at_wf; assumption.
  - rewrite Hnd3. exact Hnd2.
  - intros b Hb. rewrite Hoth3, Hoth2 by exact Hb. reflexivity.
  - intros af Hin. rewrite (Hin3 af Hin), (Hin2 af Hin). apply eff_len_div.
Qed.

(* ------------------------------------------------------------------------------------ *)
(* N-D binning, step by step.  By definition  bin_sum afs t = reduce_nd afs (take_nd afs t):
   first every listed axis is cut to its covered region, then the listed axes are reduced one
   after the other.  The two lemmas below say what one step does to every element, for any
   axis of a tensor of any dimension; iterating them gives the sum over the N-D block. *)
Theorem reduce_at_block_sum a f (t : tensor Qc) o j k :
  a < length (shape t) ->
  o < outer_of a (shape t) -> j < len_of a (shape t) / f -> k < inner_of a (shape t) ->
  nth ((o * (len_of a (shape t) / f) + j) * inner_of a (shape t) + k) (data (reduce_at a f t)) 0%Qc
  = FinSum.sumn 0%Qc Qcplus f
      (fun u => nth ((o * ((len_of a (shape t) / f) * f) + (j * f + u)) * inner_of a (shape t) + k) (data t) 0%Qc).
Proof.
  intros Ha Ho Hj Hk. cbn [reduce_at data].
  rewrite nth_reduce_blocks by (try exact Hk; apply idx_lt; assumption).
  apply (sumn_ext Qcrt). intros u Hu. f_equal. ring.
Qed.

Theorem take_at_nth {A} a L (t : tensor A) o i k d :
  wf t -> a < length (shape t) -> L <= len_of a (shape t) ->
  o < outer_of a (shape t) -> i < L -> k < inner_of a (shape t) ->
  nth ((o * L + i) * inner_of a (shape t) + k) (data (take_at a L t)) d
  = nth ((o * len_of a (shape t) + i) * inner_of a (shape t) + k) (data t) d.
Proof.
  intros Hw Ha HL Ho Hi Hk. cbn [take_at data].
  replace ((o * L + i) * inner_of a (shape t) + k)
    with (o * (L * inner_of a (shape t)) + (i * inner_of a (shape t) + k)) by ring.
  rewrite nth_take_axis; try assumption.
  - f_equal. ring.
  - unfold wf in Hw. rewrite Hw, (prod_view a) by exact Ha. lia.
  - apply idx_lt; assumption.
Qed.

(* ------------------------------------------------------------------------------------ *)
(* resampling along one axis of an N-D buffer: every output line is the one-axis [resample]
   of the corresponding input line, so the one-axis theorems hold line by line for any axis of
   an array of any dimension *)
Section ResampleAxis.
  Variable R : Type.
  Variables (rO rI : R) (radd rmul : R -> R -> R).
  Variable tw : nat -> Z -> R.
  Variable inv : nat -> R.

  Lemma nth_map_seq' (g : nat -> R) k n d : k < n -> nth k (map g (seq 0 n)) d = g k.
  Proof.
    intros Hk. rewrite (nth_indep _ d (g 0)) by (rewrite map_length, seq_length; exact Hk).
    rewrite map_nth, seq_nth by exact Hk. reflexivity.
  Qed.

  Lemma resample_axis_length outer n inner m x :
    length (resample_axis rO rI radd rmul tw inv outer n inner m x) = outer * (m * inner).
  Proof.
    unfold resample_axis. apply flat_map_length_const. intros o _.
    rewrite (flat_map_length_const _ inner); [reflexivity|]. intros j _.
    rewrite !map_length, seq_length. reflexivity.
  Qed.

  Theorem resample_axis_nth outer n inner m x o j k :
    o < outer -> j < m -> k < inner ->
    nth ((o * m + j) * inner + k) (resample_axis rO rI radd rmul tw inv outer n inner m x) rO
    = resample rO rI radd rmul n m (tw n) (tw m) (inv n) (inv m) (line rO n inner o k x) j.
  Proof.
    intros Ho Hj Hk. unfold resample_axis.
    replace ((o * m + j) * inner + k) with (o * (m * inner) + (j * inner + k)) by ring.
    rewrite (nth_flat_map_const _ (m * inner) outer); try assumption.
    - rewrite (nth_flat_map_const _ inner m); try assumption.
      + cbv zeta. rewrite map_map.
        rewrite (nth_map_seq' (fun k0 => nth j (resample_line rO rI radd rmul tw inv n m (line rO n inner o k0 x)) rO))
          by exact Hk.
        unfold resample_line. apply nth_map_seq'. exact Hj.
      + intros i _. rewrite !map_length, seq_length. reflexivity.
    - intros i _. rewrite (flat_map_length_const _ inner); [reflexivity|]. intros j' _.
      rewrite !map_length, seq_length. reflexivity.
    - pose proof (idx_lt m inner j k Hj Hk). lia.
  Qed.

  Lemma resample_at_wf a m (t : tensor R) : a < length (shape t) -> wf (resample_at rO rI radd rmul tw inv a m t).
  Proof.
    intros Ha. unfold wf. cbn [resample_at data shape].
    rewrite resample_axis_length, prod_set_nth by exact Ha. lia.
  Qed.
End ResampleAxis.

(* ------------------------------------------------------------------------------------ *)
(* Q(i): root-of-unity families of sizes 1 and 2 (size 4: DFT_Inst.C_root_ok) *)
Local Open Scope Qc_scope.

Definition w1 (k : Z) : C := c1.
Definition w2 (k : Z) : C := match (k mod 2)%Z with 0%Z => (1, 0) | _ => (- (1), 0) end.
Definition chalf : C := (Q2Qc (1 # 2), 0).

Lemma mod2_cases (k : Z) : (k mod 2 = 0 \/ k mod 2 = 1)%Z.
Proof. pose proof (Z.mod_pos_bound k 2). lia. Qed.

Theorem C_root_ok_1 : root_ok c0 c1 cadd cmul cconj 1 w1 c1.
Proof.
  constructor.
  - lia.
  - reflexivity.
  - intros a b. unfold w1, cmul, c1. cbn [fst snd]. f_equal; ring.
  - reflexivity.
  - intros a. unfold w1, cconj, c1. cbn [fst snd]. f_equal; ring.
  - intros d. cbn [sumn Z.of_nat]. rewrite Z.mod_1_r. cbn. unfold w1, cadd, c0, c1. cbn [fst snd]. f_equal; ring.
  - cbn. unfold cmul, cadd, c0, c1. cbn [fst snd]. f_equal; ring.
Qed.

Theorem C_root_ok_2 : root_ok c0 c1 cadd cmul cconj 2 w2 chalf.
Proof.
  constructor.
  - lia.
  - reflexivity.
  - intros a b. unfold w2. rewrite (Zplus_mod a b 2).
    destruct (mod2_cases a) as [Ha|Ha], (mod2_cases b) as [Hb|Hb]; rewrite Ha, Hb; cbn;
      unfold cmul; cbn [fst snd]; f_equal; ring.
  - reflexivity.
  - intros a. unfold w2.
    assert (H : ((- a) mod 2 = a mod 2)%Z) by lia. rewrite H.
    destruct (mod2_cases a) as [Ha|Ha]; rewrite Ha; cbn; unfold cconj; cbn [fst snd]; f_equal; ring.
  - intros d. cbn [sumn Z.of_nat Pos.of_succ_nat Pos.succ]. unfold w2.
    rewrite !(Zmult_mod d _ 2). change (Z.of_nat 2) with 2%Z.
    destruct (mod2_cases d) as [Hd|Hd]; rewrite Hd; cbn; unfold cadd, c0; cbn;
      unfold cadd, c0, c1; cbn [fst snd]; f_equal; ring.
  - unfold chalf, cmul; cbn; unfold cadd, c0, c1; cbn [fst snd]. f_equal; apply Qc_is_canon; reflexivity.
Qed.

Lemma chalf_ok : cmul chalf (cadd c1 c1) = c1.
Proof. unfold chalf, cmul, cadd, c1. cbn [fst snd]. f_equal; apply Qc_is_canon; reflexivity. Qed.
Local Close Scope Qc_scope.
