(* C01 / C14 — the save side: for well-formed graphs `_serialize_value` only ever appends to the
   group, so a saved group is the base group followed by one `piece` per entry. *)
From QV.lib Require Import Prelude.
From QV.model Require Import C01_Model.
From QV.proof Require Import C01_Proofs_Base.
From Coq Require Import String Ascii.
Local Open Scope string_scope.
Local Open Scope list_scope.

Notation E := (encode_value [] []).

(* ------------------------------------------------------------------ equations of the chain *)
Lemma E_none name g : E VNone name g = set_attr name JNull g. Proof. reflexivity. Qed.
Lemma E_bool b name g : E (VBool b) name g = set_attr name (JBool b) g. Proof. reflexivity. Qed.
Lemma E_int z name g : E (VInt z) name g = set_attr name (JInt z) g. Proof. reflexivity. Qed.
Lemma E_float f name g : E (VFloat f) name g = set_attr name (JFloat f) g. Proof. reflexivity. Qed.
Lemma E_str s name g : E (VStr s) name g = set_attr name (JStr s) g. Proof. reflexivity. Qed.
Lemma E_path s name g :
  E (VPath s) name g = set_attr (sapp name ".is_path") (JBool true) (set_attr name (JStr s) g).
Proof. reflexivity. Qed.
Lemma E_np dt n name g : E (VNpScalar dt n) name g = set_attr name (jnum n) g.
Proof.
  unfold encode_value. cbn [g_tensor g_optimizer g_scheduler g_torch_logger g_py_logger g_module g_ndarray
                            g_pyscalar g_dtype_item].
  destruct (String.eqb dt "float64"); reflexivity.
Qed.
Lemma E_arr a name g :
  E (VArr a) name g = if member name g then g else create_array name (write_ndarray a) g.
Proof. reflexivity. Qed.
Lemma E_blob k tys meta h name g :
  E (VBlob k tys meta h) name g = with_group name (encode_blob k tys meta h) g.
Proof. destruct k; reflexivity. Qed.
Lemma E_logger c n lv name g :
  E (VLogger c n lv) name g =
  with_group name (set_attrs [("_python_logger", JBool true); ("class_name", JStr c);
                              ("logger_name", JStr n); ("logger_level", JInt lv)]) g.
Proof. reflexivity. Qed.
Lemma E_rng bg stt name g :
  E (VRng bg stt) name g =
  with_group name (set_attrs [("_numpy_rng", JBool true); ("_rng_state", stt);
                              ("_rng_type", JStr "Generator"); ("_bit_generator_type", JStr bg)]) g.
Proof. reflexivity. Qed.
Lemma E_list l name g : E (VList l) name g = with_group name (encode_seq E "list" l) g.
Proof. reflexivity. Qed.
Lemma E_tuple l name g : E (VTuple l) name g = with_group name (encode_seq E "tuple" l) g.
Proof. reflexivity. Qed.
Lemma E_set l name g :
  E (VSet l) name g =
  with_group name (fun sub => set_attr "_container_type" (JStr "set") (encode_seq E "list" l sub)) g.
Proof. reflexivity. Qed.
Lemma E_dict l name g : E (VDict l) name g = with_group name (encode_dict E l) g.
Proof. reflexivity. Qed.
Lemma E_obj m c l name g : E (VObj m c l) name g = with_group name (encode_fields [] [] E m c l) g.
Proof. reflexivity. Qed.
Lemma E_other tys h name g : E (VOther tys h) name g = write_bytes name (ABytes "dill" tys h) g.
Proof. reflexivity. Qed.
Definition tb_attrs (d : string) (q f : Z) (sfx : string) : smap jval :=
  [("_torch_logger", JBool true); ("class_name", JStr "SummaryWriter"); ("log_dir", JStr d);
   ("max_queue", JInt q); ("flush_secs", JInt f); ("filename_suffix", JStr sfx)].
Lemma E_tb d q f sfx name g : E (VTbWriter d q f sfx) name g = with_group name (set_attrs (tb_attrs d q f sfx)) g.
Proof. reflexivity. Qed.

(* ------------------------------------------------------------------ what one value contributes *)
Definition jscalar (v : value) : jval :=
  match v with
  | VBool b => JBool b | VInt z => JInt z | VFloat f => JFloat f
  | VStr s => JStr s | VPath s => JStr s | VNpScalar _ n => jnum n
  | _ => JNull
  end.
Definition is_path (v : value) : bool := match v with VPath _ => true | _ => false end.
Definition stored (v : value) : sarr :=
  match v with
  | VArr a => write_ndarray a
  | VOther tys h => mkSArr (mkArr "uint8" [1%Z] (ABytes "dill" tys h)) []
  | _ => mkSArr (mkArr "" [] no_data) []
  end.
Definition subg (v : value) : node :=
  match v with
  | VBlob k tys meta h => encode_blob k tys meta h empty_group
  | VLogger c n lv => set_attrs [("_python_logger", JBool true); ("class_name", JStr c);
                                 ("logger_name", JStr n); ("logger_level", JInt lv)] empty_group
  | VRng bg stt => set_attrs [("_numpy_rng", JBool true); ("_rng_state", stt);
                              ("_rng_type", JStr "Generator"); ("_bit_generator_type", JStr bg)] empty_group
  | VList l => encode_seq E "list" l empty_group
  | VTuple l => encode_seq E "tuple" l empty_group
  | VSet l => set_attr "_container_type" (JStr "set") (encode_seq E "list" l empty_group)
  | VDict l => encode_dict E l empty_group
  | VObj m c l => encode_fields [] [] E m c l empty_group
  | VTbWriter d q f sfx => set_attrs (tb_attrs d q f sfx) empty_group
  | _ => empty_group
  end.

Definition piece (v : value) (name : string) : node :=
  match sclass_of v with
  | SAttr => Group ((name, jscalar v) :: if is_path v then [(sapp name ".is_path", JBool true)] else []) [] []
  | SArr => Group [] [(name, stored v)] []
  | SGrp => Group [] [] [(name, subg v)]
  end.

Lemma E_piece v name g : fresh name g -> E v name g = napp g (piece v name).
Proof.
  intros (Ha & Hf & Hr & Hs).
  destruct v; unfold piece; cbn [sclass_of is_path jscalar stored subg].
  - rewrite E_none. apply set_attr_fresh. exact Ha.
  - rewrite E_bool. apply set_attr_fresh. exact Ha.
  - rewrite E_int. apply set_attr_fresh. exact Ha.
  - rewrite E_float. apply set_attr_fresh. exact Ha.
  - rewrite E_str. apply set_attr_fresh. exact Ha.
  - rewrite E_path. rewrite (set_attr_fresh name _ g Ha).
    rewrite set_attr_fresh.
    + rewrite napp_assoc. reflexivity.
    + destruct g as [ga gr gs]. unfold napp. cbn [n_attrs] in *. rewrite lookup_app, Hf. simpl lookup.
      destruct (String.eqb_spec (sapp name ".is_path") name) as [He|_]; [|reflexivity].
      exfalso. exact (flag_neq_self _ He).
  - rewrite E_np. apply set_attr_fresh. exact Ha.
  - rewrite E_arr. unfold member, has_key. rewrite Hr, Hs. cbn [orb].
    apply create_array_fresh; assumption.
  - rewrite E_blob. apply with_group_fresh. exact Hs.
  - rewrite E_logger. apply with_group_fresh. exact Hs.
  - rewrite E_rng. apply with_group_fresh. exact Hs.
  - rewrite E_list. apply with_group_fresh. exact Hs.
  - rewrite E_tuple. apply with_group_fresh. exact Hs.
  - rewrite E_set. apply with_group_fresh. exact Hs.
  - rewrite E_dict. apply with_group_fresh. exact Hs.
  - rewrite E_obj. apply with_group_fresh. exact Hs.
  - rewrite E_other. unfold write_bytes. apply create_array_fresh; assumption.
  - rewrite E_tb. apply with_group_fresh. exact Hs.
Qed.

(* keys a piece occupies *)
Lemma piece_attr_keys v name k :
  In k (keys (n_attrs (piece v name))) -> k = name \/ k = sapp name ".is_path".
Proof.
  unfold piece. destruct (sclass_of v); cbn [n_attrs keys map fst]; [|intros []|intros []].
  destruct (is_path v); cbn [map fst In]; intuition.
Qed.
Lemma piece_array_keys v name k : In k (keys (n_arrays (piece v name))) -> k = name.
Proof. unfold piece. destruct (sclass_of v); cbn [n_arrays keys map fst In]; intuition. Qed.
Lemma piece_group_keys v name k : In k (keys (n_groups (piece v name))) -> k = name.
Proof. unfold piece. destruct (sclass_of v); cbn [n_groups keys map fst In]; intuition. Qed.

Lemma fresh_napp_piece k' g v k :
  fresh k' g -> k' <> k -> plain k -> plain k' -> fresh k' (napp g (piece v k)).
Proof.
  intros (Ha & Hf & Hr & Hs) Hne Hpk Hpk'.
  destruct g as [a r s]. unfold fresh, napp. cbn [n_attrs n_arrays n_groups] in *.
  rewrite !lookup_app, Ha, Hf, Hr, Hs.
  repeat split; apply lookup_notin; intros Hi.
  - apply piece_attr_keys in Hi. destruct Hi as [Hi|Hi]; [congruence|]. exact (plain_neq_flag _ _ Hpk' Hi).
  - apply piece_attr_keys in Hi. destruct Hi as [Hi|Hi].
    + exact (plain_neq_flag _ _ Hpk (eq_sym Hi)).
    + apply flag_inj in Hi. congruence.
  - apply piece_array_keys in Hi. congruence.
  - apply piece_group_keys in Hi. congruence.
Qed.

(* ------------------------------------------------------------------ a group of entries *)
Fixpoint pieces (es : list (string * value)) : node :=
  match es with
  | [] => empty_group
  | (k, v) :: r => napp (piece v k) (pieces r)
  end.

Definition ekeys (es : list (string * value)) : list string := map fst es.

Lemma fold_entries_pieces es g :
  NoDup (ekeys es) -> Forall plain (ekeys es) -> Forall (fun k => fresh k g) (ekeys es) ->
  fold_entries E es g = napp g (pieces es).
Proof.
  revert g. induction es as [|[k v] r IH]; intros g Hnd Hpl Hfr; cbn [fold_entries pieces].
  - rewrite napp_empty_r. reflexivity.
  - cbn [ekeys map fst] in *. inversion Hnd as [|? ? Hnk Hnd']; subst.
    inversion Hpl as [|? ? Hpk Hpl']; subst. inversion Hfr as [|? ? Hfk Hfr']; subst.
    rewrite (E_piece v k g Hfk). rewrite IH; [apply napp_assoc | exact Hnd' | exact Hpl' |].
    rewrite Forall_forall in *. intros k' Hk'.
    apply fresh_napp_piece; [apply Hfr'; exact Hk' | | exact Hpk | apply Hpl'; exact Hk'].
    intros ->. exact (Hnk Hk').
Qed.

Lemma fold_fields_noskip fs g : fold_fields E (skipped [] []) fs g = fold_entries E fs g.
Proof.
  revert g. induction fs as [|[k v] r IH]; intros g; cbn [fold_fields fold_entries]; [reflexivity|].
  apply IH.
Qed.

(* list items are entries keyed by their decimal index *)
Fixpoint ientries (i : nat) (l : list value) : list (string * value) :=
  match l with [] => [] | v :: r => (str_of i, v) :: ientries (S i) r end.

Lemma fold_items_entries l i g : fold_items E l i g = fold_entries E (ientries i l) g.
Proof. revert i g. induction l as [|v r IH]; intros i g; cbn [fold_items ientries fold_entries]; [reflexivity | apply IH]. Qed.

Lemma ekeys_ientries i l : ekeys (ientries i l) = map str_of (seq i (List.length l)).
Proof.
  revert i. induction l as [|v r IH]; intros i; cbn [ientries ekeys map fst List.length seq]; [reflexivity|].
  f_equal. apply IH.
Qed.

Lemma ientries_NoDup i l : NoDup (ekeys (ientries i l)).
Proof.
  rewrite ekeys_ientries. apply FinFun.Injective_map_NoDup; [|apply seq_NoDup].
  intros a b. apply str_of_inj.
Qed.

Lemma ientries_plain i l : Forall plain (ekeys (ientries i l)).
Proof.
  rewrite ekeys_ientries. apply Forall_forall. intros k Hk. apply in_map_iff in Hk.
  destruct Hk as [j [<- _]]. apply str_of_plain.
Qed.

Lemma In_ientries i l k v : In (k, v) (ientries i l) <-> exists j, j < List.length l /\ k = str_of (i + j) /\ nth_error l j = Some v.
Proof.
  revert i. induction l as [|x r IH]; intros i; cbn [ientries In List.length].
  - split; [intros [] | intros [j [Hj _]]; lia].
  - split.
    + intros [He|Hi].
      * injection He as <- <-. exists 0. rewrite Nat.add_0_r.
        split; [lia|]. split; reflexivity.
      * apply IH in Hi. destruct Hi as [j [Hj [Hk Hn]]]. exists (S j).
        split; [lia|]. split; [|exact Hn]. rewrite Hk. f_equal. lia.
    + intros [j [Hj [Hk Hn]]]. destruct j as [|j].
      * left. rewrite Nat.add_0_r in Hk. cbn in Hn. congruence.
      * right. apply IH. exists j. split; [lia|]. split; [|exact Hn]. rewrite Hk. f_equal. lia.
Qed.

(* ------------------------------------------------------------------ key sets and lookups of pieces *)
Lemma pieces_attr_keys es k :
  In k (keys (n_attrs (pieces es))) -> exists k', In k' (ekeys es) /\ (k = k' \/ k = sapp k' ".is_path").
Proof.
  induction es as [|[k0 v0] r IH]; cbn [pieces]; [intros []|].
  unfold napp. cbn [n_attrs]. rewrite keys_app, in_app_iff. intros [H|H].
  - apply piece_attr_keys in H. exists k0. split; [left; reflexivity | exact H].
  - destruct (IH H) as [k' [Hk' Hd]]. exists k'. split; [right; exact Hk' | exact Hd].
Qed.
Lemma pieces_array_keys es k : In k (keys (n_arrays (pieces es))) -> In k (ekeys es).
Proof.
  induction es as [|[k0 v0] r IH]; cbn [pieces]; [intros []|].
  unfold napp. cbn [n_arrays]. rewrite keys_app, in_app_iff. intros [H|H].
  - apply piece_array_keys in H. left. cbn. congruence.
  - right. apply IH. exact H.
Qed.
Lemma pieces_group_keys es k : In k (keys (n_groups (pieces es))) -> In k (ekeys es).
Proof.
  induction es as [|[k0 v0] r IH]; cbn [pieces]; [intros []|].
  unfold napp. cbn [n_groups]. rewrite keys_app, in_app_iff. intros [H|H].
  - apply piece_group_keys in H. left. cbn. congruence.
  - right. apply IH. exact H.
Qed.

(* a plain key that is not an entry key is absent everywhere; so is its flag *)
Lemma pieces_absent es k :
  Forall plain (ekeys es) -> plain k -> ~ In k (ekeys es) ->
  lookup k (n_attrs (pieces es)) = None /\ lookup (sapp k ".is_path") (n_attrs (pieces es)) = None /\
  lookup k (n_arrays (pieces es)) = None /\ lookup k (n_groups (pieces es)) = None.
Proof.
  intros Hpl Hp Hn. rewrite Forall_forall in Hpl. repeat split; apply lookup_notin; intros Hi.
  - apply pieces_attr_keys in Hi. destruct Hi as [k' [Hk' [->|He]]]; [exact (Hn Hk')|].
    exact (plain_neq_flag _ _ Hp He).
  - apply pieces_attr_keys in Hi. destruct Hi as [k' [Hk' [He|He]]].
    + exact (plain_neq_flag _ _ (Hpl _ Hk') (eq_sym He)).
    + apply flag_inj in He. subst. exact (Hn Hk').
  - apply pieces_array_keys in Hi. exact (Hn Hi).
  - apply pieces_group_keys in Hi. exact (Hn Hi).
Qed.
